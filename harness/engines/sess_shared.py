"""Shared harness of C09 (committed database == committed session state) and C10 (reads see the session's own changes).

One machine, three observers:

* REAL: random entity models (scalar / optional / unique / composite-key attributes; explicit, auto and composite primary
  keys; one-to-one, one-to-many, many-to-many, symmetric and self relationships with Pony's default and explicit cascade
  options) are built as real Pony classes over a FILE-backed SQLite database under /verif/.work; a random history of
  high-level calls runs over SEVERAL db_sessions (creates, scalar and relationship assignments, collection add / remove /
  assign / clear, deletes, flush, commit, rollback, session end with and without an exception).
* SHADOW (`Shadow`): a plain in-memory Python model of "what the program has": objects with values, relationships as both
  ends of pair sets, updated at once by every call that RETURNED; commit copies working -> committed, rollback / error
  copies committed -> working.  It is the reference of both oracles and is told only whether a call returned or raised.
* MODEL: for schemas inside the fragment of Model/SessStore.lean (explicit integer keys) every high-level call is expanded,
  through the shadow's before/after difference, into the model's column-level operations and the whole history is driven
  through the Lean driver; statuses, written columns, queue, pending link pairs, `cache.modified`, the statements of every
  flush, the transaction view and the committed database are compared after every call (correspondence), and the Lean
  reference machine is compared with the Python shadow.

C09 oracle: after EVERY commit / rollback / session end the database file, read through a raw second sqlite3 connection,
must equal the shadow's committed state (rows, scalar values, foreign keys, link rows).
C10 oracle: after every modification, before and after flushes, every read form — attribute access, collection
iteration / len / count() / is_empty() / `in` / bool, E[pk], get(), exists(), select() with and without keyword filters,
generator queries, aggregates, to_dict() — is evaluated on the real session and compared with the shadow's working state.
"""
import copy, json, os, re, sqlite3, sys
from pony.orm import (Database, Required, Optional, Set, PrimaryKey, db_session, commit, rollback, flush, select, count,
                      ObjectNotFound, MultipleObjectsFoundError)
from pony.orm import sum as psum, max as pmax, min as pmin
from pony.orm import core
import ponyutil

DEL = core.del_statuses

# ---------------------------------------------------------------- recording connection

def make_factory(log):
    class Cur(sqlite3.Cursor):
        def execute(self, sql, *a):
            log.append((sql, [list(a[0])] if a else [[]]))
            return super().execute(sql, *a)
        def executemany(self, sql, seq):
            seq = [list(x) for x in seq]
            log.append((sql, seq))
            return super().executemany(sql, seq)
    class Con(sqlite3.Connection):
        def cursor(self, factory=None):
            return super().cursor(Cur)
    return Con

INS = re.compile(r'^INSERT INTO "(\w+)" \(([^)]*)\) VALUES')
INS_DEFAULT = re.compile(r'^INSERT INTO "(\w+)" DEFAULT VALUES')
UPD = re.compile(r'^UPDATE "(\w+)"\s+SET (.*?)\s+WHERE (.*)$', re.S)
DELS = re.compile(r'^DELETE FROM "(\w+)"\s+WHERE (.*)$', re.S)

# ---------------------------------------------------------------- schema

def gen_schema(rng, fragment):
    """entities + relationships.  `fragment`: every primary key is an explicit integer (what the Lean model covers)."""
    nent = rng.choice([1, 2, 2, 3, 3])
    ents = []
    for e in range(nent):
        pk = 'explicit' if fragment else rng.choice(['explicit', 'explicit', 'auto', 'auto', 'auto', 'composite'])
        scal = [{'name': 's0', 'req': False, 'unique': False}]
        if rng.random() < 0.4: scal.append({'name': 's1', 'req': rng.random() < 0.5, 'unique': False})
        if rng.random() < 0.35: scal.append({'name': 'u0', 'req': False, 'unique': True})
        ck = rng.random() < 0.25
        if ck: scal += [{'name': 'c0', 'req': False, 'unique': False}, {'name': 'c1', 'req': False, 'unique': False}]
        ents.append({'pk': pk, 'scalars': scal, 'ckey': ck})
    if not fragment and rng.random() < 0.45:
        # hook-bearing entities (outside the Lean model): before_insert / before_update / before_delete run the shared query helpers
        # (World.helper) that the application's reads use as well - same query keys, so a result cached by the hook's query (it sees the
        # database as it was: flushing is disabled inside hooks) must be gone when the flush has written its rows
        for ed in ents:
            if rng.random() < 0.75: ed['hooks'] = sorted(set(rng.choice(['insert', 'update', 'delete', 'insert', 'update']) for _ in range(rng.choice([1, 2, 3]))))
    rels = []
    for i in range(rng.choice([1, 1, 2, 2, 3])):
        kind = rng.choice(['o2o', 'm2o', 'm2o', 'm2o', 'm2m', 'm2m', 'sym1', 'symm'])
        ea = rng.randrange(nent)
        eb = ea if rng.random() < 0.25 else rng.randrange(nent)
        if kind == 'o2o':
            areq = rng.random() < 0.3
            casc = rng.choice([None, None, None, 'a', 'b'])
            r = {'kind': kind, 'sym': False,
                 'a': {'ent': ea, 'coll': False, 'req': areq, 'opt_casc': True if casc == 'a' else None},
                 'b': {'ent': eb, 'coll': False, 'req': False, 'opt_casc': True if casc == 'b' else None}}
        elif kind == 'm2o':
            r = {'kind': kind, 'sym': False,
                 'a': {'ent': ea, 'coll': False, 'req': rng.random() < 0.35, 'opt_casc': None},
                 'b': {'ent': eb, 'coll': True, 'req': False, 'opt_casc': rng.choice([None, None, None, True, False, False])}}
            if rng.random() < 0.5: r['a'], r['b'] = r['b'], r['a']
        elif kind == 'm2m':
            r = {'kind': kind, 'sym': False,
                 'a': {'ent': ea, 'coll': True, 'req': False, 'opt_casc': None},
                 'b': {'ent': eb, 'coll': True, 'req': False, 'opt_casc': None}}
        elif kind == 'sym1':
            r = {'kind': kind, 'sym': True, 'a': {'ent': ea, 'coll': False, 'req': False, 'opt_casc': None}}
        else:
            r = {'kind': kind, 'sym': True, 'a': {'ent': ea, 'coll': True, 'req': False, 'opt_casc': None}}
        rels.append(r)
    return {'ents': ents, 'rels': rels}


def schema_in_fragment(schema):
    return all(e['pk'] == 'explicit' and not e.get('hooks') for e in schema['ents'])


HELPER_KINDS = ('count', 'ids', 'big', 'exists')
BIG = 'lambda x: x.s0 > 1'        # one query text, used by the hooks and by the application's reads


class ShadowError(Exception):
    pass


class _EpochChanged(Exception):
    pass


class World:
    """real entity classes for a schema on a file database + the description the shadow / expansion need"""
    def __init__(self, schema, tag='w'):
        self.schema = schema
        self.dir = ponyutil.workdir('c09')
        self.path = os.path.join(self.dir, 'db.sqlite')
        self.log = []
        self.db = db = Database()
        nent = len(schema['ents'])
        dicts = [dict() for _ in range(nent)]
        self.relattr = {}       # (rel, side) -> Attribute
        self.relname = {}       # (rel, side) -> name
        for e, ed in enumerate(schema['ents']):
            d = dicts[e]
            if ed['pk'] == 'explicit': d['id'] = PrimaryKey(int)
            elif ed['pk'] == 'auto': d['id'] = PrimaryKey(int, auto=True)
            else:
                d['p1'] = Required(int); d['p2'] = Required(int)
                d.setdefault('_indexes_', []).append(core.Index(d['p1'], d['p2'], is_pk=True))
            for s in ed['scalars']:
                d[s['name']] = (Required if s['req'] else Optional)(int, **({'unique': True} if s['unique'] else {}))
            if ed['ckey']:
                d.setdefault('_indexes_', []).append(core.Index(d['c0'], d['c1'], is_pk=False, is_unique=True))
        for i, r in enumerate(schema['rels']):
            for sn in (['a'] if r['sym'] else ['a', 'b']):
                sd = r[sn]
                other = r['a'] if r['sym'] else r['b' if sn == 'a' else 'a']
                name = 'r%d%s' % (i, sn)
                rname = name if r['sym'] else 'r%d%s' % (i, 'b' if sn == 'a' else 'a')
                cls = Set if sd['coll'] else (Required if sd['req'] else Optional)
                kw = {'reverse': rname}
                if sd['opt_casc'] is not None: kw['cascade_delete'] = sd['opt_casc']
                attr = cls('E%d' % other['ent'], **kw)
                dicts[sd['ent']][name] = attr
                self.relattr[(i, sn == 'b')] = attr
                self.relname[(i, sn == 'b')] = name
        self.hook_calls = 0
        self.has_hooks = any(ed.get('hooks') for ed in schema['ents'])
        world = self
        for e, ed in enumerate(schema['ents']):
            for h in ed.get('hooks') or ():
                def hook(obj, _h=h):
                    world.hook_calls += 1
                    for e2 in range(len(world.classes)):
                        for kind in HELPER_KINDS: world.helper(kind, e2)
                dicts[e]['before_' + h] = hook
        self.classes = [type('E%d' % e, (db.Entity,), dicts[e]) for e in range(nent)]
        db.bind('sqlite', self.path, create_db=True, factory=make_factory(self.log))
        db.generate_mapping(create_tables=True)
        # effective description read back from the real attributes
        self.sides = {}
        for key, a in self.relattr.items():
            self.sides[key] = {'ent': self.classes.index(a.entity), 'coll': bool(a.is_collection), 'req': bool(a.is_required),
                               'casc': bool(a.cascade_delete), 'name': a.name, 'has_col': bool(a.columns) and not a.is_collection}
        self.ent_rel = [[] for _ in range(nent)]          # entity -> [(rel, side)] in declaration order of the real class
        for e, cls in enumerate(self.classes):
            byname = {self.relname[k]: k for k in self.relattr if self.sides[k]['ent'] == e}
            self.ent_rel[e] = [byname[a.name] for a in cls._attrs_ if a.name in byname]
        self.pk_attrs = [[a.name for a in cls._pk_attrs_] for cls in self.classes]
        # column attributes (no pk, no collections) in a fixed order = the model's column indices
        self.cols = []
        for e, cls in enumerate(self.classes):
            cs = []
            for a in cls._attrs_:
                if a.is_collection or a.pk_offset is not None or not a.columns: continue
                if a.reverse: cs.append({'name': a.name, 'kind': 'ref', 'key': self.keyof(a), 'target': self.classes.index(a.py_type), 'columns': list(a.columns)})
                else: cs.append({'name': a.name, 'kind': 'scalar', 'columns': list(a.columns)})
            self.cols.append(cs)
        self.m2m = [i for i, r in enumerate(schema['rels']) if r['kind'] in ('m2m', 'symm')]
        # `_calc_modified_m2m` collects the pairs of a relationship from the attribute that sorts first by (entity name, attribute name)
        self.m2m_side = {}
        for i in self.m2m:
            if schema['rels'][i]['sym']: self.m2m_side[i] = False
            else:
                ks = sorted([(self.relattr[(i, sd)].entity.__name__, self.relattr[(i, sd)].name, sd) for sd in (False, True)])
                self.m2m_side[i] = ks[0][2]
        self.table_ent = {cls._table_: e for e, cls in enumerate(self.classes)}
        self.table_rel = {}
        for i in self.m2m:
            self.table_rel[self.relattr[(i, False)].table] = i
        self.fragment = schema_in_fragment(schema)

    def keyof(self, attr):
        for k, a in self.relattr.items():
            if a is attr: return k
        raise KeyError(attr)

    def rev(self, key):
        i, s = key
        return key if self.schema['rels'][i]['sym'] else (i, not s)

    def relkind(self, key):
        r = self.schema['rels'][key[0]]
        k = r['kind']
        if k == 'm2o': k = 'o2m' if self.sides[key]['coll'] else 'm2o'
        return k

    def helper(self, kind, e):
        """the query helpers shared by the before_* hooks and the application's reads (one call site each: one query key)"""
        cls = self.classes[e]
        if kind == 'count': return cls.select().count()
        if kind == 'ids': return cls.select()[:]
        if kind == 'big': return cls.select(BIG)[:]
        return cls.select(BIG).exists()

    def close(self):
        try: self.db.disconnect()
        except Exception: pass
        try: self.db.provider.pool.disconnect()
        except Exception: pass
        ponyutil.rmtree(self.dir)

    # ---- raw view of the database file (a second connection: only committed data is visible)
    def read_db(self, con=None):
        own = con is None
        if own: con = sqlite3.connect(self.path)
        try:
            rows = {}
            for e, cls in enumerate(self.classes):
                pkc = list(cls._pk_columns_)
                cols = [c for cs in self.cols[e] for c in cs['columns']]
                q = 'SELECT %s FROM "%s"' % (', '.join('"%s"' % c for c in pkc + cols), cls._table_)
                d = {}
                for row in con.execute(q).fetchall():
                    pk = row[0] if len(pkc) == 1 else tuple(row[:len(pkc)])
                    vals = {}; j = len(pkc)
                    for cs in self.cols[e]:
                        n = len(cs['columns']); v = row[j:j + n]; j += n
                        vals[cs['name']] = v[0] if n == 1 else (None if all(x is None for x in v) else tuple(v))
                    d[pk] = vals
                rows[e] = d
            links = {}
            for i in self.m2m:
                a = self.relattr[(i, False)]
                if a.symmetric: c1, c2 = list(a.columns), list(a.reverse_columns)
                else: c1, c2 = list(a.reverse.columns), list(a.columns)
                q = 'SELECT %s FROM "%s"' % (', '.join('"%s"' % c for c in c1 + c2), a.table)
                s = set()
                for row in con.execute(q).fetchall():
                    x = row[0] if len(c1) == 1 else tuple(row[:len(c1)])
                    y = row[len(c1)] if len(c2) == 1 else tuple(row[len(c1):])
                    s.add((x, y))
                links[i] = s
            return {'rows': rows, 'links': links}
        finally:
            if own: con.close()


# ---------------------------------------------------------------- the shadow: what the program has

class Shadow:
    def __init__(self, w):
        self.w = w
        self.objs = {}      # oid -> {'ent', 'pk', 'alive', 'vals': {name: int|None | oid|None | set(oids)}}
        self._deleting = set()

    def clone(self):
        s = Shadow(self.w)
        s.objs = {oid: {'ent': o['ent'], 'pk': o['pk'], 'alive': o['alive'],
                        'vals': {k: (set(v) if isinstance(v, set) else v) for k, v in o['vals'].items()}} for oid, o in self.objs.items()}
        return s

    def live(self, e=None):
        return [oid for oid, o in self.objs.items() if o['alive'] and (e is None or o['ent'] == e)]

    def partners(self, oid, key):
        v = self.objs[oid]['vals'][self.w.sides[key]['name']]
        if isinstance(v, set): return set(v)
        return set() if v is None else {v}

    def _half(self, x, key, y, add):
        o = self.objs[x]; name = self.w.sides[key]['name']
        if self.w.sides[key]['coll']:
            (o['vals'][name].add if add else o['vals'][name].discard)(y)
        else:
            if add: o['vals'][name] = y
            elif o['vals'][name] == y: o['vals'][name] = None

    def _link(self, x, key, y):
        self._half(x, key, y, True); self._half(y, self.w.rev(key), x, True)

    def _unlink(self, x, key, y):
        self._half(x, key, y, False); self._half(y, self.w.rev(key), x, False)

    # ---- calls (effect of a call that RETURNED)
    def create(self, oid, e, pk, scalars, refs, colls):
        w = self.w
        vals = {}
        for s in w.schema['ents'][e]['scalars']: vals[s['name']] = scalars.get(s['name'])
        for key in w.ent_rel[e]: vals[w.sides[key]['name']] = set() if w.sides[key]['coll'] else None
        self.objs[oid] = {'ent': e, 'pk': pk, 'alive': True, 'vals': vals}
        for key in w.ent_rel[e]:
            name = w.sides[key]['name']
            if w.sides[key]['coll']:
                if colls.get(name): self.coll_add(oid, key, colls[name])
            elif refs.get(name) is not None: self.set_ref(oid, key, refs[name])

    def set_scalar(self, oid, name, v):
        self.objs[oid]['vals'][name] = v

    def set_ref(self, oid, key, x):
        w = self.w; side = w.sides[key]; rkey = w.rev(key); rside = w.sides[rkey]
        old = next(iter(self.partners(oid, key)), None)
        if old == x: return
        if old is not None:
            self._unlink(oid, key, old)
            if not rside['coll'] and side['casc'] and not (old == oid and rkey == key): self.delete(old)
        if x is not None:
            if not rside['coll']:
                p = next(iter(self.partners(x, rkey)), None)
                if p is not None and p != oid:
                    if side['req']: raise ShadowError('stealing from a required attribute')
                    self._unlink(x, rkey, p)
            self._link(oid, key, x)

    def coll_add(self, oid, key, items):
        w = self.w; rkey = w.rev(key); rside = w.sides[rkey]
        for it in items:
            if it in self.partners(oid, key): continue
            if not rside['coll']:
                p = next(iter(self.partners(it, rkey)), None)
                if p is not None: self._unlink(it, rkey, p)
            self._link(oid, key, it)

    def coll_remove(self, oid, key, items):
        w = self.w; side = w.sides[key]; rkey = w.rev(key); rside = w.sides[rkey]
        for it in items:
            if it not in self.partners(oid, key): continue
            if not rside['coll']:
                if side['casc']: self.delete(it)
                else:
                    if rside['req']: raise ShadowError('unlinking a required attribute')
                    self._unlink(oid, key, it)
            else: self._unlink(oid, key, it)

    def coll_set(self, oid, key, items):
        cur = self.partners(oid, key)
        self.coll_remove(oid, key, sorted(cur - set(items)))
        self.coll_add(oid, key, [i for i in items if i not in cur])

    def delete(self, oid):
        w = self.w; o = self.objs[oid]
        if not o['alive'] or oid in self._deleting: return
        self._deleting.add(oid)
        try:
            for key in w.ent_rel[o['ent']]:
                side = w.sides[key]; rkey = w.rev(key); rside = w.sides[rkey]
                if not side['coll']: continue
                members = self.partners(oid, key)
                if not members: continue
                if side['casc']:
                    for m in sorted(members): self.delete(m)
                elif not rside['req']:
                    for m in sorted(members): self._unlink(oid, key, m)
                else: raise ShadowError('delete with a non-empty required collection')
            for key in w.ent_rel[o['ent']]:
                side = w.sides[key]; rkey = w.rev(key); rside = w.sides[rkey]
                if side['coll']: continue
                x = next(iter(self.partners(oid, key)), None)
                if x is None: continue
                if not rside['coll']:
                    if side['casc']: self.delete(x)
                    elif not rside['req']:
                        if next(iter(self.partners(x, rkey)), None) == oid: self._unlink(oid, key, x)
                    else: raise ShadowError('delete with a required one-to-one partner')
                else: self._unlink(oid, key, x)
            o['alive'] = False
            # whatever is left (cascade partners already dead): drop the pairs, a dead object holds nothing
            for key in w.ent_rel[o['ent']]:
                for m in list(self.partners(oid, key)): self._unlink(oid, key, m)
        finally:
            self._deleting.discard(oid)

    # ---- the logical database (for the C09 oracle); None if some live object has no primary key yet
    def logical(self):
        w = self.w
        rows = {e: {} for e in range(len(w.classes))}
        for oid, o in self.objs.items():
            if not o['alive']: continue
            if o['pk'] is None: return None
            vals = {}
            for cs in w.cols[o['ent']]:
                v = o['vals'][cs['name']]
                if cs['kind'] == 'ref' and v is not None:
                    v = self.objs[v]['pk']
                    if v is None: return None
                vals[cs['name']] = v
            rows[o['ent']][o['pk']] = vals
        links = {}
        for i in w.m2m:
            s = set()
            for oid, o in self.objs.items():
                if not o['alive'] or o['ent'] != w.sides[(i, False)]['ent']: continue
                for y in self.partners(oid, (i, False)): s.add((o['pk'], self.objs[y]['pk']))
            links[i] = s
        return {'rows': rows, 'links': links}


# ---------------------------------------------------------------- one history on the real code

# exceptions with which a flush (explicit or implicit) fails loudly: the program cannot go on, the session ends with an error
FLUSH_ERRORS = {'UnresolvableCyclicDependency', 'TransactionIntegrityError', 'IntegrityError', 'OptimisticCheckError', 'UnexpectedError',
                'CommitException', 'ConstraintError:required'}

MODEL_STATUS = {'created', 'loaded', 'modified', 'inserted', 'updated', 'marked_to_delete', 'deleted', 'cancelled'}


class Run:
    """executes a history (recorded ops or generated on the fly) and collects findings"""
    def __init__(self, schema, rng=None, ops=None, nops=24, ctx=None, reads=True):
        self.schema = schema; self.rng = rng; self.given = ops; self.nops = nops; self.ctx = ctx
        self.do_reads = reads
        self.ops = []               # executed high-level ops (replayable)
        self.findings = []          # {'prop': 'C09'|'C10', 'key', 'what', 'observed', 'expected', 'at': index}
        self.divs = []              # model/implementation differences found while running (before the driver)
        self.model_ops = []         # column-level ops for the Lean model
        self.model_checks = []      # per model op: None or dict of what to compare after it
        self.w = World(schema)
        self.sh = Shadow(self.w)            # working
        self.committed = self.sh.clone()    # committed
        self.h = {}                 # oid -> live python object of the current cache
        self.in_session = False
        self.stop = False
        self.next_oid = 0
        self.next_pk = [1] * len(schema['ents'])
        self.prev_index = set()
        self.counts = {}

    def count(self, k, n=1):
        self.counts[k] = self.counts.get(k, 0) + n
        if self.ctx is not None: self.ctx.count(k, n)

    # ---------- helpers
    def key_of(self, oid):
        o = self.sh.objs[oid]
        return [o['ent'], o['pk']]

    def cache(self):
        return core.local.db2cache.get(self.w.db)

    def oid_of(self, obj):
        if obj is None: return None
        for oid, x in self.h.items():
            if x is obj: return oid
        e = self.w.classes.index(type(obj))
        pk = obj._pkval_
        for oid, o in self.sh.objs.items():
            if o['ent'] == e and o['pk'] is not None and o['pk'] == pk and (o['alive'] or oid not in self.h):
                if o['alive']:
                    self.h[oid] = obj
                    return oid
        for oid, o in self.sh.objs.items():
            if o['ent'] == e and o['pk'] is not None and o['pk'] == pk: return oid
        return ('unknown', e, pk)

    def finding(self, prop, key, what, observed=None, expected=None):
        self.findings.append({'prop': prop, 'key': key, 'what': what, 'observed': observed, 'expected': expected, 'at': len(self.ops)})
        self.stop = True

    def learn_pks(self):
        for oid, obj in self.h.items():
            o = self.sh.objs.get(oid)
            if o is not None and o['pk'] is None and obj._pkval_ is not None: o['pk'] = obj._pkval_

    # ---------- sessions
    def enter(self):
        db_session.__enter__()
        self.in_session = True
        self.h = {}; self.prev_index = set()

    def leave(self, err):
        """end the db_session normally (commit) or with an exception (rollback); returns the exception class name raised by __exit__"""
        self.in_session = False
        try:
            if err: db_session.__exit__(RuntimeError, RuntimeError('program error'), None)
            else: db_session.__exit__(None, None, None)
            return None
        except Exception as e:
            return type(e).__name__
        finally:
            if not err: self.learn_pks()
            self.h = {}; self.prev_index = set()
            core.local.db_session = None
            core.local.db_context_counter = 0

    def resolve(self, oid):
        """live python object for a shadow object (re-fetched by primary key after the cache was dropped)"""
        if oid in self.h: return self.h[oid]
        o = self.sh.objs[oid]
        if o['pk'] is None: return None
        cls = self.w.classes[o['ent']]
        had = self.real_indexed()
        try: obj = cls[o['pk']]
        except ObjectNotFound: obj = None
        except Exception as e:
            name = type(e).__name__
            if name in FLUSH_ERRORS:
                self.count('read-ended-session:getitem:' + name)
                self.after_abort('error:' + name); self.model_abandon('read ended the session')
            else:
                self.finding('C10', 'getitem:raised:' + name, 'E[pk] of an object the program has raised', observed=name, expected='object')
            return None
        self.note_load(o['ent'], o['pk'], obj is not None, had)
        exp = o['alive']
        if (obj is not None) != exp:
            self.finding('C10', 'getitem:%s' % ('deleted-object-found' if obj is not None else 'live-object-not-found'),
                         'E[pk] disagrees with what the program has', observed=repr(obj), expected='object' if exp else 'ObjectNotFound')
            return None
        if obj is not None: self.h[oid] = obj
        return obj

    # ---------- model bookkeeping (fragment schemas only)
    def real_indexed(self):
        c = self.cache()
        if c is None or not c.is_alive: return set()
        out = set()
        for e, cls in enumerate(self.w.classes):
            for pk in c.indexes[cls._pk_attrs_]: out.add((e, pk))
        return out

    def mop(self, op, check=True):
        if not self.w.fragment or self.abandoned: return
        self.model_ops.append(op)
        self.model_checks.append(self.snapshot() if check else None)

    def note_load(self, e, pk, found, had):
        """an E[pk] happened on the real code: the model's `load` (cache first, else auto-flush + SELECT)"""
        if not self.w.fragment or self.abandoned: return
        self.sync_seeds(exclude={(e, pk)})
        self.model_ops.append({'k': 'load', 'key': [e, pk]})
        snap = self.snapshot(); snap['expect_out'] = 'found' if found else 'notFound'
        self.model_checks.append(snap)
        self.prev_index = self.real_indexed()

    def sync_seeds(self, exclude=()):
        """objects that came into the real cache as a side effect (collection loads, queries, seeds of foreign keys)"""
        if not self.w.fragment or self.abandoned: return
        now = self.real_indexed()
        for k in sorted(now - self.prev_index):
            if k in exclude: continue
            self.model_ops.append({'k': 'seed', 'key': [k[0], k[1]]}); self.model_checks.append(None)
            self.count('model-op:seed')
        self.prev_index = now

    def cell(self, e, cs, v):
        if v is None: return None
        if cs['kind'] == 'ref': return {'ref': [cs['target'], self.sh.objs[v]['pk']]}
        return v

    def cells_of(self, sh, oid):
        o = sh.objs[oid]
        out = []
        for cs in self.w.cols[o['ent']]:
            v = o['vals'][cs['name']]
            if v is not None and cs['kind'] == 'ref': v = {'ref': [cs['target'], sh.objs[v]['pk']]}
            out.append(v)
        return out

    def links_of(self, sh):
        out = set()
        for i in self.w.m2m:
            ea = self.w.sides[(i, False)]['ent']
            for oid, o in sh.objs.items():
                if not o['alive'] or o['ent'] != ea: continue
                for y in sh.partners(oid, (i, False)):
                    out.add((i, (o['ent'], o['pk']), (sh.objs[y]['ent'], sh.objs[y]['pk'])))
        return out

    def expand(self, before, after, forced=(), forced_links=()):
        """column-level operations of one high-level call = difference of the shadow before / after it
        (`forced`: (oid, column name) assigned explicitly by the call — the real code sets the write bit even when the value is unchanged)"""
        ops = []
        for oid, o in after.objs.items():
            if oid not in before.objs and o['alive']:
                ops.append({'k': 'create', 'key': [o['ent'], o['pk']], 'vals': self.cells_of(after, oid)})
        for oid, o in after.objs.items():
            if oid not in before.objs or not o['alive'] or not before.objs[oid]['alive']: continue
            b = self.cells_of(before, oid); a = self.cells_of(after, oid)
            for c, cs in enumerate(self.w.cols[o['ent']]):
                if a[c] != b[c] or (oid, cs['name']) in forced:
                    ops.append({'k': 'set', 'key': [o['ent'], o['pk']], 'c': c, 'v': a[c]})
        lb = self.links_of(before); la = self.links_of(after)
        # pairs of objects that die in this call are removed by the call itself (Set.__set__(obj, ()) inside _delete_)
        for l in sorted(lb - la): ops.append({'k': 'unlink', 'l': [l[0], list(l[1]), list(l[2])]})
        for l in sorted(la - lb): ops.append({'k': 'link', 'l': [l[0], list(l[1]), list(l[2])]})
        for kind, l in forced_links:      # pairs named by the call that were already / not in the collection: the call still runs its bookkeeping
            if (kind == 'link' and l in lb and l in la) or (kind == 'unlink' and l not in lb and l not in la):
                ops.append({'k': kind, 'l': [l[0], list(l[1]), list(l[2])]})
        for oid, o in after.objs.items():
            if oid in before.objs and before.objs[oid]['alive'] and not o['alive']:
                ops.append({'k': 'delete', 'key': [o['ent'], o['pk']]})
        return ops

    def snapshot(self):
        """abstraction of the real session after a call: what is compared with the model state"""
        c = self.cache()
        snap = {'cache': {}, 'queue': [], 'added': set(), 'removed': set(), 'modified': False, 'alive': False}
        if c is None or not c.is_alive: return snap
        snap['alive'] = True
        snap['modified'] = bool(c.modified)
        w = self.w
        for obj in c.objects:
            e = w.classes.index(type(obj))
            if obj._pkval_ is None: continue
            vals = {}
            for ci, cs in enumerate(w.cols[e]):
                a = getattr(w.classes[e], cs['name'])
                if obj._vals_ is not None and a in obj._vals_:
                    v = obj._vals_[a]
                    if v is not None and cs['kind'] == 'ref': v = {'ref': [cs['target'], v._pkval_]}
                    vals[ci] = v
            wb = []
            if obj._wbits_:
                for ci, cs in enumerate(w.cols[e]):
                    a = getattr(w.classes[e], cs['name'])
                    if obj._wbits_ & obj._bits_.get(a, 0): wb.append(ci)
            indexed = c.indexes[type(obj)._pk_attrs_].get(obj._pkval_) is obj
            key = (e, obj._pkval_)
            if key in snap['cache'] and not indexed: continue
            snap['cache'][key] = {'status': obj._status_, 'vals': vals, 'wbits': wb, 'indexed': indexed}
        snap['queue'] = [None if o is None else (w.classes.index(type(o)), o._pkval_) for o in c.objects_to_save]
        for i in w.m2m:
            for side in ([False] if w.schema['rels'][i]['sym'] else [False, True]):
                a = w.relattr[(i, side)]
                for obj in c.objects:
                    if not isinstance(obj, a.entity) or obj._vals_ is None: continue
                    sd = obj._vals_.get(a)
                    if sd is None: continue
                    for name in ('added', 'removed'):
                        for it in (getattr(sd, name) or ()):
                            x, y = (obj, it) if not side else (it, obj)
                            snap[name].add((i, (w.classes.index(type(x)), x._pkval_), (w.classes.index(type(y)), y._pkval_), side))
        snap['txn'] = self.txn_view()
        if self.sh.logical() is not None and self.committed.logical() is not None:
            snap['shadow'] = (_db_of_shadow(self, self.sh), _db_of_shadow(self, self.committed))
        return snap

    def txn_view(self):
        c = self.cache()
        if c is None or not c.is_alive or c.connection is None: return None
        n = len(self.w.log)
        try: return self.w.read_db(c.connection)
        finally: del self.w.log[n:]

    # ---------- statements of the real flushes, in the model's vocabulary
    def mark(self):
        return len(self.w.log)

    def dml_since(self, mark):
        w = self.w; out = []
        for sql, seq in self.w.log[mark:]:
            m = INS.match(sql)
            if m and m.group(1) in w.table_ent:
                e = w.table_ent[m.group(1)]; names = [c.strip().strip('"') for c in m.group(2).split(',')]
                for args in seq:
                    d = dict(zip(names, args)); cells = []
                    for ci, cs in enumerate(w.cols[e]):
                        col = cs['columns'][0]
                        if col in d and d[col] is not None:
                            cells.append([ci, {'ref': [cs['target'], d[col]]} if cs['kind'] == 'ref' else d[col]])
                    out.append(['insert', [e, d.get('id')], cells])
                continue
            if m and m.group(1) in w.table_rel:
                out += self._link_stmt('link', w.table_rel[m.group(1)], [c.strip().strip('"') for c in m.group(2).split(',')], seq); continue
            m = UPD.match(sql)
            if m and m.group(1) in w.table_ent:
                e = w.table_ent[m.group(1)]
                names = [x.split('=')[0].strip().strip('"') for x in m.group(2).split(',')]
                for args in seq:
                    cells = []
                    for n, v in zip(names, args):
                        for ci, cs in enumerate(w.cols[e]):
                            if cs['columns'][0] == n:
                                cells.append([ci, None if v is None else ({'ref': [cs['target'], v]} if cs['kind'] == 'ref' else v)])
                    out.append(['update', [e, args[len(names)]], sorted(cells, key=lambda x: x[0])])
                continue
            m = DELS.match(sql)
            if m and m.group(1) in w.table_ent:
                for args in seq: out.append(['delete', [w.table_ent[m.group(1)], args[0]]])
                continue
            if m and m.group(1) in w.table_rel:
                names = re.findall(r'"(\w+)" = \?', m.group(2))
                out += self._link_stmt('unlink', w.table_rel[m.group(1)], names, seq); continue
        return out

    def _link_stmt(self, kind, i, names, seq):
        w = self.w; a = w.relattr[(i, False)]
        if a.symmetric: ca, cb = list(a.columns), list(a.reverse_columns)
        else: ca, cb = list(a.reverse.columns), list(a.columns)
        ea = w.sides[(i, False)]['ent']; eb = w.sides[w.rev((i, False))]['ent']
        out = []
        for args in seq:
            d = dict(zip(names, args))
            out.append([kind, [i, [ea, d[ca[0]]], [eb, d[cb[0]]]]])
        return out

    # ---------- generation of high-level calls
    def usable(self, e=None):
        """live objects the program can still reach: held in the current cache or re-fetchable by primary key"""
        return [oid for oid in self.sh.live(e) if oid in self.h or self.sh.objs[oid]['pk'] is not None]

    def gen_op(self):
        rng = self.rng; w = self.w; sh = self.sh
        rs = rng.randrange(1 << 30)
        r = rng.random()
        live = self.usable()
        q = getattr(self, 'queued_ops', None)
        while q:
            op = q.pop(0)
            if self.refs_ok(op): return dict(op, rs=rs)
        # a membership test, then a change of that membership from either side, then the same test - nothing flushed in between
        if r < 0.07 and live:
            cands = [(oid, key) for oid in live for key in w.ent_rel[sh.objs[oid]['ent']] if w.sides[key]['coll']]
            if cands:
                oid, key = rng.choice(cands); rkey = w.rev(key)
                tgt = [x for x in self.usable(w.sides[rkey]['ent']) if not (w.schema['rels'][key[0]]['sym'] and x == oid)]
                if tgt:
                    x = rng.choice(tgt)
                    member = x in sh.partners(oid, key)
                    if rng.random() < 0.5: ch = {'k': 'coll_remove' if member else 'coll_add', 'o': oid, 'key': list(key), 'items': [x], 'via': rng.choice(['list', 'single', 'op']), 'noreads': True}
                    elif w.sides[rkey]['coll']: ch = {'k': 'coll_remove' if member else 'coll_add', 'o': x, 'key': list(rkey), 'items': [oid], 'via': 'single', 'noreads': True}
                    else: ch = {'k': 'set_ref', 'o': x, 'key': list(rkey), 'v': None if member else oid, 'noreads': True}
                    test = {'k': 'coll_in', 'o': oid, 'key': list(key), 'x': x, 'noreads': True}
                    self.queued_ops = [ch, dict(test)] + ([dict(ch, k={'coll_add': 'coll_remove', 'coll_remove': 'coll_add'}.get(ch['k'], ch['k']),
                                                                **({'v': (oid if ch.get('v') is None else None)} if ch['k'] == 'set_ref' else {})), dict(test)]
                                                          if rng.random() < 0.4 else [])
                    return dict(test, rs=rs)
        # an existing object is modified, a new object is created, a reference is pointed at the new object (from either side), commit:
        # the new object has to be written before the row that refers to it, also when that row belongs to a `modified` object
        if 0.07 <= r < 0.13 and live:
            cands = [(oid, key) for oid in live for key in w.ent_rel[sh.objs[oid]['ent']]
                     if sh.objs[oid]['pk'] is not None and oid in self.committed.objs and self.committed.objs[oid]['alive']]
            if cands:
                oid, key = rng.choice(cands); side = w.sides[key]; rkey = w.rev(key); e = sh.objs[oid]['ent']
                cr = self.gen_create(rs, e=w.sides[rkey]['ent'])
                cr['refs'] = {n: v for n, v in cr['refs'].items() if w.sides[[k for k in w.ent_rel[cr['e']] if w.sides[k]['name'] == n][0]]['req']}
                cr['colls'] = {}; cr['noreads'] = True
                new = cr['oid']
                if side['coll']: link = {'k': 'coll_add', 'o': oid, 'key': list(key), 'items': [new], 'via': rng.choice(['list', 'single', 'op']), 'noreads': True}
                elif rng.random() < 0.6 or w.sides[rkey]['coll']: link = {'k': 'set_ref', 'o': oid, 'key': list(key), 'v': new, 'noreads': True}
                else: link = {'k': 'set_ref', 'o': new, 'key': list(rkey), 'v': oid, 'noreads': True}
                sc = rng.choice(w.schema['ents'][e]['scalars'])
                first = {'k': 'set_scalar', 'o': oid, 'a': sc['name'], 'v': rng.choice([0, 1, 2, 3]), 'noreads': True, 'rs': rs}
                self.queued_ops = [cr, link] + ([{'k': rng.choice(['commit', 'end_ok', 'flush']), 'noreads': True}] if rng.random() < 0.7 else [])
                self.count('gen:modified-object-refers-to-new-object')
                return first
        # toggle burst: three or four calls on ONE collection over a pool of two items with nothing flushed in between (an item that is added,
        # dropped by an assignment and added again has to be inserted; one that is removed, re-added and removed again has to go), then a boundary
        if 0.13 <= r < 0.17 and live:
            cands = [(oid, key) for oid in live for key in w.ent_rel[sh.objs[oid]['ent']] if w.sides[key]['coll']]
            if cands:
                oid, key = rng.choice(cands)
                own = w.schema['rels'][key[0]]['sym'] and rng.random() < 0.4          # the owner itself in the pool of a symmetric collection
                tgt = [x for x in self.usable(w.sides[w.rev(key)]['ent']) if not (w.schema['rels'][key[0]]['sym'] and x == oid)]
                if tgt or own:
                    pool = sorted(set([rng.choice(tgt) for _ in range(2)] if tgt else []) | ({oid} if own else set()))
                    if own: self.count('gen:toggle-burst:symmetric-owner-in-pool')
                    burst = []
                    for _ in range(rng.choice([3, 3, 4])):
                        kk = rng.choice(['add', 'add', 'remove', 'set', 'set', 'clear'])
                        items = [] if kk == 'clear' else sorted(set(rng.choice(pool) for _ in range(rng.choice([1, 1, 2]))))
                        if kk == 'set' and rng.random() < 0.4: items = sorted(set(sh.partners(oid, key)) - set(pool)) if rng.random() < 0.5 else []
                        burst.append({'k': 'coll_' + kk, 'o': oid, 'key': list(key), 'items': items, 'via': rng.choice(['list', 'single', 'op']), 'noreads': True})
                    if rng.random() < 0.8: burst.append({'k': rng.choice(['commit', 'end_ok', 'flush']), 'noreads': True})
                    # half of the bursts start on a cold cache (a fresh session, nothing read): the calls go through the partial loads of
                    # `add` / `remove` and the full load of an assignment with changes pending
                    if rng.random() < 0.5: burst.insert(0, {'k': 'end_ok', 'noreads': True}); self.count('gen:toggle-burst:cold')
                    self.queued_ops = burst[1:]
                    self.count('gen:toggle-burst')
                    return dict(burst[0], rs=rs)
        # partial-row move: an object whose row is only partly known to the cache (created with optional attributes left empty and INSERTed:
        # the None values are dropped; or a seed, known through another object's foreign key only) gets a scalar assigned, then - before any
        # flush - its row is loaded INSIDE a call (assignment of its not-loaded reference, or an add from the collection side of it, both
        # under flush_disabled), then commit: the loaded row must not overwrite the assigned value
        if 0.17 <= r < 0.22:
            cands = []
            for e, ed in enumerate(w.schema['ents']):
                opt = [s for s in ed['scalars'] if not s['req']]
                keys = [key for key in w.ent_rel[e] if not w.sides[key]['coll'] and not w.sides[key]['req']]
                if opt and keys: cands.append((e, opt, keys))
            if cands:
                e, opt, keys = rng.choice(cands)
                key = rng.choice(keys); rkey = w.rev(key); sym = w.schema['rels'][key[0]]['sym']
                sc = rng.choice(opt)
                val = rng.choice([0, 1, 2, 3, 4, 5]) if sc.get('unique') else rng.choice([1, 2, 3])
                tail = [{'k': rng.choice(['commit', 'commit', 'end_ok', 'flush']), 'noreads': True}] if rng.random() < 0.85 else []
                def link_ops(x, tgt):
                    t = rng.choice(tgt)
                    if w.sides[rkey]['coll'] and rng.random() < 0.5:
                        return {'k': 'coll_add', 'o': t, 'key': list(rkey), 'items': [x], 'via': rng.choice(['list', 'single', 'op']), 'noreads': True}
                    return {'k': 'set_ref', 'o': x, 'key': list(key), 'v': t, 'noreads': True}
                # a committed object of that entity that another committed object refers to through a column
                seeds = []
                for y in live:
                    oy = sh.objs[y]
                    if oy['pk'] is None or y not in self.committed.objs or not self.committed.objs[y]['alive']: continue
                    for ykey in w.ent_rel[oy['ent']]:
                        ys = w.sides[ykey]
                        if ys['coll'] or not ys.get('has_col') or w.sides[w.rev(ykey)]['ent'] != e: continue
                        x = oy['vals'].get(ys['name'])
                        if x is not None and x != y and x in live and sh.objs[x]['pk'] is not None and x in self.committed.objs and self.committed.objs[x]['alive'] \
                                and self.committed.objs[y]['vals'].get(ys['name']) == x:
                            seeds.append((y, ykey, x))
                if seeds and rng.random() < 0.6:
                    y, ykey, x = rng.choice(seeds)
                    tgt = [t for t in self.usable(w.sides[rkey]['ent']) if not (sym and t == x)]
                    if tgt:
                        self.queued_ops = [{'k': 'seed_handle', 'o': y, 'key': list(ykey), 'x': x, 'noreads': True},
                                           {'k': 'set_scalar', 'o': x, 'a': sc['name'], 'v': val, 'noreads': True}, link_ops(x, tgt)] + tail
                        self.count('gen:partial-row-move:seed')
                        return {'k': 'end_ok', 'noreads': True, 'rs': rs}
                cr = self.gen_create(rs, e=e)
                req_refs = {w.sides[k2]['name'] for k2 in w.ent_rel[e] if w.sides[k2]['req']}
                cr['scalars'] = {n: v for n, v in cr['scalars'].items() if any(s['name'] == n and s['req'] for s in w.schema['ents'][e]['scalars'])}
                cr['refs'] = {n: v for n, v in cr['refs'].items() if n in req_refs}
                cr['colls'] = {}; cr['noreads'] = True
                new = cr['oid']
                tgt = [t for t in self.usable(w.sides[rkey]['ent'])]
                if tgt and all(n in cr['refs'] for n in req_refs):
                    steps = [{'k': 'set_scalar', 'o': new, 'a': sc['name'], 'v': val, 'noreads': True}, link_ops(new, tgt)]
                    if rng.random() < 0.2: steps.reverse()
                    self.queued_ops = [{'k': rng.choice(['flush', 'commit']), 'noreads': True}] + steps + tail
                    self.count('gen:partial-row-move:created')
                    return cr
        # to_dict of an owner after uncommitted creates / updates / deletes of RELATED objects, with the owner's collection / one-to-one
        # attribute loaded (a first to_dict loads it) or not (fresh session): no read phase in between, so nothing else flushes
        if 0.32 <= r < 0.37 and live:
            cands = [(oid, key) for oid in live for key in w.ent_rel[sh.objs[oid]['ent']] if sh.objs[oid]['pk'] is not None or oid in self.h]
            if cands:
                oid, key = rng.choice(cands); side = w.sides[key]; rkey = w.rev(key); rside = w.sides[rkey]
                seq = []
                if rng.random() < 0.3: seq.append({'k': 'end_ok', 'noreads': True})
                else: seq.append({'k': 'to_dict', 'o': oid, 'withc': True, 'noreads': True})
                c = rng.random()
                cur = sorted(x for x in sh.partners(oid, key) if x in self.usable())
                if c < 0.55 or not cur:
                    cr = self.gen_create(rs, e=rside['ent'])
                    cr['colls'] = {}; cr['noreads'] = True
                    if not rside['coll'] and rng.random() < 0.6:
                        cr['refs'] = dict(cr['refs'], **{rside['name']: oid}); seq.append(cr)
                    else:
                        cr['refs'] = {n: v for n, v in cr['refs'].items() if n != rside['name']}
                        seq.append(cr)
                        if side['coll']: seq.append({'k': 'coll_add', 'o': oid, 'key': list(key), 'items': [cr['oid']], 'via': rng.choice(['list', 'single', 'op']), 'noreads': True})
                        else: seq.append({'k': 'set_ref', 'o': oid, 'key': list(key), 'v': cr['oid'], 'noreads': True})
                elif c < 0.8: seq.append({'k': 'delete', 'o': rng.choice(cur), 'noreads': True})
                else:
                    x = rng.choice(cur); sc = rng.choice(w.schema['ents'][sh.objs[x]['ent']]['scalars'])
                    seq.append({'k': 'set_scalar', 'o': x, 'a': sc['name'], 'v': rng.choice([0, 1, 2, 3]), 'noreads': True})
                seq.append({'k': 'to_dict', 'o': oid, 'withc': rng.random() < 0.75, 'noreads': True})
                self.queued_ops = seq[1:]
                self.count('gen:to_dict-after-related-change')
                return dict(seq[0], rs=rs)
        # a call that FAILS and is undone after pending (unflushed) collection changes, then the program goes on and commits: a refused
        # delete (a Required reference without cascade points at the object: ConstraintError after the collections were already cleared
        # as nested calls), Entity.set(coll=[..], u0=<value another cached object holds>) failing midway (CacheIndexError), a constructor
        # with collection keywords failing the same way.  The undo has to restore items, count, added AND removed of every collection
        # it touched: the committed link rows are what both ends showed in the session at commit
        if 0.22 <= r < 0.32 and live:
            cands = []
            def refused_delete(a):
                return any(not w.sides[w.rev(k)]['coll'] and w.sides[w.rev(k)]['req'] and not w.sides[k]['casc'] and sh.partners(a, k)
                           for k in w.ent_rel[sh.objs[a]['ent']])
            def key_holders(a):
                e_ = sh.objs[a]['ent']
                if not any(sc['unique'] for sc in w.schema['ents'][e_]['scalars']): return []
                return [b for b in sh.live(e_) if b != a and b in self.h and sh.objs[b]['vals'].get('u0') is not None]
            # (D) the refused delete, constructed: an object with a collection of two or three committed items and a blocker (an object whose
            #     Required reference points at it, no cascade); one item is removed (pending), the delete is refused after it has cleared
            #     the collection as a nested call, then commit
            dc = []
            for a in live:
                oa = sh.objs[a]
                if oa['pk'] is None: continue
                for k in w.ent_rel[oa['ent']]:
                    rk = w.rev(k)
                    if w.sides[rk]['coll'] or not w.sides[rk]['req'] or w.sides[k]['casc']: continue
                    for ckey in w.ent_rel[oa['ent']]:
                        if w.sides[ckey]['coll'] and ckey != k: dc.append((a, k, ckey))
            if dc and rng.random() < 0.6:
                a, k, ckey = rng.choice(dc); rk = w.rev(k); rkey = w.rev(ckey)
                tg = [x for x in self.usable(w.sides[rkey]['ent']) if not (w.schema['rels'][ckey[0]]['sym'] and x == a)]
                if len(tg) >= 2:
                    seq = []
                    if not sh.partners(a, k):
                        cr = self.gen_create(rs, e=w.sides[rk]['ent'])
                        cr['refs'] = dict(cr['refs'], **{w.sides[rk]['name']: a}); cr['colls'] = {}; cr['noreads'] = True
                        seq.append(cr)
                    items = sorted(rng.sample(tg, min(len(tg), rng.choice([2, 2, 3]))))
                    seq.append({'k': 'coll_set', 'o': a, 'key': list(ckey), 'items': items, 'via': 'list', 'noreads': True})
                    seq.append({'k': 'commit', 'noreads': True})
                    seq.append({'k': 'coll_remove', 'o': a, 'key': list(ckey), 'items': [rng.choice(items)], 'via': rng.choice(['list', 'single', 'op']), 'noreads': True})
                    rest = [x for x in tg if x not in items]
                    if rest and rng.random() < 0.4: seq.append({'k': 'coll_add', 'o': a, 'key': list(ckey), 'items': [rng.choice(rest)], 'via': 'single', 'noreads': True})
                    seq.append({'k': 'delete', 'o': a, 'noreads': True})
                    if rng.random() < 0.9: seq.append({'k': rng.choice(['commit', 'commit', 'end_ok', 'flush']), 'noreads': True})
                    self.queued_ops = seq[1:]
                    self.count('gen:refused-delete-after-pending-collection-change')
                    return dict(seq[0], rs=rs)
            for a in live:
                oa = sh.objs[a]
                if oa['pk'] is None or a not in self.committed.objs or not self.committed.objs[a]['alive']: continue
                if not (refused_delete(a) or key_holders(a)): continue          # a failing call must be available
                for ckey in w.ent_rel[oa['ent']]:
                    if w.sides[ckey]['coll']: cands.append((a, ckey))
            if cands:
                a, ckey = rng.choice(cands); oa = sh.objs[a]; e = oa['ent']; rkey = w.rev(ckey)
                sym = w.schema['rels'][ckey[0]]['sym']
                cur = sorted(x for x in sh.partners(a, ckey) if x in self.usable())
                tgt = [x for x in self.usable(w.sides[rkey]['ent']) if x not in cur and not (sym and x == a)]
                pending = []
                for _ in range(rng.choice([1, 1, 2])):
                    if cur and rng.random() < 0.65: pending.append({'k': 'coll_remove', 'o': a, 'key': list(ckey), 'items': [rng.choice(cur)], 'via': rng.choice(['list', 'single', 'op']), 'noreads': True})
                    elif tgt: pending.append({'k': 'coll_add', 'o': a, 'key': list(ckey), 'items': [rng.choice(tgt)], 'via': rng.choice(['list', 'single', 'op']), 'noreads': True})
                fails = []
                # (1) delete refused
                for k in w.ent_rel[e]:
                    rk = w.rev(k)
                    if not w.sides[rk]['coll'] and w.sides[rk]['req'] and not w.sides[k]['casc'] and sh.partners(a, k):
                        fails.append({'k': 'delete', 'o': a, 'noreads': True}); break
                # (2) Entity.set with a collection keyword and a unique value that another object of the cache holds
                ed = w.schema['ents'][e]
                holders = [b for b in sh.live(e) if b != a and b in self.h and ed['scalars'] and any(sc['unique'] for sc in ed['scalars'])
                           and sh.objs[b]['vals'].get('u0') is not None]
                if holders:
                    b = rng.choice(holders)
                    items = sorted(set(rng.sample(cur, min(len(cur), rng.choice([0, 1]))) + ([rng.choice(tgt)] if tgt and rng.random() < 0.6 else [])))
                    fails.append({'k': 'set_many', 'o': a, 'key': list(ckey), 'items': items, 'a': 'u0', 'v': sh.objs[b]['vals']['u0'],
                                  'first': rng.choice(['coll', 'scalar']), 'noreads': True})
                    # (3) a constructor with the same two keywords
                    cr = self.gen_create(rs, e=e)
                    cname = w.sides[ckey]['name']
                    cr['colls'] = {cname: sorted(set(([rng.choice(cur)] if cur else []) + ([rng.choice(tgt)] if tgt else [])))} if (cur or tgt) else {}
                    cr['scalars'] = dict(cr['scalars'], u0=sh.objs[b]['vals']['u0']); cr['noreads'] = True
                    if cr['colls']: fails.append(cr)
                if pending and fails:
                    f = rng.choice(fails)
                    more = []
                    if rng.random() < 0.4 and (cur or tgt):
                        more.append({'k': 'coll_add' if tgt and rng.random() < 0.5 else 'coll_remove', 'o': a, 'key': list(ckey),
                                     'items': [rng.choice(tgt)] if tgt and rng.random() < 0.5 else [rng.choice(cur or tgt)], 'via': 'list', 'noreads': True})
                    tail = [{'k': rng.choice(['commit', 'commit', 'end_ok', 'flush']), 'noreads': True}] if rng.random() < 0.9 else []
                    self.queued_ops = pending[1:] + [f] + more + tail
                    self.count('gen:failing-call-after-pending-collection-change:' + f['k'])
                    return dict(pending[0], rs=rs)
        # follow-up: another call on the collection touched last, re-using the items of that call (interplay of pending additions / removals)
        lc = getattr(self, 'last_coll_gen', None)
        if lc is not None and rng.random() < 0.3 and lc[0] in live:
            oid, key, its = lc
            tgt = self.usable(w.sides[w.rev(key)]['ent'])
            if w.schema['rels'][key[0]]['sym']: tgt = [x for x in tgt if x != oid]
            pool = [x for x in its if x in tgt] + sorted(x for x in sh.partners(oid, key) if x in tgt)
            if pool and tgt:
                k = rng.choice(['add', 'remove', 'remove', 'set', 'set'])
                items = sorted(set(rng.choice(pool) if rng.random() < 0.75 else rng.choice(tgt) for _ in range(rng.choice([1, 2, 3]))))
                op = {'k': 'coll_' + k, 'o': oid, 'key': list(key), 'items': items, 'via': rng.choice(['list', 'single', 'op']), 'rs': rs}
                self.last_coll_gen = (oid, key, sorted(set(its) | set(items)))
                return op
        if r < 0.24 or not live:
            return self.gen_create(rs)
        if r < 0.36:
            oid = rng.choice(live); e = sh.objs[oid]['ent']
            s = rng.choice(w.schema['ents'][e]['scalars'])
            v = rng.choice([None, 0, 1, 2, 3, 4, 5]) if not s['req'] else rng.choice([0, 1, 2, 3])
            return {'k': 'set_scalar', 'o': oid, 'a': s['name'], 'v': v, 'rs': rs}
        if r < 0.72:
            cands = [oid for oid in live if w.ent_rel[sh.objs[oid]['ent']]]
            if cands:
                oid = rng.choice(cands); e = sh.objs[oid]['ent']
                key = rng.choice(w.ent_rel[e]); side = w.sides[key]
                tgt = [x for x in self.usable(w.sides[w.rev(key)]['ent'])]
                if not side['coll']:
                    if w.schema['rels'][key[0]]['sym']: tgt = [x for x in tgt if x != oid]
                    if rng.random() < 0.3 or not tgt: return {'k': 'set_ref', 'o': oid, 'key': list(key), 'v': None, 'rs': rs}
                    return {'k': 'set_ref', 'o': oid, 'key': list(key), 'v': rng.choice(tgt), 'rs': rs}
                # a symmetric collection may hold its own owner (both ends of the link are the SAME SetData): in a third of the calls it is a candidate
                if w.schema['rels'][key[0]]['sym'] and rng.random() < 0.67: tgt = [x for x in tgt if x != oid]
                elif w.schema['rels'][key[0]]['sym']: tgt = tgt + [oid] * 2 if oid in tgt else tgt; self.count('gen:symmetric-owner-as-candidate')
                cur = sorted(x for x in sh.partners(oid, key) if x in tgt)
                k = rng.choice(['add', 'add', 'add', 'remove', 'remove', 'remove', 'set', 'clear'])
                if k == 'clear': return {'k': 'coll_clear', 'o': oid, 'key': list(key), 'rs': rs}
                items = []
                for _ in range(rng.choice([1, 1, 1, 2, 2, 3])):
                    if k == 'remove' and cur and rng.random() < 0.85: x = rng.choice(cur)
                    elif k == 'set' and cur and rng.random() < 0.4: x = rng.choice(cur)
                    elif tgt: x = rng.choice(tgt)
                    else: continue
                    if x not in items: items.append(x)
                self.last_coll_gen = (oid, key, sorted(items))
                return {'k': 'coll_' + k, 'o': oid, 'key': list(key), 'items': sorted(items),
                        'via': rng.choice(['list', 'list', 'single', 'op']), 'rs': rs}
        if r < 0.80: return {'k': 'delete', 'o': rng.choice(live), 'rs': rs}
        if r < 0.86: return {'k': 'flush', 'rs': rs}
        if r < 0.91: return {'k': 'commit', 'rs': rs}
        if r < 0.94: return {'k': 'rollback', 'rs': rs}
        if r < 0.98: return {'k': 'end_ok', 'rs': rs}
        return {'k': 'end_err', 'rs': rs}

    def gen_create(self, rs, e=None):
        rng = self.rng; w = self.w; sh = self.sh
        if e is None: e = rng.randrange(len(w.classes))
        ed = w.schema['ents'][e]
        if ed['pk'] == 'explicit':
            same = [o['pk'] for o in sh.objs.values() if o['ent'] == e and o['pk'] is not None]
            if same and rng.random() < 0.06: pk = rng.choice(same)          # a primary key that is, or was, in use
            else: pk = self.next_pk[e]; self.next_pk[e] += 1
        elif ed['pk'] == 'auto': pk = None
        else: pk = [self.next_pk[e] // 3, self.next_pk[e] % 3]; self.next_pk[e] += 1
        scal = {}
        for s in ed['scalars']:
            if s['req'] or rng.random() < 0.6:
                scal[s['name']] = rng.choice([0, 1, 2, 3, 4, 5]) if s['unique'] else rng.choice([0, 1, 2, 3])
        refs, colls = {}, {}
        for key in w.ent_rel[e]:
            side = w.sides[key]
            tgt = self.usable(w.sides[w.rev(key)]['ent'])
            if side['coll']:
                if tgt and rng.random() < 0.3:
                    colls[side['name']] = sorted(set(rng.choice(tgt) for _ in range(rng.choice([1, 1, 2]))))
            elif tgt and (side['req'] or rng.random() < 0.5):
                refs[side['name']] = rng.choice(tgt)
        op = {'k': 'create', 'oid': self.next_oid, 'e': e, 'pk': pk, 'scalars': scal, 'refs': refs, 'colls': colls, 'rs': rs}
        return op

    # ---------- one high-level call on the real code
    def real_call(self, op):
        w = self.w; k = op['k']
        if k == 'create':
            kw = dict(op['scalars'])
            ed = w.schema['ents'][op['e']]
            if ed['pk'] == 'explicit': kw['id'] = op['pk']
            elif ed['pk'] == 'composite': kw['p1'], kw['p2'] = op['pk']
            for n, x in op['refs'].items(): kw[n] = self.resolve(x)
            for n, xs in op['colls'].items(): kw[n] = [self.resolve(x) for x in xs]
            if self.stop: return 'skipped'
            self.h[op['oid']] = w.classes[op['e']](**kw)
            return None
        obj = self.resolve(op['o'])
        if obj is None or self.stop: return 'skipped'
        if k == 'delete': obj.delete(); return None
        if k == 'set_scalar': setattr(obj, op['a'], op['v']); return None
        key = tuple(op['key']); name = w.sides[key]['name']
        if k == 'set_many':
            items = [self.resolve(x) for x in op['items']]
            if any(x is None for x in items) or self.stop: return 'skipped'
            kw = [(name, items), (op['a'], op['v'])]
            if op.get('first') == 'scalar': kw.reverse()
            obj.set(**dict(kw)); return None
        if k == 'seed_handle':
            # the program reaches an object through a reference of another one: the object is known by its key only (a seed), its row is not loaded
            x = getattr(obj, name)
            if x is not None and op['x'] not in self.h and self.sh.objs[op['x']]['pk'] is not None \
                    and norm_pk(x._pkval_) == norm_pk(self.sh.objs[op['x']]['pk']) and self.w.classes.index(type(x)) == self.sh.objs[op['x']]['ent']:
                self.h[op['x']] = x
                self.count('seed-handle:' + ('seed' if x in self.cache().seeds[x._pk_attrs_] else 'loaded'))
            return None
        if k == 'set_ref':
            v = None if op['v'] is None else self.resolve(op['v'])
            if op['v'] is not None and v is None: return 'skipped'
            setattr(obj, name, v); return None
        if k == 'coll_clear': getattr(obj, name).clear(); return None
        items = [self.resolve(x) for x in op['items']]
        if any(x is None for x in items) or self.stop: return 'skipped'
        via = op.get('via', 'list'); c = getattr(obj, name)
        if k == 'coll_add':
            if via == 'single' and len(items) == 1: c.add(items[0])
            elif via == 'op': setattr(obj, name, c.__iadd__(items))
            else: c.add(items)
        elif k == 'coll_remove':
            if via == 'single' and len(items) == 1: c.remove(items[0])
            elif via == 'op': setattr(obj, name, c.__isub__(items))
            else: c.remove(items)
        elif k == 'coll_set': setattr(obj, name, items)
        return None

    def shadow_call(self, op):
        sh = self.sh; k = op['k']
        if k == 'create':
            pk = tuple(op['pk']) if isinstance(op['pk'], list) else op['pk']
            sh.create(op['oid'], op['e'], pk, op['scalars'], op['refs'], op['colls'])
        elif k == 'delete': sh.delete(op['o'])
        elif k == 'set_scalar': sh.set_scalar(op['o'], op['a'], op['v'])
        elif k == 'set_ref': sh.set_ref(op['o'], tuple(op['key']), op['v'])
        elif k == 'coll_add': sh.coll_add(op['o'], tuple(op['key']), op['items'])
        elif k == 'coll_remove': sh.coll_remove(op['o'], tuple(op['key']), op['items'])
        elif k == 'coll_set': sh.coll_set(op['o'], tuple(op['key']), op['items'])
        elif k == 'coll_clear': sh.coll_set(op['o'], tuple(op['key']), [])
        elif k == 'set_many':
            sh.coll_set(op['o'], tuple(op['key']), op['items']); sh.set_scalar(op['o'], op['a'], op['v'])

    def refs_ok(self, op):
        """the recorded call still makes sense in the current state (replays of shrunk histories skip the others)"""
        sh = self.sh
        def ok(x): return x in sh.objs and sh.objs[x]['alive'] and (x in self.h or sh.objs[x]['pk'] is not None)
        k = op['k']
        if k == 'create':
            return op['oid'] not in sh.objs and all(ok(x) for x in op['refs'].values()) and all(ok(x) for xs in op['colls'].values() for x in xs)
        if 'o' in op and not ok(op['o']): return False
        if k in ('coll_in', 'seed_handle') and not ok(op['x']): return False
        if k == 'set_ref' and op['v'] is not None and not ok(op['v']): return False
        if 'items' in op and not all(ok(x) for x in op['items']): return False
        return True

    def step(self, op):
        """execute one high-level op on real + shadow (+ model ops); run the oracles"""
        k = op['k']
        import random as _r
        self.rrng = _r.Random(op.get('rs', 0))
        if not self.in_session: self.enter()
        self.cur_noreads = bool(op.get('noreads'))
        if k in ('flush', 'commit', 'rollback', 'end_ok', 'end_err'):
            self.ops.append(op); self.count('op:' + k)
            return self.boundary(k)
        if not self.refs_ok(op): self.count('op-skipped'); return
        if k == 'create': self.next_oid = max(self.next_oid, op['oid'] + 1)
        self.ops.append(op)
        if k == 'coll_in': return self.membership_test(op)
        if k == 'to_dict': return self.to_dict_test(op)
        before = self.sh.clone()
        mark = self.mark()
        c0 = self.cache()
        try: err = self.real_call(op)
        except Exception as e:
            err = type(e).__name__
            if k == 'create': self.h.pop(op['oid'], None)
        self.count('op:%s:%s' % (k, err or 'ok'))
        if self.stop: return
        if err == 'skipped': return
        if (c0 is not None and not c0.is_alive) or err in FLUSH_ERRORS:
            # an implicit flush inside the call (re-fetching an operand) failed loudly: the program ends the session with the error
            self.count('call-ended-session:%s:%s' % (k, err))
            self.after_abort('error:' + str(err)); self.model_abandon('call ended the session')
            return
        if err is None:
            try: self.shadow_call(op)
            except ShadowError as e:
                self.count('shadow-refuses-accepted-call:%s' % e); self.stop = True; return
            self.learn_pks()
            dup = k == 'create' and any(oid2 != op['oid'] and o2['alive'] and o2['ent'] == op['e'] and o2['pk'] is not None
                                        and o2['pk'] == self.sh.objs[op['oid']]['pk'] for oid2, o2 in self.sh.objs.items())
            if self.w.fragment and not self.abandoned:
                forced = set()
                if k in ('set_scalar', 'set_many'): forced.add((op['o'], op['a']))
                if k == 'set_ref' and self.w.sides[tuple(op['key'])]['has_col']: forced.add((op['o'], self.w.sides[tuple(op['key'])]['name']))
                if self.autoflushed(mark): self.mop({'k': 'flush'}, check=False)
                self.sync_seeds(exclude={tuple(self.key_of(op['oid']))} if k == 'create' else ())
                fl = []
                if k in ('coll_add', 'coll_remove') and tuple(op['key'])[0] in self.w.m2m and not self.w.schema['rels'][op['key'][0]]['sym']:
                    key_ = tuple(op['key'])
                    for it in op['items']:
                        if it not in self.sh.objs or not self.sh.objs[it]['alive'] or not self.sh.objs[op['o']]['alive']: continue
                        a_, b_ = (op['o'], it) if not key_[1] else (it, op['o'])
                        ka = (self.sh.objs[a_]['ent'], self.sh.objs[a_]['pk']); kb = (self.sh.objs[b_]['ent'], self.sh.objs[b_]['pk'])
                        fl.append(('link' if k == 'coll_add' else 'unlink', (key_[0], ka, kb)))
                mops = self.expand(before, self.sh, forced, fl)
                for i, m in enumerate(mops):
                    self.model_ops.append(m); self.model_checks.append(None); self.count('model-op:' + m['k'])
                if mops and not dup: self.model_checks[-1] = self.snapshot()      # (an ill-formed duplicate-key create is judged by the flush that follows)
                self.prev_index = self.real_indexed()
            if dup:
                # ill-formed program: a second object under a primary key the program still holds (the first one is not in
                # the cache, so the constructor could not refuse).  The only acceptable continuation is a loud failure of the flush.
                self.count('duplicate-primary-key-accepted-by-constructor')
                self.boundary('flush', expect_error=True)
                return
        else:
            # a refused call changes nothing (C13): the shadow is not told; the model gets no operation
            if self.w.fragment and not self.abandoned:
                if self.autoflushed(mark): self.mop({'k': 'flush'}, check=False)
                self.sync_seeds()
        self.last_coll_op = (op.get('o'), tuple(op['key']) if 'key' in op else None, k) if k.startswith('coll_') else getattr(self, 'last_coll_op', None)
        if k.startswith('coll_'): self.coll_hist.setdefault((op['o'], tuple(op['key'])), []).append(k)
        if self.do_reads and not op.get('noreads') and self.rrng.random() < 0.4: self.reads()

    def to_dict_check(self, oid, obj, withc, rng, rd):
        """obj.to_dict(..) in one of its variants (with_collections / related_objects / only / exclude): the result must be the one the
        same call gives after an explicit flush() - to_dict promises to see the session's pending changes, also those of RELATED objects
        (a new related object with a generated key has its key, not None) - and that must be what the program has (shadow)"""
        w = self.w; sh = self.sh; e = sh.objs[oid]['ent']; ed2 = w.schema['ents'][e]
        collnames = {w.sides[k3]['name'] for k3 in w.ent_rel[e] if w.sides[k3]['coll']}
        refnames = {w.sides[k3]['name'] for k3 in w.ent_rel[e] if not w.sides[k3]['coll']}
        names = (['p1', 'p2'] if ed2['pk'] == 'composite' else ['id']) + [s_['name'] for s_ in ed2['scalars']] + sorted(refnames) + (sorted(collnames) if withc else [])
        related = rng.random() < 0.3
        kw = {'with_collections': withc}
        if related: kw['related_objects'] = True
        sel = rng.random()
        if sel < 0.2: kw['only'] = sorted(rng.sample(names, rng.randrange(1, len(names) + 1)))
        elif sel < 0.4: kw['exclude'] = sorted(rng.sample(names, rng.randrange(0, len(names))))
        keep = [n for n in names if (n in kw['only'] if 'only' in kw else n not in kw.get('exclude', ()))]
        def pk_now(x):
            # the key of a related object AS IT IS NOW (None for an object that has not been inserted yet)
            return x._pkval_ if isinstance(x, core.Entity) else x
        def norm(d):
            out = {}
            for k2, v2 in d.items():
                if k2 in collnames: out[k2] = sorted(repr(pk_now(x)) for x in v2)
                elif k2 in refnames: out[k2] = pk_now(v2)
                else: out[k2] = v2
            return out
        def expd():
            o = sh.objs[oid]; d = {}
            if ed2['pk'] == 'composite': d['p1'], d['p2'] = o['pk']
            else: d['id'] = o['pk']
            for s_ in ed2['scalars']: d[s_['name']] = o['vals'][s_['name']]
            for key in w.ent_rel[e]:
                side = w.sides[key]
                if side['coll']:
                    if withc: d[side['name']] = sorted(repr(sh.objs[y]['pk']) for y in sh.partners(oid, key))
                else:
                    v = o['vals'][side['name']]
                    d[side['name']] = None if v is None else sh.objs[v]['pk']
            return {k2: v2 for k2, v2 in d.items() if k2 in keep}
        def call():
            first = norm(obj.to_dict(**kw))
            flush()                                   # explicit: now every pending change of every object is in the database
            again = norm(obj.to_dict(**kw))
            self.learn_pks()
            exp = expd()
            if first == again == exp: return True
            return {'to_dict': first, 'after-flush': again, 'program-has': exp, 'kwargs': {k2: v2 for k2, v2 in kw.items()}}
        variant = ('-collections' if withc else '') + ('-related' if related else '') + ('-only' if 'only' in kw else '-exclude' if 'exclude' in kw else '')
        self.count('to_dict-variant:' + (variant or '-plain'))
        rd('to_dict' + ('-collections' if withc else ''), 'object', call, True)

    def to_dict_test(self, op):
        """`obj.to_dict(..)` as a call of its own (no read phase around it)"""
        import random as _r
        obj = self.resolve(op['o'])
        if obj is None or self.stop: return
        self.count('op:to_dict')
        self.to_dict_check(op['o'], obj, bool(op.get('withc')), _r.Random(op.get('rs', 0)), self.rd)

    def membership_test(self, op):
        """`x in obj.coll` as a call of its own (no read phase around it); for a many-to-many collection of an in-fragment schema also
        the session model's `hasLink`"""
        w = self.w; key = tuple(op['key']); name = w.sides[key]['name']; kind = w.relkind(key)
        obj = self.resolve(op['o'])
        xo = self.resolve(op['x']) if obj is not None and not self.stop else None
        if obj is None or xo is None or self.stop: return
        exp = op['x'] in self.sh.partners(op['o'], key)
        self.count('op:coll_in:%s:%s' % (kind, exp))
        hist = self.coll_hist.get((op['o'], key), [])
        n0 = len(self.findings)
        got = {}
        def fn():
            got['v'] = xo in getattr(obj, name)
            return got['v']
        self.rd('coll-in', kind + (':after-add' if 'coll_add' in hist else ''), fn, exp)
        if self.w.fragment and not self.abandoned and 'v' in got and key[0] in w.m2m and not w.schema['rels'][key[0]]['sym'] and not self.stop:
            a_, b_ = (op['o'], op['x']) if not key[1] else (op['x'], op['o'])
            self.model_ops.append({'k': 'hasLink', 'l': [key[0], self.key_of(a_), self.key_of(b_)]})
            snap = self.snapshot(); snap['expect_out'] = bool(got['v'])
            self.model_checks.append(snap)
            self.prev_index = self.real_indexed()

    abandoned = False
    def model_abandon(self, why):
        if not self.abandoned: self.count('model-tracking-abandoned:' + why)
        self.abandoned = True

    def autoflushed(self, mark):
        return any(INS.match(s) or INS_DEFAULT.match(s) or UPD.match(s) or DELS.match(s) for s, _ in self.w.log[mark:])

    # ---------- flush / commit / rollback / end of session + the C09 oracle
    def boundary(self, k, expect_error=False):
        mark = self.mark()
        err = None
        try:
            if k == 'flush': flush()
            elif k == 'commit': commit()
            elif k == 'rollback': rollback()
            elif k == 'end_ok': err = self.leave(False)
            elif k == 'end_err': err = self.leave(True)
        except Exception as e:
            err = type(e).__name__
        self.count('boundary:%s:%s' % (k, err or 'ok'))
        if expect_error and err is None:
            return self.finding('C09', 'duplicate-primary-key-flushed-silently', 'two objects with the same primary key were flushed without an error',
                                observed='flush() returned', expected='TransactionIntegrityError')
        if err == 'UnresolvableCyclicDependency': self.model_abandon('reference cycle among new objects (subject of C16)')
        mk = {'flush': 'flush', 'commit': 'commit', 'rollback': 'rollback', 'end_ok': 'endOk', 'end_err': 'endErr'}[k]
        if err is not None and k in ('flush',):
            # the exception propagates out of the db_session
            if self.in_session: self.leave(True)
        if err is not None and k in ('commit',):
            pass    # commit() has rolled back and closed the cache itself
        stm = self.dml_since(mark)
        if err is None and k in ('flush', 'commit', 'end_ok'): self.learn_pks()
        if k in ('commit', 'end_ok') and err is None:
            self.committed = self.sh.clone()
            self.check_db('commit')
        elif k in ('rollback', 'end_err') or err is not None:
            self.sh = self.committed.clone()
            self.check_db('rollback' if err is None else 'failed-' + k)
        if k in ('rollback', 'end_ok', 'end_err') or err is not None:
            self.h = {}; self.prev_index = set()
        if self.w.fragment and not self.abandoned:
            self.model_ops.append({'k': mk})
            if not self.in_session: self.enter()
            snap = self.snapshot()
            snap['expect_out'] = 'ok' if err is None else 'dbError'
            snap['err_name'] = err
            snap['stmts'] = stm
            snap['committed'] = self.w.read_db()
            self.model_checks.append(snap)
            self.prev_index = self.real_indexed()
        if not self.in_session: self.enter()
        if self.do_reads and not self.stop and not getattr(self, 'cur_noreads', False) and self.rrng.random() < 0.4: self.reads()

    epoch = 0
    def after_abort(self, why):
        if self.in_session:
            try: self.leave(True)
            except Exception: pass
        self.sh = self.committed.clone()
        self.h = {}; self.prev_index = set()
        self.epoch += 1
        self.check_db(why)
        if not self.stop: self.enter()

    def check_db(self, event):
        """C09 oracle: the database file as a second connection sees it == the shadow's committed state"""
        exp = self.committed.logical()
        got = self.w.read_db()
        if exp is None:
            self.count('c09-oracle:skipped-unknown-pk'); return
        self.count('c09-oracle:' + event.split(':')[0])
        w = self.w
        for e in range(len(w.classes)):
            ge, ee = got['rows'][e], exp['rows'][e]
            for pk in ee:
                if pk not in ge:
                    return self.finding('C09', '%s:row-missing:%s' % (event.split(':')[0], w.schema['ents'][e]['pk']), 'an object the program committed is not in the database',
                                        observed={'entity': e, 'rows': sorted(map(repr, ge))}, expected={'pk': norm_pk(pk), 'vals': ee[pk]})
            for pk in ge:
                if pk not in ee:
                    return self.finding('C09', '%s:row-extra:%s' % (event.split(':')[0], w.schema['ents'][e]['pk']), 'the database holds an object the program does not have at this commit',
                                        observed={'entity': e, 'pk': norm_pk(pk), 'vals': ge[pk]}, expected='no such row')
            for pk in ee:
                for cs in w.cols[e]:
                    if ge[pk][cs['name']] != ee[pk][cs['name']]:
                        kind = cs['kind'] if cs['kind'] == 'scalar' else w.relkind(cs['key'])
                        return self.finding('C09', '%s:value:%s' % (event.split(':')[0], kind), 'an attribute value in the database differs from what the program committed',
                                            observed={'entity': e, 'pk': norm_pk(pk), 'attr': cs['name'], 'db': ge[pk][cs['name']]}, expected=ee[pk][cs['name']])
        for i in w.m2m:
            if got['links'][i] != exp['links'][i]:
                miss = exp['links'][i] - got['links'][i]; extra = got['links'][i] - exp['links'][i]
                return self.finding('C09', '%s:%s:%s' % (event.split(':')[0], 'link-missing' if miss else 'link-extra', w.schema['rels'][i]['kind']),
                                    'the link rows in the database differ from the links the program committed',
                                    observed=sorted(map(repr, got['links'][i])), expected=sorted(map(repr, exp['links'][i])))

    # ---------- the C10 oracle: every read form against the shadow
    def rd(self, form, ctxkey, fn, expected, norm=None, params=(), load_key=None):
        """evaluate one read on the real session; compare with the shadow's answer"""
        if self.stop: return
        c = self.cache()
        c0 = c
        mod = bool(c is not None and c.is_alive and c.modified)
        mark = self.mark()
        new_param = any(p is not None and p._pkval_ is None for p in params)
        try:
            got = fn()
            if norm: got = norm(got)
        except (ObjectNotFound, MultipleObjectsFoundError) as e:
            got = type(e).__name__
        except Exception as e:
            got = 'raised:' + type(e).__name__
        self.count('read:' + form)
        if (c0 is not None and not c0.is_alive) or (mod and isinstance(got, str) and got.startswith('raised:') and got[7:] in FLUSH_ERRORS):
            # the read ran an implicit flush that failed loudly: the program ends the session with the error
            self.count('read-ended-session:%s:%s' % (form, got))
            self.after_abort('error:' + str(got)); self.model_abandon('read ended the session')
            return
        if self.w.fragment and not self.abandoned:
            if load_key is not None and not (isinstance(got, str) and got.startswith('raised:')):
                # E[pk] is the model's `load`: cache first, else implicit flush + SELECT
                self.note_load(load_key[0], load_key[1], got != 'ObjectNotFound', None)
            else:
                c1 = self.cache()
                if mod and (self.autoflushed(mark) or (c1 is not None and not c1.modified)):
                    self.count('autoflush-by:' + form)
                    self.mop({'k': 'flush'}, check=False)
                self.sync_seeds()
        self.learn_pks()
        if got != expected:
            key = '%s:%s' % (form, ctxkey)
            if new_param: key = 'unflushed-object-as-query-parameter'
            if form == 'coll-iter' and getattr(self, '_dead_listed', False): key = 'deleted-object-listed-in-collection:' + ctxkey.split(':')[0]
            self.finding('C10', key, 'a read inside the session does not reflect what the session did',
                         observed={'form': form, 'got': got}, expected=expected)

    def reads(self):
        ep = self.epoch
        try: self.reads_(ep)
        except _EpochChanged: pass

    def reads_(self, ep):
        rng = self.rrng; w = self.w; sh = self.sh
        if self.stop: return
        rd0 = self.rd
        def rd(*a, **kw):
            rd0(*a, **kw)
            if self.epoch != ep: raise _EpochChanged()
        self_rd = rd
        def rs(x):
            r = self.resolve(x)
            if self.epoch != ep: raise _EpochChanged()
            return r
        live = self.usable()
        sample = rng.sample(live, min(len(live), 3)) if live else []
        # --- attribute access and collection forms
        for oid in sample:
            if self.stop: return
            obj = rs(oid)
            if obj is None or self.stop: continue
            o = sh.objs[oid]; e = o['ent']
            for s in w.schema['ents'][e]['scalars']:
                if rng.random() < 0.5: self_rd('attr', 'scalar', lambda: getattr(obj, s['name']), o['vals'][s['name']])
            for key in w.ent_rel[e]:
                side = w.sides[key]; name = side['name']; kind = w.relkind(key)
                if self.stop: return
                if not side['coll']:
                    if rng.random() < 0.6:
                        self_rd('attr', kind, lambda: self.oid_of(getattr(obj, name)), o['vals'][name])
                    continue
                exp = sorted(sh.partners(oid, key))
                hist = self.coll_hist.get((oid, key), [])
                ck = kind + (':after-remove' if 'coll_remove' in hist else '')
                forms = ['iter', 'len', 'count', 'is_empty', 'bool', 'contains', 'contains_not', 'select']
                rng.shuffle(forms)
                for f in forms[:rng.choice([2, 3, 4, 8])]:
                    if self.stop: return
                    coll = getattr(obj, name)
                    if f == 'iter':
                        def it_():
                            objs = list(coll)
                            self._dead_listed = any(x._status_ in DEL for x in objs)
                            return sorted(self.oid_of(x) for x in objs)
                        self._dead_listed = False
                        self_rd('coll-iter', ck, it_, exp)
                    elif f == 'len': self_rd('coll-len', ck, lambda: len(coll), len(exp))
                    elif f == 'count':
                        # root cause, read off the real SetData before the call: pending additions / removals that a flush has already written
                        sd = obj._vals_.get(w.relattr[key]) if obj._vals_ is not None else None
                        c = self.cache()
                        stale = (sd is not None and (sd.added or sd.removed) and kind in ('m2m', 'symm') and c is not None
                                 and obj not in (c.modified_collections.get(w.relattr[key]) or ()))
                        # count() asks the database without flushing and corrects the answer by the pending changes this collection knows of
                        dbbased = (sd is None or sd.count is None) and c is not None and bool(c.modified)
                        ck2 = 'm2m:pending-items-kept-after-flush' if stale else ('unflushed-change-unknown-to-the-collection' if dbbased else ck)
                        self_rd('coll-count', ck2, lambda: coll.count(), len(exp))
                    elif f == 'is_empty': self_rd('coll-is_empty', ck, lambda: coll.is_empty(), not exp)
                    elif f == 'bool': self_rd('coll-bool', ck, lambda: bool(coll), bool(exp))
                    elif f == 'select': self_rd('coll-select', ck, lambda: sorted(self.oid_of(x) for x in coll.select()[:]), exp, params=[obj])
                    else:
                        te = w.sides[w.rev(key)]['ent']
                        cands = [x for x in self.usable(te) if (x in exp) == (f == 'contains')]
                        if cands:
                            x = rng.choice(cands); xo = rs(x)
                            if xo is not None and not self.stop:
                                self_rd('coll-in', ck, lambda: xo in coll, f == 'contains')
        if self.stop: return
        # --- lookups by key and by keyword
        for _ in range(rng.choice([1, 2, 3])):
            if self.stop: return
            e = rng.randrange(len(w.classes)); cls = w.classes[e]; ed = w.schema['ents'][e]
            liv = sh.live(e)
            form = rng.choice(['getitem', 'get_pk', 'get_kw', 'exists_kw', 'get_unique', 'get_ckey', 'get_rel', 'select_all', 'select_kw',
                               'select_gen', 'select_lambda', 'count', 'sum', 'max', 'min', 'to_dict', 'to_dict_coll', 'helper',
                               'get_extra', 'get_extra', 'get_extra'])
            if w.has_hooks and rng.random() < 0.45: form = 'helper'
            if form == 'helper':
                # the application asks through the helpers the hooks use (same query keys): right after the flush the hooks ran in - the
                # flush may be the one this very read triggers - the answers are those of the database AFTER the flush
                kinds = list(HELPER_KINDS); rng.shuffle(kinds)
                big = sorted(oid for oid in liv if sh.objs[oid]['vals']['s0'] is not None and sh.objs[oid]['vals']['s0'] > 1)
                hk = 'with-hooks' if w.has_hooks else 'entity'
                for kind in kinds[:rng.choice([1, 2, 4])]:
                    if self.stop: return
                    if kind == 'count': self_rd('helper-count', hk, lambda: w.helper('count', e), len(liv))
                    elif kind == 'ids': self_rd('helper-ids', hk, lambda: sorted(self.oid_of(x) for x in w.helper('ids', e)), sorted(liv))
                    elif kind == 'big': self_rd('helper-big', hk, lambda: sorted(self.oid_of(x) for x in w.helper('big', e)), big)
                    else: self_rd('helper-exists', hk, lambda: w.helper('exists', e), bool(big))
                continue
            known = [o for o in sh.objs.values() if o['ent'] == e and o['pk'] is not None]
            if form in ('getitem', 'get_pk'):
                if not known: continue
                o = rng.choice(known); pk = o['pk']
                match = [oid for oid in liv if sh.objs[oid]['pk'] == pk]
                had = self.real_indexed()
                if form == 'getitem':
                    self_rd('getitem', ed['pk'], lambda: self.oid_of(cls[pk]), match[0] if match else 'ObjectNotFound', load_key=(e, pk))
                else:
                    kw = {'id': pk} if ed['pk'] != 'composite' else {'p1': pk[0], 'p2': pk[1]}
                    self_rd('get-pk', ed['pk'], lambda: self.oid_of(cls.get(**kw)), match[0] if match else None)
                continue
            if form in ('get_kw', 'exists_kw', 'select_kw', 'select_gen', 'select_lambda'):
                s = rng.choice(ed['scalars']); v = rng.choice([0, 1, 2, 3])
                match = sorted(oid for oid in liv if sh.objs[oid]['vals'][s['name']] == v)
                n = s['name']
                if form == 'get_kw':
                    self_rd('get-kw', 'scalar', lambda: self.oid_of(cls.get(**{n: v})),
                            'MultipleObjectsFoundError' if len(match) > 1 else (match[0] if match else None))
                elif form == 'exists_kw': self_rd('exists-kw', 'scalar', lambda: cls.exists(**{n: v}), bool(match))
                elif form == 'select_kw': self_rd('select-kw', 'scalar', lambda: sorted(self.oid_of(x) for x in cls.select(**{n: v})[:]), match)
                elif form == 'select_gen': self_rd('select-gen', 'scalar', lambda: sorted(self.oid_of(x) for x in select(x for x in cls if getattr(x, n) == v)[:]), match)
                else: self_rd('select-lambda', 'scalar', lambda: sorted(self.oid_of(x) for x in cls.select(lambda x: getattr(x, n) == v)[:]), match)
                continue
            if form == 'get_extra':
                # a lookup that the session cache can answer (anchor: primary key, unique attribute, composite key, or the one-to-one reverse
                # shortcut) with ADDITIONAL criteria on other attributes - the object's current value, another value, None, a reference,
                # a None reference - whatever the session did to those attributes, flushed or not: the answer is the database's after a flush
                if not known: continue
                o = rng.choice(known); ov = o['vals']
                oid0 = next(i for i, x in sh.objs.items() if x is o)
                anchors = ['pk']
                if any(s['unique'] for s in ed['scalars']) and ov['u0'] is not None: anchors.append('unique')
                if ed['ckey'] and ov['c0'] is not None and ov['c1'] is not None: anchors.append('ckey')
                o2o = [k for k in w.ent_rel[e] if not w.sides[k]['coll'] and w.sides[k]['has_col'] and not w.sides[w.rev(k)]['coll']
                       and ov[w.sides[k]['name']] is not None and ov[w.sides[k]['name']] in self.usable(w.sides[w.rev(k)]['ent'])]
                if o2o: anchors.append('o2o')
                anchor = rng.choice(anchors + [a for a in anchors if a != 'pk'] * 2)      # the rarer anchors are preferred when available
                crit = {}                      # attribute name -> shadow value (scalars: int / None; references: oid / None)
                if anchor == 'pk':
                    if ed['pk'] == 'composite': crit['p1'], crit['p2'] = o['pk']
                    else: crit['id'] = o['pk']
                elif anchor == 'unique': crit['u0'] = ov['u0']
                elif anchor == 'ckey': crit['c0'], crit['c1'] = ov['c0'], ov['c1']
                else:
                    k0 = rng.choice(o2o); crit[w.sides[k0]['name']] = ov[w.sides[k0]['name']]
                refnames = {w.sides[k]['name']: k for k in w.ent_rel[e] if not w.sides[k]['coll'] and w.sides[k]['has_col']}
                others = [s['name'] for s in ed['scalars'] if s['name'] not in crit] + [n for n in refnames if n not in crit]
                rng.shuffle(others)
                required = {s['name'] for s in ed['scalars'] if s['req']} | {n for n, k in refnames.items() if w.sides[k]['req']}
                for n in others[:rng.choice([1, 1, 2])]:
                    c = rng.random()
                    if c < 0.4: crit[n] = ov[n]
                    elif c < 0.7 and n not in required: crit[n] = None      # (None for a Required attribute is refused by validation: ValueError)
                    elif n in refnames:
                        tg = self.usable(w.sides[w.rev(refnames[n])]['ent'])
                        crit[n] = rng.choice(tg) if tg else None
                    else: crit[n] = rng.choice([0, 1, 2, 3, 4, 5])
                # (a deleted object's shadow has lost its references: never None for a Required attribute, by any branch - validation refuses it)
                crit = {n: v for n, v in crit.items() if not (v is None and n in required)}
                def val_of(oid, n):
                    x = sh.objs[oid]
                    if n == 'id': return x['pk']
                    if n in ('p1', 'p2'): return x['pk'][0 if n == 'p1' else 1] if x['pk'] is not None else None
                    return x['vals'][n]
                if any(n in ('id', 'p1', 'p2') and v is None for n, v in crit.items()): continue
                by_anchor = [i for i in liv if all(val_of(i, n) == crit[n] for n in list(crit)[:2 if anchor == 'ckey' or (anchor == 'pk' and ed['pk'] == 'composite') else 1])]
                if len(by_anchor) > 1: continue        # an undetected key clash is pending: either holder would do
                match = sorted(i for i in liv if all(val_of(i, n) == v for n, v in crit.items()))
                kw = {}; params = []; okp = True
                for n, v in crit.items():
                    if n in refnames and v is not None:
                        xo = rs(v)
                        if xo is None or self.stop: okp = False; break
                        kw[n] = xo; params.append(xo)
                    else: kw[n] = v
                if not okp: continue
                self.count('get-extra:' + anchor)
                exp = 'MultipleObjectsFoundError' if len(match) > 1 else (match[0] if match else None)
                if rng.random() < 0.6: self_rd('get-extra', anchor, lambda: self.oid_of(cls.get(**kw)), exp, params=params)
                else: self_rd('exists-extra', anchor, lambda: cls.exists(**kw), bool(match), params=params)
                continue
            if form == 'get_unique':
                if not any(s['unique'] for s in ed['scalars']): continue
                v = rng.choice([0, 1, 2, 3, 4, 5])
                match = sorted(oid for oid in liv if sh.objs[oid]['vals']['u0'] == v)
                if len(match) > 1: continue
                self_rd('get-unique', 'unique', lambda: self.oid_of(cls.get(u0=v)), match[0] if match else None)
                continue
            if form == 'get_ckey':
                if not ed['ckey']: continue
                v0, v1 = rng.choice([0, 1, 2, 3]), rng.choice([0, 1, 2, 3])
                match = sorted(oid for oid in liv if sh.objs[oid]['vals']['c0'] == v0 and sh.objs[oid]['vals']['c1'] == v1)
                if len(match) > 1: continue
                self_rd('get-composite-key', 'ckey', lambda: self.oid_of(cls.get(c0=v0, c1=v1)), match[0] if match else None)
                continue
            if form == 'get_rel':
                keys = [k for k in w.ent_rel[e] if not w.sides[k]['coll'] and w.sides[k]['has_col']]   # a side without a column: NotImplementedError
                if not keys: continue
                key = rng.choice(keys); name = w.sides[key]['name']
                tg = self.usable(w.sides[w.rev(key)]['ent'])
                if not tg: continue
                x = rng.choice(tg); xo = rs(x)
                if xo is None or self.stop: continue
                match = sorted(oid for oid in liv if sh.objs[oid]['vals'][name] == x)
                self_rd('get-rel', w.relkind(key), lambda: self.oid_of(cls.get(**{name: xo})),
                        'MultipleObjectsFoundError' if len(match) > 1 else (match[0] if match else None), params=[xo])
                continue
            if form == 'select_all':
                self_rd('select-all', 'entity', lambda: sorted(self.oid_of(x) for x in cls.select()[:]), sorted(liv)); continue
            vals = [sh.objs[oid]['vals']['s0'] for oid in liv if sh.objs[oid]['vals']['s0'] is not None]
            if form == 'count': self_rd('agg-count', 'entity', lambda: count(x for x in cls), len(liv))
            elif form == 'sum': self_rd('agg-sum', 'scalar', lambda: psum(x.s0 for x in cls), sum(vals))
            elif form == 'max': self_rd('agg-max', 'scalar', lambda: pmax(x.s0 for x in cls), max(vals) if vals else None)
            elif form == 'min': self_rd('agg-min', 'scalar', lambda: pmin(x.s0 for x in cls), min(vals) if vals else None)
            elif form in ('to_dict', 'to_dict_coll') and liv:
                us = [x for x in liv if x in self.usable(e)]
                if not us: continue
                oid = rng.choice(us); obj = rs(oid)
                if obj is None or self.stop: continue
                withc = form == 'to_dict_coll'
                self.to_dict_check(oid, obj, withc, rng, self_rd)
                if self.findings and self.findings[-1]['key'].startswith('to_dict') and 'd' in holder:
                    self.findings[-1]['observed'] = holder['d']; self.findings[-1]['expected'] = expd()

    coll_hist = None

    # ---------- run
    def run(self):
        self.coll_hist = {}
        try:
            self.enter()
            if self.given is not None:
                for op in self.given:
                    if self.stop: break
                    self.step(dict(op))
            else:
                for _ in range(self.nops):
                    if self.stop: break
                    self.step(self.gen_op())
            if not self.stop and self.in_session:
                self.ops.append({'k': 'end_ok', 'rs': 0}); self.boundary('end_ok')
        finally:
            try:
                if self.in_session: self.leave(True)
            except Exception: pass
            core.local.db_session = None; core.local.db_context_counter = 0
        return self

    def close(self):
        self.w.close()


def norm_pk(x):
    return list(x) if isinstance(x, tuple) else x


# ---------------------------------------------------------------- correspondence with the Lean model

def _jkey(k):
    return (k[0], k[1])


def _db_of_model(d):
    rows = {}
    for key, cells in d['rows']: rows[_jkey(key)] = [json.dumps(c, sort_keys=True) for c in cells]
    links = {(l[0], _jkey(l[1]), _jkey(l[2])) for l in d['links']}
    return rows, links


def _db_of_real(run, raw):
    """raw view (read_db) in the model's vocabulary"""
    w = run.w; rows = {}
    for e, d in raw['rows'].items():
        for pk, vals in d.items():
            cells = []
            for cs in w.cols[e]:
                v = vals[cs['name']]
                if v is not None and cs['kind'] == 'ref': v = {'ref': [cs['target'], v]}
                cells.append(json.dumps(v, sort_keys=True))
            rows[(e, pk)] = cells
    links = set()
    for i, s in raw['links'].items():
        ea = w.sides[(i, False)]['ent']; eb = w.sides[w.rev((i, False))]['ent']
        for x, y in s: links.add((i, (ea, x), (eb, y)))
    return rows, links


def _db_of_shadow(run, sh):
    w = run.w; rows = {}
    for oid, o in sh.objs.items():
        if o['alive']: rows[(o['ent'], o['pk'])] = [json.dumps(c, sort_keys=True) for c in run.cells_of(sh, oid)]
    return rows, run.links_of(sh)


def compare_model(run, ctx, out):
    """compare the recorded abstraction of the real session with the model's states; returns the first difference or None"""
    steps = out.get('steps')
    if steps is None: return {'what': 'driver error', 'model': out, 'impl': None, 'at': 0}
    if len(steps) != len(run.model_ops): return {'what': 'driver returned a different number of steps', 'model': len(steps), 'impl': len(run.model_ops), 'at': 0}
    wellformed = True
    prev = None
    for i, (mo, st, snap) in enumerate(zip(run.model_ops, steps, run.model_checks)):
        if not st.get('valid', True):
            ctx.count('model:create-under-a-key-in-use'); wellformed = False
        # which branch of the model did this operation take (read off the state change)
        k = mo['k']; out_ = st['out'] if isinstance(st['out'], str) else str(st['out'])
        if k in ('link', 'unlink') and prev is not None and out_ == 'ok':
            l = json.dumps(mo['l']); pa = {json.dumps(x) for x in prev['added']}; pr = {json.dumps(x) for x in prev['removed']}
            na = {json.dumps(x) for x in st['added']}; nr = {json.dumps(x) for x in st['removed']}
            if k == 'link': br = 'from-removed' if (l in pr and l not in nr) else ('new-pair' if (l in na and l not in pa) else 'already-member')
            else: br = 'from-added' if (l in pa and l not in na) else ('new-removal' if (l in nr and l not in pr) else 'not-member-or-already-removed')
            ctx.count('model-branch:%s:%s' % (k, br))
        elif k in ('create', 'set', 'delete', 'load', 'seed', 'link', 'unlink'): ctx.count('model-branch:%s:%s' % (k, out_.split(':')[0] if not out_.startswith('refused') else out_))
        if k == 'delete' and out_ == 'ok':
            for key_, status_, _, _ in st['cache']:
                if key_ == mo['key']: ctx.count('model-branch:delete->' + status_)
        if any(x is None for x in st['queue']): ctx.count('model-state:queue-with-holes')
        for w_ in st['writes']: ctx.count('model-write:' + w_[0])
        prev = st
        if snap is None: continue
        def diff(what, model, impl): return {'what': what, 'model': model, 'impl': impl, 'at': i, 'model_op': mo}
        if 'expect_out' in snap:
            mout = st['out']
            mout = 'dbError' if isinstance(mout, str) and mout.startswith('dbError') else mout
            if mout == 'ok' and snap['expect_out'] == 'dbError' and snap.get('err_name') in ('TransactionIntegrityError', 'IntegrityError') \
                    and any(e['ckey'] or any(sc['unique'] for sc in e['scalars']) for e in run.schema['ents']):
                # a unique / composite key clashed with a row that is not loaded: loud, and outside the model (keys are C14)
                ctx.count('tie:history-cut:unique-key-clash-at-flush'); return None
            if mout != snap['expect_out']: return diff('outcome of %s differs' % mo['k'], st['out'], snap['expect_out'])
            ctx.count('tie:outcome:%s:%s' % (mo['k'], mout))
        mc = {_jkey(k): {'status': s, 'vals': v, 'wbits': wb} for k, s, v, wb in st['cache']}
        indexed = {k for k, v in mc.items() if v['status'] not in ('deleted', 'cancelled')}
        rindexed = {k for k, v in snap['cache'].items() if v['indexed']}
        if not snap['alive']:
            if indexed: return diff('the real cache is closed, the model still holds objects', sorted(indexed), [])
            continue
        if indexed != rindexed: return diff('objects in the primary-key index differ', sorted(indexed), sorted(rindexed))
        for k in sorted(rindexed):
            r = snap['cache'][k]; m = mc[k]
            if r['status'] != m['status']: return diff('status of %s differs' % (k,), m['status'], r['status'])
            if r['status'] in ('marked_to_delete', 'deleted', 'cancelled'): continue     # what a dying object holds is never written
            if sorted(r['wbits']) != sorted(m['wbits']) and r['status'] != 'created':
                return diff('written columns of %s differ' % (k,), sorted(m['wbits']), sorted(r['wbits']))
            for ci, v in r['vals'].items():
                if json.dumps(v, sort_keys=True) != json.dumps(m['vals'][ci], sort_keys=True):
                    return diff('value of column %d of %s differs' % (ci, k), m['vals'][ci], v)
            ctx.count('tie:object-states-compared')
        mq = sorted(_jkey(k) for k in st['queue'] if k is not None); rq = sorted(k for k in snap['queue'] if k is not None)
        if mq != rq: return diff('objects_to_save differs', mq, rq)
        for name in ('added', 'removed'):
            m = {(l[0], _jkey(l[1]), _jkey(l[2])) for l in st[name]}
            sides = {}
            for (ri, x, y, side) in snap[name]: sides.setdefault(side, set()).add((ri, x, y))
            r0 = set()
            for (ri, x, y, side) in snap[name]:
                if side == run.w.m2m_side[ri]: r0.add((ri, x, y))      # the side the flush collects the pairs from
            if m != r0: return diff('pending %s link pairs differ' % name, sorted(m), sorted(r0))
        # the real flag may be set by calls that changed nothing (`coll.add(x)` with x already inside): nothing is pending then, which the
        # comparisons above have established; the direction the invariant needs is `pending => modified`
        pending = any(x is not None for x in st['queue']) or bool(st['added']) or bool(st['removed'])
        if pending and not bool(snap['modified']): return diff('cache.modified is not set although changes are pending', st['modified'], snap['modified'])
        if bool(snap['modified']) != bool(st['modified']): ctx.count('tie:modified-flag-differs-with-nothing-pending')
        if 'stmts' in snap:
            ms = sorted(json.dumps(x, sort_keys=True) for x in st['writes'])
            rs_ = sorted(json.dumps(x, sort_keys=True) for x in snap['stmts'])
            for x in st['writes']:
                if x[0] == 'update': x[2].sort(key=lambda c: c[0])
            ms = sorted(json.dumps(x, sort_keys=True) for x in st['writes'])
            if ms != rs_: return diff('statements of the flush differ', ms, rs_)
            ctx.count('tie:flush-statement-lists-compared'); ctx.count('tie:statements', len(ms))
        if 'committed' in snap:
            if _db_of_model(st['committed']) != _db_of_real(run, snap['committed']):
                return diff('committed database differs', st['committed'], repr(snap['committed']))
            ctx.count('tie:committed-databases-compared')
        if snap.get('txn') is not None:
            if _db_of_model(st['txn']) != _db_of_real(run, snap['txn']):
                return diff('transaction view differs', st['txn'], repr(snap['txn']))
            ctx.count('tie:transaction-views-compared')
        if snap.get('shadow') is not None and wellformed:
            sw, sc = snap['shadow']
            if _db_of_model(st['spec_working']) != sw: return diff('Lean reference machine (working) differs from the Python shadow', st['spec_working'], repr(sw))
            if _db_of_model(st['spec_committed']) != sc: return diff('Lean reference machine (committed) differs from the Python shadow', st['spec_committed'], repr(sc))
            if _db_of_model(st['view']) != sw: return diff('abs of the model state differs from the shadow', st['view'], repr(sw))
            ctx.count('tie:reference-machine-vs-shadow')
    return None


# ---------------------------------------------------------------- exploration shared by the two engines

def shrink(schema, ops, prop, key, budget=60):
    """greedy: drop calls while a finding with the same key remains"""
    def has(cand):
        r = Run(schema, ops=cand)
        try:
            r.run()
            return [f for f in r.findings if f['prop'] == prop and f['key'] == key]
        except Exception:
            return []
        finally: r.close()
    if not has(ops): return ops, None
    changed = True; n = 0
    while changed and n < budget:
        changed = False
        for i in range(len(ops) - 1, -1, -1):
            n += 1
            if n >= budget: break
            cand = ops[:i] + ops[i + 1:]
            if has(cand): ops = cand; changed = True
    f = has(ops)
    return ops, (f[0] if f else None)


def explore(ctx, prop, nhist, nops):
    """random schemas x random histories; oracles of both properties run, only `prop`'s findings are reported by this engine"""
    rng = ctx.rng
    batch = []
    seen = set()
    for h in range(nhist):
        fragment = rng.random() < 0.5
        schema = gen_schema(rng, fragment)
        try: run = Run(schema, rng=rng, nops=nops, ctx=ctx)
        except Exception as e:
            ctx.count('schema-rejected:' + type(e).__name__); continue
        try:
            for e in schema['ents']: ctx.count('schema:pk:' + e['pk'])
            for r in schema['rels']: ctx.count('schema:rel:' + r['kind'])
            ctx.count('schema:in-model-fragment' if run.w.fragment else 'schema:oracle-only')
            if run.w.has_hooks: ctx.count('schema:with-before-hooks')
            run.run()
            if run.w.hook_calls: ctx.count('history:hooks-ran-queries'); ctx.count('hook-calls:total', run.w.hook_calls)
            ctx.case({'schema': schema, 'nops': len(run.ops), 'h': h}, nontrivial=True, kind='history')
            for i, op in enumerate(run.ops): ctx.case({'h': h, 'i': i, 'op': {k: v for k, v in op.items() if k != 'rs'}}, nontrivial=True, kind='call')
            for f in run.findings:
                if f['prop'] != prop:
                    ctx.count('other-property-finding:%s:%s' % (f['prop'], f['key'])); continue
                if f['key'] in seen: ctx.count('finding-repeated:' + f['key']); continue
                seen.add(f['key'])
                ops, f2 = shrink(schema, run.ops[:f['at'] + 1], prop, f['key'])
                f2 = f2 or f
                ctx.violation(f2['what'], {'schema': schema, 'ops': ops}, observed=f2['observed'], expected=f2['expected'], key=f2['key'])
            if run.w.fragment and run.model_ops and ctx.driver.ok:
                batch.append((schema, run.ops, run.model_ops, run.model_checks, run))
                run.keep = True
        finally:
            run.close()        # the database file goes now (the model comparison below uses what was recorded only): a killed run leaks one directory at most
    if batch and ctx.driver.ok:
        reqs = [{'op': 'run', 'ncols': [len(c) for c in run.w.cols], 'ops': mops} for _, _, mops, _, run in batch]
        if prop != 'C09': reqs = [dict(r, model='session') for r in reqs]       # Drive/C10 forwards these to Drive/C09
        outs = ctx.driver(prop, reqs)
        for (schema, ops, mops, checks, run), out in zip(batch, outs):
            if 'unknown property' in str(out.get('driver_error')): raise RuntimeError('the shared driver executable was replaced while running: %r' % out)
            d = compare_model(run, ctx, out)
            ctx.count('tie:histories-compared')
            if d is not None:
                ctx.divergence(d['what'], {'schema': schema, 'ops': ops, 'model_ops': mops[:d['at'] + 1]}, model=d['model'], impl=d['impl'])
            run.close()
    elif batch:
        for b in batch: b[4].close()
    if not ctx.driver.ok: ctx.note('driver unavailable: the correspondence part is skipped, the oracles still run')
