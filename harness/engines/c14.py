"""C14 — primary and unique keys are never silently duplicated.

Tie (correspondence): random entity models (explicit / auto / composite primary key, unique attributes, composite unique
keys, optional key attributes with None; in a third of the constraint-enforcing worlds single-table inheritance with attributes,
unique=True and composite_key declared in the DERIVED entity) are built as real Pony classes over a SQLite FILE database — a quarter of them over a LEGACY
table without database-level UNIQUE constraints (only the session's key indexes can report a conflict; oracle only).  A random history of
several db_sessions runs on real Pony: constructor calls (valid and conflicting), assignments and set(**kw) that move or
swap key values between objects (directly and through a temporary value), deletes followed by re-creation of the same key,
explicit ids colliding with generated ids, `E[pk]` / `get`, `flush()`, the per-object `obj.flush()`, `commit()`, `rollback()`, and INSERTs / UPDATEs / DELETEs of
(conflicting and harmless) rows through a SECOND raw connection between the session's reads and its flush.  After EVERY
call the outcome (ok / exception class), the committed table read through an independent raw connection, the table as the
session's own connection sees it, every session object's status / key / values / bits, `cache.indexes` and
`objects_to_save` are compared with the Lean model (`Model/KeyDb.lean` over `Model/KeyIndex.lean`) driven with the same
history (the ids SQLite generated are inputs of the model).

Property oracle (real code and real database only):
  * the conflicting call is refused: after every call no two non-deleted objects of the live session hold one declared key value
    (histories go on after a caught CacheIndexError and let another object ask for the value the refused object still holds);
  * the DDL Pony generated declares PRIMARY KEY and one UNIQUE index per unique attribute / composite key;
  * after every call the committed table has no two rows with equal primary key, equal unique value or equal composite
    key (rows with a NULL part exempt);
  * after a `commit()` that raised, after `rollback()`, and at the end of a session that ended in an error, the committed
    table equals what it was at the last successful commit (plus the second writer's own rows): no partial commit;
  * after a successful `commit()` every object the session wrote is in the table with the session's values and every
    object it deleted is gone: a refused / lost write cannot pass silently.
"""
import os, random, sqlite3, json
from pony.orm import db_session, flush, commit, rollback
from pony.orm import core
from engines import c11
import ponyutil

NL = c11.NL

def _del_flushes_all():
    """does the tree's own Entity.flush delegate `obj.flush()` of a marked_to_delete object to the full session flush (de6b988)?
    Read from its source on every run; the model follows (flag `delAll` of the op)."""
    import inspect
    try: src = inspect.getsource(core.Entity.flush)
    except Exception: return False
    i = src.find("== 'marked_to_delete'")
    return i >= 0 and 'cache.flush()' in src[i:i + 400]

DEL_FLUSHES_ALL = _del_flushes_all()


def gen_spec(rng):
    spec = c11.gen_spec(rng)
    spec['parents'] = [None]; spec['with_h'] = False; spec['with_p'] = False; spec['discr'] = None
    if spec['pk'] in ('relpk', 'relpk1'): spec['pk'] = 'composite'
    # a legacy table without database-level UNIQUE constraints: only Pony's own key indexes stand between two objects and one key
    spec['legacy'] = rng.random() < 0.25
    # single-table inheritance with attributes, unique=True and composite_key declared IN THE DERIVED entity
    if not spec['legacy'] and rng.random() < 0.35:
        n = spec['nattrs']
        spec['parents'] = [None, 0]
        spec['sub_unique'] = [rng.random() < 0.7 for _ in range(rng.choice([1, 1, 2]))]
        m = n + len(spec['sub_unique'])
        spec['sub_ckeys'] = []
        if rng.random() < 0.5:
            k = [rng.randrange(n, m)] + rng.sample(range(m), 1)        # a derived attribute + any attribute (also an inherited one)
            if len(set(k)) == 2: spec['sub_ckeys'].append(k)
        if not any(spec['sub_unique']) and not spec['sub_ckeys']: spec['sub_unique'][0] = True
    return spec


class W14(c11.World):
    def __init__(self, spec, dbfile):
        super().__init__(spec, dbfile=dbfile)
        self.dbfile = dbfile
        self.ext = sqlite3.connect(dbfile, timeout=0, isolation_level=None)       # the second writer
        self.reader = sqlite3.connect(dbfile, timeout=0, isolation_level=None)    # independent observer
        self.txn_written = []; self.assigned = {}

    def close(self):
        for c in (self.ext, self.reader):
            try: c.close()
            except Exception: pass
        super().close()

    def cols(self):
        return self.pk_cols + ['a%d' % i for i in range(len(self.attrs))]

    def flat_schema(self):
        """for the table + session model every object is of ONE class that has all attributes (an attribute a class does not
        declare is simply never set: None / not loaded, which exempts its keys)"""
        return dict(self.model_schema, parent=[None])

    def read_table(self, con):
        sql = 'select %s from "%s" order by %s' % (', '.join('"%s"' % c for c in self.cols()), self.table, ', '.join('"%s"' % c for c in self.pk_cols))
        npk = len(self.pk_cols)
        return [[list(r[:npk]), list(r[npk:])] for r in con.execute(sql).fetchall()]

    def committed(self):
        return self.read_table(self.reader)

    def session_view(self):
        con = self.db.provider.pool.con
        if con is None: return None
        saved = self.log[:]
        try: return self.read_table(con)
        finally: self.log[:] = saved

    def ddl_declares_keys(self):
        """[(key, declared)]: the table has a unique index over exactly the key's columns"""
        con = self.reader
        have = set()
        for _, name, unique, *_ in con.execute('PRAGMA index_list("%s")' % self.table).fetchall():
            if unique:
                have.add(tuple(r[2] for r in con.execute('PRAGMA index_info("%s")' % name).fetchall()))
        info = con.execute('PRAGMA table_info("%s")' % self.table).fetchall()
        pkcols = tuple(r[1] for r in sorted((r for r in info if r[5]), key=lambda r: r[5]))
        out = [('pk', pkcols == tuple(self.pk_cols))]
        for key in self.keys:
            out.append((key, tuple('a%d' % a for a in key) in have))
        return out

    def session_conflicts(self):
        """[(key, value, [pks])]: two non-deleted objects of the live session hold the same declared key value — the call that made
        the second one hold it should have been refused (CacheIndexError)"""
        cache = core.local.db2cache.get(self.db)
        if cache is None or not cache.is_alive: return []
        bad = []
        live = [o for o in cache.objects if isinstance(o, self.E0) and o._status_ not in c11.DEL and o._vals_ is not None]
        for key in self.keys:
            seen = {}
            for o in live:
                v = tuple(o._vals_.get(self.attrs[a]) for a in key)
                if None in v: continue
                if v in seen: bad.append((key, list(v), sorted([repr(seen[v]._pkval_), repr(o._pkval_)])))
                seen[v] = o
        return bad

    def duplicates(self, table):
        """[(what, value)] for every key value two rows of `table` share"""
        bad = []
        seen = set()
        for pk, vals in table:
            if tuple(pk) in seen: bad.append(('pk', pk))
            seen.add(tuple(pk))
        for key in self.keys:
            seen = set()
            for pk, vals in table:
                v = tuple(vals[a] for a in key)
                if None in v: continue
                if v in seen: bad.append((key, list(v)))
                seen.add(v)
        return bad

    # ---- the calls of a C14 history
    def new_ids(self, before):
        """ids the database generated during the call, in queue order"""
        return [o._pkval_ for o in before if o._pkval_ is not None]

    def pending_auto(self):
        if not self.auto: return []
        cache = self.cache()
        return [o for o in cache.objects_to_save if o is not None and isinstance(o, self.E0) and o._status_ == 'created' and o._pkval_ is None]

    def op_flush14(self, op):
        pend = self.pending_auto()
        err, exc = self.call(flush)
        return {'err': err, 'mop': {'k': 'flush', 'ids': self.ids_after(pend, err, exc)}, 'msg': str(exc) if err else None}

    def op_oflush14(self, op):
        """obj.flush(): the per-object flush"""
        o = self.obj(op['o'])
        pend = [o] if (self.auto and o._status_ == 'created' and o._pkval_ is None) else []
        if DEL_FLUSHES_ALL and o._status_ == 'marked_to_delete': pend = self.pending_auto()     # the whole queue is saved
        err, exc = self.call(o.flush)
        return {'err': err, 'mop': {'k': 'flushOne', 'o': op['o'], 'ids': self.ids_after(pend, err, exc), 'delAll': DEL_FLUSHES_ALL},
                'msg': str(exc) if err else None}

    def ids_after(self, pend, err, exc):
        ids = self.new_ids(pend)
        if err == 'TransactionIntegrityError' and 'Newly auto-generated id value' in str(exc):
            ids.append(int(str(exc).split('Newly auto-generated id value')[1].split()[0]))
        return ids

    def op_commit14(self, op):
        pend = self.pending_auto()
        written = list(self.txn_written)
        err, exc = self.call(commit)
        self.txn_written = []; assigned, self.assigned = self.assigned, {}
        res = {'err': err, 'mop': {'k': 'commit', 'ids': self.ids_after(pend, err, exc)}, 'msg': str(exc) if err else None, 'written': written, 'assigned': assigned}
        if err is not None: res['reset'] = True
        return res

    def touched_safe(self):
        cache = core.local.db2cache.get(self.db)
        if cache is None or not cache.is_alive: return []
        return [o for o in cache.objects_to_save if o is not None and isinstance(o, self.E0)]

    def touched(self):
        """objects with pending writes right now (checked against the table after a successful commit)"""
        cache = self.cache()
        return [o for o in cache.objects_to_save if o is not None and isinstance(o, self.E0)]

    def op_rollback14(self, op):
        err, exc = self.call(rollback)
        self.txn_written = []; self.assigned = {}
        return {'err': err, 'mop': {'k': 'rollback'}, 'reset': True}

    def op_fetch14(self, op):
        pk = op['pk']
        pend = self.pending_auto()
        cand = self.cache().indexes[self.pk_attrs].get(self.pkt(pk)) if self.cache().indexes is not None else None
        if op.get('how') == 'item':
            err, res = self.call(lambda: self.E0[self.pkt(pk)])
        else:
            kw = {'p0': pk[0], 'p1': pk[1]} if self.composite_pk else {'id': pk[0]}
            err, res = self.call(lambda: self.E0.get(**kw))
            if err is None and res is None: err = 'ObjectNotFound'
        if err is None: self.reg(res)
        return {'err': err, 'mop': {'k': 'fetch', 'cls': 0, 'pk': pk, 'ids': self.ids_after(pend, err, res)}, 'msg': str(res) if err else None}

    def op_ext14(self, op):
        cols = self.cols()
        vals = list(op['pk']) + list(op['vals'])
        if self.hier:
            # a row of the derived entity when it carries a derived attribute, else of the root
            derived = any(v is not None for i, v in enumerate(op['vals']) if self.attr_cls[i] == 1) or op.get('derived')
            cols = cols + ['classtype']; vals = vals + [self.discr_values[1 if derived else 0]]
        try:
            self.ext.execute('insert into "%s" (%s) values (%s)' % (self.table, ', '.join('"%s"' % c for c in cols), ', '.join('?' * len(cols))), vals)
            err = None
        except sqlite3.IntegrityError: err = 'ExtIntegrityError'
        except sqlite3.OperationalError as e:
            err = 'Locked' if 'locked' in str(e) else 'OperationalError'
        return {'err': err, 'mop': {'k': 'ext', 'pk': op['pk'], 'vals': op['vals']}}

    def ext_stmt(self, sql, params, mop):
        try:
            self.ext.execute(sql, params); err = None
        except sqlite3.IntegrityError: err = 'ExtIntegrityError'
        except sqlite3.OperationalError as e:
            err = 'Locked' if 'locked' in str(e) else 'OperationalError'
        return {'err': err, 'mop': mop}

    def pk_where(self, pk):
        return ' and '.join('"%s" = ?' % c for c in self.pk_cols), list(pk)

    def op_extu14(self, op):
        """UPDATE of one column through the second connection"""
        wh, params = self.pk_where(op['pk'])
        return self.ext_stmt('update "%s" set "a%d" = ? where %s' % (self.table, op['a'], wh), [op['v']] + params,
                             {'k': 'extUpdate', 'pk': op['pk'], 'a': op['a'], 'v': op['v']})

    def op_extd14(self, op):
        """DELETE through the second connection"""
        wh, params = self.pk_where(op['pk'])
        return self.ext_stmt('delete from "%s" where %s' % (self.table, wh), params, {'k': 'extDelete', 'pk': op['pk']})

    def apply14(self, op):
        k = op['k']
        self.log.clear(); self.raw()
        if k in ('flush', 'oflush', 'fetch', 'commit'):
            # everything the session writes in this transaction (also in flushes before the commit) is checked at the commit
            for o in self.touched_safe():
                if not any(o is x for x in self.txn_written): self.txn_written.append(o)
        try:
            if k == 'set' and any(not self.has_attr(self.obj(op['o']), a) for a, _ in op['changes']): raise c11.StaleOp()
            if k in ('create', 'set', 'delete', 'read'):
                n0 = len(self.objs)
                r = getattr(self, 'op_' + k)(op)
                if r['err'] is None:
                    # the columns the session itself assigned in this transaction (the commit oracle compares exactly these)
                    if k == 'create': self.assigned[id(self.objs[-1])] = set(range(len(self.attrs)))
                    elif k == 'set': self.assigned.setdefault(id(self.objs[op['o']]), set()).update(a for a, _ in op['changes'])
                mop = dict(r['mops'][0]);
                if 'cls' in mop: mop['cls'] = 0
                return {'err': r['err'], 'mop': {'k': 'sess', 'op': mop}}
            return getattr(self, 'op_' + k + '14')(op)
        except c11.StaleOp:
            return {'skip': True}

    def snapshot14(self):
        cache = core.local.db2cache.get(self.db)
        if cache is None or not cache.is_alive:
            s = {'objs': [], 'pk': [], 'ixs': [[] for _ in self.keys], 'queue': []}
        else:
            s = self.snapshot()
        s['committed'] = self.committed()
        s['view'] = self.session_view()
        return s


# ---------------------------------------------------------------- histories

def gen_op(rng, w, since_commit):
    n = len(w.attrs)
    objs = w.objs
    live = [i for i, o in enumerate(objs) if o._status_ not in c11.DEL]
    r = rng.random()
    while w.spec.get('legacy') and 0.76 <= r < 0.93: r = rng.random()         # no second writer on a legacy table
    released = getattr(w, 'released', None)
    if released is not None:
        # the program caught a CacheIndexError and goes on: another object now asks for the value the refused object still holds
        w.released = None
        ro, attrs, asked = released
        if ro < len(objs) and objs[ro]._status_ not in c11.DEL and objs[ro]._vals_ and rng.random() < 0.7:
            cur = [[a, objs[ro]._vals_.get(w.attrs[a])] for a in attrs if objs[ro]._vals_.get(w.attrs[a]) is not None]
            if rng.random() < 0.5:
                # … or for the tuple that was asked for (and is still held by the object that made the assignment fail): the other
                # key parts are taken from the refused object
                key = next((k for k in w.keys if any(a in k for a, _ in asked)), None)
                if key is not None:
                    d = dict((a, v) for a, v in asked)
                    cur = [[a, d.get(a, objs[ro]._vals_.get(w.attrs[a]))] for a in key]
                    cur = [[a, v] for a, v in cur if v is not None]
            if cur:
                others = [i for i in live if i != ro]
                if others and rng.random() < 0.5: return {'k': 'set', 'o': rng.choice(others), 'changes': cur, 'via': 'set'}
                cls = 1 if (w.hier and (any(w.attr_cls[a] == 1 for a, _ in cur) or rng.random() < 0.5)) else 0
                kw = w.rand_create_kw(rng, cls=cls)
                for a, v in cur: kw['a%d' % a] = v
                return {'k': 'create', 'cls': cls, 'kw': kw}
    if r < 0.24 or not objs:
        cls = 1 if (w.hier and rng.random() < 0.65) else 0
        return {'k': 'create', 'cls': cls, 'kw': w.rand_create_kw(rng, cls=cls)}
    o = rng.choice(live) if live and rng.random() < 0.92 else rng.randrange(len(objs))
    keyattrs = sorted({a for key in w.keys for a in key if w.has_attr(objs[o], a)})
    own = [a for a in range(n) if w.has_attr(objs[o], a)]
    if r < 0.46:
        if keyattrs and len(live) >= 2 and rng.random() < 0.45:
            # move / swap: give `o` the key value another object holds
            o2 = rng.choice([i for i in live if i != o])
            a = rng.choice(keyattrs)
            v = objs[o2]._vals_.get(w.attrs[a]) if objs[o2]._vals_ else None
            if v is None: v = w.rand_val(rng)
            return {'k': 'set', 'o': o, 'changes': [[a, v]], 'via': rng.choice(['attr', 'set'])}
        k = 1 if rng.random() < 0.6 else 2
        attrs = rng.sample(own, min(k, len(own)))
        if keyattrs and rng.random() < 0.7: attrs[0] = rng.choice(keyattrs); attrs = list(dict.fromkeys(attrs))
        ch = [[a, rng.choice([None, 0, 1, 2, 3, 8, 9])] for a in attrs]
        return {'k': 'set', 'o': o, 'changes': ch, 'via': 'attr' if len(ch) == 1 and rng.random() < 0.6 else 'set'}
    if r < 0.54: return {'k': 'delete', 'o': o}
    if r < 0.58 and objs[o]._vals_: return {'k': 'read', 'o': o, 'a': rng.choice(own)}
    if r < 0.67: return {'k': 'fetch', 'pk': w.pkl(objs[o]) if objs[o]._pkval_ is not None and rng.random() < 0.4 else w.rand_pk(rng), 'how': rng.choice(['item', 'get'])}
    if r < 0.70: return {'k': 'flush'}
    if r < 0.76:
        pend = [i for i, x in enumerate(objs) if x._status_ in ('created', 'modified', 'marked_to_delete')]
        return {'k': 'oflush', 'o': rng.choice(pend) if pend and rng.random() < 0.85 else o}
    if r < 0.90:
        vals = [w.rand_val(rng) for _ in range(n)]
        if live and keyattrs and rng.random() < 0.6:          # conflict with something the session holds but has not written
            src = objs[rng.choice(live)]
            for a in rng.choice(w.keys):
                v = src._vals_.get(w.attrs[a]) if src._vals_ else None
                if v is not None: vals[a] = v
        pk = w.rand_pk(rng)
        if w.auto and rng.random() < 0.5: pk = [rng.randrange(1, 12)]
        if w.hier and rng.random() < 0.4: vals = [None if w.attr_cls[i] == 1 else v for i, v in enumerate(vals)]      # a row of the root entity
        return {'k': 'ext', 'pk': pk, 'vals': vals}
    if r < 0.93 and objs:
        # the second writer changes or removes a row the session knows (or any row)
        src = objs[rng.choice(live)] if live and rng.random() < 0.8 else None
        pk = w.pkl(src) if src is not None and src._pkval_ is not None else w.rand_pk(rng)
        if rng.random() < 0.75:
            a = rng.choice(keyattrs) if keyattrs and rng.random() < 0.5 else rng.randrange(n)
            if src is not None and src._rbits_:
                was_read = [i for i, x in enumerate(w.attrs) if src._rbits_ & src._bits_[x]]
                if was_read and rng.random() < 0.6: a = rng.choice(was_read)       # a column the session has read: optimistic check
            return {'k': 'extu', 'pk': pk, 'a': a, 'v': rng.choice([None, 0, 1, 2, 3, 8])}
        return {'k': 'extd', 'pk': pk}
    if r < 0.97: return {'k': 'commit'}
    return {'k': 'rollback'}


DIRECTED = [
    # swap of unique values through a temporary value: the first UPDATE is refused, commit rolls back
    {'spec': {'nattrs': 1, 'unique': [True], 'ckeys': [], 'pk': 'explicit', 'parents': [None], 'with_h': False},
     'sessions': [[{'k': 'create', 'cls': 0, 'kw': {'id': 1, 'a0': 1}}, {'k': 'create', 'cls': 0, 'kw': {'id': 2, 'a0': 2}}, {'k': 'commit'}],
                  [{'k': 'fetch', 'pk': [1], 'how': 'item'}, {'k': 'fetch', 'pk': [2], 'how': 'item'},
                   {'k': 'set', 'o': 0, 'changes': [[0, 9]], 'via': 'attr'}, {'k': 'set', 'o': 1, 'changes': [[0, 1]], 'via': 'attr'},
                   {'k': 'set', 'o': 0, 'changes': [[0, 2]], 'via': 'attr'}, {'k': 'commit'}]]},
    # the direct swap is refused at the call; moving a value to a second object in the right order commits
    {'spec': {'nattrs': 1, 'unique': [True], 'ckeys': [], 'pk': 'explicit', 'parents': [None], 'with_h': False},
     'sessions': [[{'k': 'create', 'cls': 0, 'kw': {'id': 1, 'a0': 1}}, {'k': 'create', 'cls': 0, 'kw': {'id': 2, 'a0': 2}}, {'k': 'commit'}],
                  [{'k': 'fetch', 'pk': [1], 'how': 'item'}, {'k': 'fetch', 'pk': [2], 'how': 'item'},
                   {'k': 'set', 'o': 0, 'changes': [[0, 2]], 'via': 'attr'},
                   {'k': 'set', 'o': 0, 'changes': [[0, 9]], 'via': 'attr'}, {'k': 'set', 'o': 1, 'changes': [[0, 1]], 'via': 'attr'}, {'k': 'commit'}]]},
    # a second connection inserts a conflicting row between the session's look and its flush
    {'spec': {'nattrs': 2, 'unique': [True, False], 'ckeys': [], 'pk': 'explicit', 'parents': [None], 'with_h': False},
     'sessions': [[{'k': 'fetch', 'pk': [5], 'how': 'get'}, {'k': 'create', 'cls': 0, 'kw': {'id': 5, 'a0': 7}},
                   {'k': 'ext', 'pk': [6], 'vals': [7, None]}, {'k': 'commit'}]]},
    # … the same primary key
    {'spec': {'nattrs': 1, 'unique': [False], 'ckeys': [], 'pk': 'explicit', 'parents': [None], 'with_h': False},
     'sessions': [[{'k': 'create', 'cls': 0, 'kw': {'id': 5, 'a0': 7}}, {'k': 'ext', 'pk': [5], 'vals': [1]}, {'k': 'flush'}, {'k': 'commit'}]]},
    # explicit id equal to the id the database will generate
    {'spec': {'nattrs': 1, 'unique': [False], 'ckeys': [], 'pk': 'auto', 'parents': [None], 'with_h': False},
     'sessions': [[{'k': 'create', 'cls': 0, 'kw': {}}, {'k': 'create', 'cls': 0, 'kw': {'id': 1}}, {'k': 'commit'}]]},
    # delete + re-create the same unique value and (after a flush) the same primary key; composite key with None parts
    {'spec': {'nattrs': 3, 'unique': [True, False, False], 'ckeys': [[1, 2]], 'pk': 'explicit', 'parents': [None], 'with_h': False},
     'sessions': [[{'k': 'create', 'cls': 0, 'kw': {'id': 1, 'a0': 5, 'a1': 1, 'a2': 2}}, {'k': 'create', 'cls': 0, 'kw': {'id': 2, 'a1': 1}},
                   {'k': 'create', 'cls': 0, 'kw': {'id': 3, 'a1': 1}}, {'k': 'commit'}],
                  [{'k': 'fetch', 'pk': [1], 'how': 'item'}, {'k': 'delete', 'o': 0}, {'k': 'create', 'cls': 0, 'kw': {'id': 4, 'a0': 5, 'a1': 1, 'a2': 2}},
                   {'k': 'create', 'cls': 0, 'kw': {'id': 1}}, {'k': 'flush'}, {'k': 'create', 'cls': 0, 'kw': {'id': 1, 'a1': 1, 'a2': 2}},
                   {'k': 'create', 'cls': 0, 'kw': {'id': 1}}, {'k': 'commit'}]]},
    # the first statement of a commit is refused; the program deletes the culprit and commits again: the write that was
    # pending at the failed commit must be gone (the failed commit rolled the session back)
    {'spec': {'nattrs': 1, 'unique': [True], 'ckeys': [], 'pk': 'explicit', 'parents': [None], 'with_h': False},
     'sessions': [[{'k': 'ext', 'pk': [9], 'vals': [3]}, {'k': 'create', 'cls': 0, 'kw': {'id': 2, 'a0': 3}}, {'k': 'create', 'cls': 0, 'kw': {'id': 1, 'a0': 1}},
                   {'k': 'commit'}, {'k': 'delete', 'o': 0}, {'k': 'commit'}]]},
    # per-object flush: `obj.delete(); obj.flush()` as the first write of a session, then a flush-time key conflict with an
    # unloaded committed row: the rollback must take the DELETE with it
    {'spec': {'nattrs': 1, 'unique': [True], 'ckeys': [], 'pk': 'explicit', 'parents': [None], 'with_h': False},
     'sessions': [[{'k': 'create', 'cls': 0, 'kw': {'id': 1, 'a0': 1}}, {'k': 'create', 'cls': 0, 'kw': {'id': 2, 'a0': 2}}, {'k': 'commit'}],
                  [{'k': 'fetch', 'pk': [1], 'how': 'item'}, {'k': 'delete', 'o': 0}, {'k': 'oflush', 'o': 0},
                   {'k': 'create', 'cls': 0, 'kw': {'id': 3, 'a0': 2}}, {'k': 'commit'}]]},
    # per-object flush of a created and of a modified object, the rest of the queue stays pending
    {'spec': {'nattrs': 2, 'unique': [True, False], 'ckeys': [], 'pk': 'auto', 'parents': [None], 'with_h': False},
     'sessions': [[{'k': 'create', 'cls': 0, 'kw': {'a0': 1}}, {'k': 'create', 'cls': 0, 'kw': {'a0': 2}}, {'k': 'oflush', 'o': 1},
                   {'k': 'set', 'o': 1, 'changes': [[1, 5]], 'via': 'attr'}, {'k': 'oflush', 'o': 1}, {'k': 'oflush', 'o': 1}, {'k': 'rollback'}],
                  [{'k': 'create', 'cls': 0, 'kw': {'a0': 3}}, {'k': 'oflush', 'o': 0}, {'k': 'commit'}]]},
    # the second writer changes a column the session has read: the session's UPDATE matches no row (OptimisticCheckError), commit
    # rolls back, the other writer's value stays; and an UPDATE of a row the other writer deleted
    {'spec': {'nattrs': 2, 'unique': [True, False], 'ckeys': [], 'pk': 'explicit', 'parents': [None], 'with_h': False},
     'sessions': [[{'k': 'create', 'cls': 0, 'kw': {'id': 1, 'a0': 1, 'a1': 1}}, {'k': 'create', 'cls': 0, 'kw': {'id': 2, 'a0': 2, 'a1': 2}}, {'k': 'commit'}],
                  [{'k': 'fetch', 'pk': [1], 'how': 'item'}, {'k': 'read', 'o': 0, 'a': 1}, {'k': 'extu', 'pk': [1], 'a': 1, 'v': 8},
                   {'k': 'set', 'o': 0, 'changes': [[0, 5]], 'via': 'attr'}, {'k': 'commit'}],
                  [{'k': 'fetch', 'pk': [2], 'how': 'item'}, {'k': 'extd', 'pk': [2]}, {'k': 'set', 'o': 0, 'changes': [[1, 5]], 'via': 'attr'}, {'k': 'commit'}],
                  [{'k': 'fetch', 'pk': [1], 'how': 'item'}, {'k': 'extu', 'pk': [1], 'a': 1, 'v': 9}, {'k': 'set', 'o': 0, 'changes': [[0, 6]], 'via': 'attr'}, {'k': 'commit'}]]},
    # plain delete of a loaded object that was never read, committed; the row must be gone for the next session
    {'spec': {'nattrs': 1, 'unique': [True], 'ckeys': [], 'pk': 'explicit', 'parents': [None], 'with_h': False},
     'sessions': [[{'k': 'create', 'cls': 0, 'kw': {'id': 1, 'a0': 1}}, {'k': 'commit'}],
                  [{'k': 'fetch', 'pk': [1], 'how': 'item'}, {'k': 'delete', 'o': 0}, {'k': 'commit'}],
                  [{'k': 'fetch', 'pk': [1], 'how': 'get'}, {'k': 'create', 'cls': 0, 'kw': {'id': 1, 'a0': 1}}, {'k': 'commit'}]]},
    # the program catches the CacheIndexError of a conflicting assignment and goes on: the refused object still holds its value, so
    # a second object asking for it must be refused too — on a Pony-created table and on a legacy table without UNIQUE constraints
    {'spec': {'nattrs': 1, 'unique': [True], 'ckeys': [], 'pk': 'explicit', 'parents': [None], 'with_h': False, 'legacy': True},
     'sessions': [[{'k': 'create', 'cls': 0, 'kw': {'id': 1, 'a0': 1}}, {'k': 'create', 'cls': 0, 'kw': {'id': 2, 'a0': 2}}, {'k': 'commit'}],
                  [{'k': 'fetch', 'pk': [1], 'how': 'item'}, {'k': 'fetch', 'pk': [2], 'how': 'item'},
                   {'k': 'set', 'o': 0, 'changes': [[0, 2]], 'via': 'attr'}, {'k': 'set', 'o': 1, 'changes': [[0, 1]], 'via': 'attr'}, {'k': 'commit'}]]},
    {'spec': {'nattrs': 2, 'unique': [True, False], 'ckeys': [[1, 0]], 'pk': 'auto', 'parents': [None], 'with_h': False, 'legacy': False},
     'sessions': [[{'k': 'create', 'cls': 0, 'kw': {'a0': 1, 'a1': 1}}, {'k': 'create', 'cls': 0, 'kw': {'a0': 2, 'a1': 1}},
                   {'k': 'set', 'o': 0, 'changes': [[0, 2]], 'via': 'set'}, {'k': 'create', 'cls': 0, 'kw': {'a0': 1, 'a1': 5}}, {'k': 'commit'}]]},
    {'spec': {'nattrs': 2, 'unique': [False, False], 'ckeys': [[0, 1]], 'pk': 'explicit', 'parents': [None], 'with_h': False, 'legacy': True},
     'sessions': [[{'k': 'create', 'cls': 0, 'kw': {'id': 1, 'a0': 1, 'a1': 1}}, {'k': 'create', 'cls': 0, 'kw': {'id': 2, 'a0': 2, 'a1': 1}},
                   {'k': 'set', 'o': 0, 'changes': [[0, 2]], 'via': 'attr'}, {'k': 'create', 'cls': 0, 'kw': {'id': 3, 'a0': 1, 'a1': 1}}, {'k': 'commit'}]]},
    # keys declared in a DERIVED entity (single-table inheritance): a new object / an assignment that clashes with a row committed by
    # an earlier session and never loaded must be refused at flush; the committed rows never share the derived unique / composite key
    {'spec': {'nattrs': 1, 'unique': [False], 'ckeys': [], 'pk': 'explicit', 'parents': [None, 0], 'with_h': False,
              'sub_unique': [True, False], 'sub_ckeys': [[2, 0]]},
     'sessions': [[{'k': 'create', 'cls': 1, 'kw': {'id': 1, 'a0': 1, 'a1': 5, 'a2': 7}}, {'k': 'create', 'cls': 0, 'kw': {'id': 2, 'a0': 1}}, {'k': 'commit'}],
                  [{'k': 'create', 'cls': 1, 'kw': {'id': 3, 'a0': 2, 'a1': 5}}, {'k': 'commit'}],
                  [{'k': 'create', 'cls': 1, 'kw': {'id': 4, 'a0': 1, 'a2': 7}}, {'k': 'commit'}],
                  [{'k': 'fetch', 'pk': [2], 'how': 'item'}, {'k': 'create', 'cls': 1, 'kw': {'id': 5, 'a0': 3, 'a1': 6, 'a2': 7}},
                   {'k': 'set', 'o': 1, 'changes': [[1, 5]], 'via': 'attr'}, {'k': 'commit'}],
                  [{'k': 'ext', 'pk': [6], 'vals': [9, 5, None]}, {'k': 'ext', 'pk': [7], 'vals': [1, None, None]}, {'k': 'fetch', 'pk': [1], 'how': 'get'}, {'k': 'commit'}]]},
    # a flush that stops half-way, caught by the program, then commit
    {'spec': {'nattrs': 1, 'unique': [True], 'ckeys': [], 'pk': 'explicit', 'parents': [None], 'with_h': False},
     'sessions': [[{'k': 'ext', 'pk': [9], 'vals': [3]}, {'k': 'create', 'cls': 0, 'kw': {'id': 1, 'a0': 1}}, {'k': 'create', 'cls': 0, 'kw': {'id': 2, 'a0': 3}},
                   {'k': 'flush'}, {'k': 'set', 'o': 1, 'changes': [[0, 4]], 'via': 'attr'}, {'k': 'commit'}]]},
]


def run_history(spec, sessions=None, rng=None, nsess=0, nops=0, ctx=None, workdir=None):
    """returns (world, trace, findings); trace = [(op, result, snapshot)]; sessions given: replay exactly"""
    path = os.path.join(workdir, 'h%d.sqlite' % random.getrandbits(40))
    w = W14(spec, path)
    trace = []; findings = []
    ddl_bad = []     # reported when the history itself shows no data-level consequence
    for key, ok in ([] if spec.get('legacy') else w.ddl_declares_keys()):
        if not ok: ddl_bad.append(('ddl-lacks-unique-constraint', {'key': key}, 0))
    baseline = w.committed()          # the table at the last successful commit (plus the second writer's rows)
    count_s = 0
    try:
        while True:
            if sessions is not None:
                if count_s >= len(sessions): break
                pending = list(sessions[count_s])
            else:
                if count_s >= nsess: break
                pending = None
            count_s += 1
            w.objs = []; w.dumps = []; w.txn_written = []; w.assigned = {}
            exit_err = None
            doomed = set(); keep_alive = []
            try:
              with db_session:
                w.con = None
                k = 0; extra = 0
                closing = False
                while True:
                    if pending is not None:
                        if not pending:
                            # a replayed session that does not end with commit / rollback: what the end of the db_session would do
                            cache = core.local.db2cache.get(w.db)
                            if closing or cache is None or not cache.is_alive or not (cache.modified or cache.in_transaction): break
                            closing = True
                            op = {'k': 'commit', 'implicit': True}
                        else: op = pending.pop(0)
                    else:
                        if k >= nops: op = {'k': rng.choice(['commit', 'commit', 'rollback'])}
                        else: op = gen_op(rng, w, None)
                    k += 1
                    res = w.apply14(op)
                    if res.get('skip'):
                        if ctx: ctx.count('op-not-applicable:' + op['k'])
                        if pending is None and k > nops: break
                        continue
                    if op['k'] == 'set' and res['err'] == 'CacheIndexError': w.released = (op['o'], [a for a, _ in op['changes']], [list(c) for c in op['changes']])
                    snap = w.snapshot14()
                    trace.append((op, res, snap))
                    # ---- the property oracle
                    com = snap['committed']
                    # (1) the conflicting call must be refused: never two live objects of the session with one declared key value
                    for key, v, pks in w.session_conflicts():
                        findings.append(('conflicting-call-not-refused', {'key': key, 'value': v, 'objects': pks, 'call': op['k'], 'outcome': res['err'] or 'ok'}, len(trace) - 1))
                    # (2) the committed table: with database constraints no duplicates at all; on a legacy table (no UNIQUE in the
                    # database) no duplicates among the rows the committing session itself holds as objects
                    if not spec.get('legacy'):
                        for what, v in w.duplicates(com): findings.append(('duplicate-key-committed', {'key': what, 'value': v}, len(trace) - 1))
                    elif op['k'] == 'commit' and res['err'] is None:
                        mine = [r for r in com if any(w.pkl(o) == r[0] for o in res['written'] if o._status_ not in ('deleted', 'cancelled'))]
                        for what, v in w.duplicates(mine): findings.append(('duplicate-key-committed', {'key': what, 'value': v, 'legacy-table': True}, len(trace) - 1))
                    if op['k'] in ('ext', 'extu', 'extd'):
                        if res['err'] is None: baseline = com
                    elif op['k'] == 'commit' and res['err'] is not None:
                        doomed.update(id(o) for o in res['written'])
                        keep_alive.extend(res['written'])
                        if com != baseline:
                            findings.append(('committed-table-changed-without-commit', {'call': op['k'], 'outcome': res['err'], 'before': baseline, 'after': com}, len(trace) - 1))
                    elif op['k'] == 'commit' and res['err'] is None:
                        for o in res['written']:
                            if id(o) in doomed:
                                findings.append(('write-pending-at-a-failed-commit-was-committed-later', {'pk': w.pkl(o)}, len(trace) - 1))
                        for o in res['written']:
                            pk = w.pkl(o)
                            rows = [r for r in com if r[0] == pk]
                            if o._status_ in ('deleted', 'cancelled'):
                                if rows and o._status_ == 'deleted' and not any(x is not o and x._pkval_ == o._pkval_ and x._status_ not in ('deleted', 'cancelled') for x in w.objs):
                                    findings.append(('deleted-object-still-in-table', {'pk': pk}, len(trace) - 1))
                            elif not rows:
                                findings.append(('written-object-missing-after-commit', {'pk': pk}, len(trace) - 1))
                            else:
                                for i, a in enumerate(w.attrs):
                                    if i in res['assigned'].get(id(o), ()) and a in o._vals_ and o._vals_[a] != rows[0][1][i]:
                                        findings.append(('committed-value-differs-from-session', {'pk': pk, 'attr': i, 'session': o._vals_[a], 'table': rows[0][1][i]}, len(trace) - 1))
                        baseline = com
                    elif com != baseline:
                        findings.append(('committed-table-changed-without-commit', {'call': op['k'], 'outcome': res['err'] or 'ok', 'before': baseline, 'after': com}, len(trace) - 1))
                    if res.get('reset'):
                        cache = core.local.db2cache.get(w.db)
                        if cache is None or not cache.is_alive: w.objs = []; w.dumps = []      # the session's objects are gone
                    if findings: break
                    if op['k'] in ('commit', 'rollback') and pending is None:
                        # after a commit that raised the program may go on in the same db_session (new cache)
                        if op['k'] == 'commit' and res['err'] is not None and extra < 2 and rng.random() < 0.6:
                            extra += 1; nops = k + 3; continue
                        break
                if findings: rollback()
            except Exception as e:
                exit_err = type(e).__name__
                if ctx: ctx.count('db_session-exit-raised:' + exit_err)
            # the end of the db_session released the cache: the model forgets the session's objects
            trace.append(({'k': 'end'}, {'err': None, 'mop': {'k': 'rollback'}}, w.snapshot14()))
            com = trace[-1][2]['committed']
            if not findings and com != baseline:
                findings.append(('committed-table-changed-at-session-end', {'before': baseline, 'after': com}, len(trace) - 1))
            if findings: break
    finally:
        w.close()
        for suffix in ('', '-journal'):
            try: os.remove(path + suffix)
            except OSError: pass
    if not findings and ddl_bad: findings = ddl_bad
    return w, trace, findings


def sessions_of(trace):
    out = [[]]
    for op, res, snap in trace:
        if op['k'] == 'end': out.append([])
        elif not op.get('implicit'): out[-1].append(op)
    return [s for s in out if s]


def first_finding(spec, sessions, workdir):
    try:
        w, trace, findings = run_history(spec, sessions=sessions, workdir=workdir)
    except Exception:
        return None
    return (findings[0], sessions_of(trace)) if findings else None


def shrink(spec, sessions, key, workdir):
    changed = True
    while changed:
        changed = False
        for si in range(len(sessions) - 1, -1, -1):
            for oi in range(len(sessions[si]) - 1, -1, -1):
                cand = [list(s) for s in sessions]
                del cand[si][oi]
                cand = [s for s in cand if s]
                f = first_finding(spec, cand, workdir)
                if f is not None and f[0][0] == key:
                    sessions = f[1]; changed = True; break
            if changed: break
    return sessions


def report(ctx, spec, sessions, finding, workdir):
    key, detail, _ = finding
    small = shrink(spec, sessions, key, workdir)
    f = first_finding(spec, small, workdir)
    if f is not None: detail = f[0][1]
    last = small[-1][-1]['k'] if small and small[-1] else '-'
    ctx.violation('the committed table holds a duplicated key, changed without a successful commit, or lost / kept a write silently (%s)' % key,
                  {'spec': spec, 'sessions': small}, observed=detail,
                  expected='no two rows agree on a key; an error leaves the committed table unchanged; a successful commit writes the session\'s values',
                  key='%s:%s:%s' % (key, last, spec['pk']))


def compare(ctx, w, spec, trace, steps):
    def hist(i): return {'spec': spec, 'sessions': sessions_of(trace[:i + 1]), 'model_schema': w.model_schema}
    for i, ((op, res, snap), m) in enumerate(zip(trace, steps)):
        merr = m['err']; rerr = res['err']
        if merr == 'BadOp':
            ctx.divergence('the model rejected a call the engine generated', hist(i), model=merr, impl=rerr); return
        if not m['keysOk']: ctx.count('model:keysOk-false')
        # the hypotheses of C14_commit_loses_no_insert, evaluated on every visited state
        if not m.get('queueOk', True) or not m.get('inv', True):
            ctx.count('model:queue-or-index-invariant-false')
            if op['k'] != 'fetch' or rerr != 'TransactionIntegrityError':
                ctx.divergence('a visited model state violates the hypotheses of C14_commit_loses_no_insert', hist(i), model={'queueOk': m.get('queueOk'), 'inv': m.get('inv')}); return
        if (merr or None) != (rerr or None):
            ctx.divergence('outcome of the call differs', hist(i), model=merr, impl=[rerr, res.get('msg')]); return
        mc = sorted(m['committed']); rc = sorted(snap['committed'])
        if mc != rc:
            ctx.divergence('committed table differs', hist(i), model=mc, impl=rc); return
        if snap['view'] is not None and sorted(m['txn']) != sorted(snap['view']):
            ctx.divergence('the table as the session sees it differs', hist(i), model=sorted(m['txn']), impl=sorted(snap['view'])); return
        mo = m['objs']; ro = snap['objs']
        if len(mo) != len(ro):
            ctx.divergence('number of session objects differs', hist(i), model=len(mo), impl=len(ro)); return
        for j, (a, b) in enumerate(zip(mo, ro)):
            a = {k: a[k] for k in b}
            if w.hier:
                # classes are flattened in the model; attributes the object's class does not declare are masked
                a['cls'] = b['cls']
                for f in ('vals', 'dbvals'):
                    a[f] = ['-' if y == '-' else x for x, y in zip(a[f], b[f])]
                a['rbits'] = [False if y == '-' else x for x, y in zip(a['rbits'], b['vals'])]
            if a != b:
                ctx.divergence('session object differs', hist(i), model=dict(a, obj=j), impl=dict(b, obj=j)); return
        if sorted(m['pk']) != snap['pk'] or [sorted(x) for x in m['ixs']] != snap['ixs']:
            ctx.divergence('key indexes differ', hist(i), model=[sorted(m['pk'])] + [sorted(x) for x in m['ixs']], impl=[snap['pk']] + snap['ixs']); return
        if m['queue'] != snap['queue']:
            ctx.divergence('objects_to_save differs', hist(i), model=m['queue'], impl=snap['queue']); return
        ctx.count('tie:calls-compared')


def run(ctx):
    rng = ctx.rng
    workdir = ponyutil.workdir('c14')
    try:
        jobs = [(d['spec'], d['sessions']) for d in DIRECTED]
        for _ in range(ctx.scale(300, 4000)):
            jobs.append((gen_spec(rng), None))
        for i in range(0, len(jobs), 250):                # in chunks: traces hold a snapshot per call
            run_jobs(ctx, rng, jobs[i:i + 250], workdir)
    finally:
        ponyutil.rmtree(workdir)


def run_jobs(ctx, rng, jobs, workdir):
    if True:
        batch = []
        for spec, sessions in jobs:
            sub = random.Random(rng.randrange(1 << 30))
            try:
                w, trace, findings = run_history(spec, sessions=sessions, rng=sub, nsess=sub.choice([1, 2, 2, 3]), nops=ctx.scale(9, 14), ctx=ctx, workdir=workdir)
            except core.ERDiagramError as e:
                ctx.count('model-rejected:' + type(e).__name__); continue
            except Exception as e:
                # an exception that escapes from the real code outside a recorded call is a verdict, not an engine crash
                import traceback
                ctx.count('exception-escaped:' + type(e).__name__)
                ctx.divergence('an exception escaped from the real code while the history ran', {'spec': spec, 'sessions': sessions},
                               impl=[type(e).__name__, str(e)[:300], traceback.format_exc()[-600:]])
                continue
            ctx.count('model:pk=%s,keys=%d%s%s%s' % (spec['pk'], len(w.keys), ',directed' if sessions else '', ',legacy-table' if spec.get('legacy') else '',
                                                     ',keys-in-derived-entity' if spec.get('sub_unique') else ''))
            for op, res, snap in trace:
                if op['k'] == 'end': continue
                ctx.count('call:%s:%s' % (op['k'], res['err'] or 'ok'))
                ctx.case({'model': w.model_schema, 'call': op}, nontrivial=True, kind=op['k'])
            if findings:
                ctx.count('oracle:' + findings[0][0])
                report(ctx, spec, sessions_of(trace), findings[0], workdir)
            batch.append((w, spec, trace))
        if not ctx.driver.ok:
            ctx.note('driver unavailable: the correspondence part is skipped, the oracle still ran'); return
        outs = ctx.driver('C14', [{'op': 'run', 'schema': w.flat_schema(), 'ops': [t[1]['mop'] for t in trace]} for w, _, trace in batch])
        for (w, spec, trace), out in zip(batch, outs):
            if spec.get('legacy'):
                ctx.count('legacy-table-world:oracle-only')         # the model's table enforces the constraints the legacy table lacks
                continue
            steps = out.get('steps')
            if steps is None:
                if 'unknown property' in str(out.get('driver_error')): raise RuntimeError('the shared driver executable was replaced while running: %r' % out)
                ctx.divergence('driver error', {'spec': spec, 'sessions': sessions_of(trace)}, model=out); continue
            compare(ctx, w, spec, trace, steps)


def replay(ctx, data):
    inp = data.get('input') or {}
    if 'spec' in inp and 'sessions' in inp:
        workdir = ponyutil.workdir('c14')
        try:
            f = first_finding(inp['spec'], inp['sessions'], workdir)
            ctx.case({'replay': True}, kind='replay')
            if f is not None: report(ctx, inp['spec'], f[1], f[0], workdir)
        finally:
            ponyutil.rmtree(workdir)
    else:
        run(ctx)
