"""C17 — a session's writes are atomic under crashes and database errors.

Every case = (write program, db_session options, warm/fresh pool, fault schedule | kill point) runs on the REAL provider:
`Database.bind('sqlite', <file under /verif/.work>, factory=TracingConnection)` (harness/tracing.py, nothing in Pony is
patched).  After every DB-API call two snapshots of all tables are taken:
    visible  - through an independent plain sqlite3 connection  (what every other process reads = the file contents)
    own      - through the session's own connection, untraced   (the session's pending view)

Property oracle (real code only, never the model):
    O1  the visible state changes ONLY across a performed `commit` call, and then it becomes exactly the session's own
        view (all of its changes); in particular no write statement is visible before the commit (none),
    O2  after the session (ended normally, by an injected error of any sqlite3 class at any call index, by an error in
        the error path, or by a real SIGKILL of the writing process at any call index) the file - read by a new
        connection, for kills by another process - holds the last such boundary state,
    O3  a session that ended without an exception and without an explicit rollback() discarded nothing.
Correspondence (tie): the recorded call sequence is translated into the alphabet of Model/TxnProtocol.lean (row writes =
difference of the own view across the statement) and sent through the Lean driver: the trace must be a word of L
(`accepted`), and the model's committed / own state after EVERY event must equal the two real snapshots -> ctx.divergence.
Kill runs validate the ASSUMED crash behaviour (`crash d = d.committed`): the child really dies by SIGKILL inside the
tracing layer; expected file contents = the model's/baseline's committed state at that index.
"""
import os, sys, json, sqlite3, signal, shutil, threading, time, zlib, multiprocessing, traceback

from tracing import Tracer, Fault
import ponyutil

TABLES = ['t', 'u', 't_u', 'h', 'raw_t']          # fixed order: table index = first component of a row key
KEY_MUL = 100000
BIG_ROWS, BIG_WIDTH = 150, 1500

EXC_CLASSES = [sqlite3.OperationalError, sqlite3.IntegrityError, sqlite3.ProgrammingError, sqlite3.DatabaseError,
               sqlite3.InterfaceError, sqlite3.InternalError, sqlite3.DataError, sqlite3.NotSupportedError, sqlite3.Error,
               sqlite3.Warning]
FOREIGN = {'MemoryError': MemoryError, 'KeyboardInterrupt': KeyboardInterrupt}
EXC_BY_NAME = dict({c.__name__: c for c in EXC_CLASSES}, **FOREIGN)

SESSION_OPTS = {'optimistic': {}, 'immediate': {'immediate': True}, 'serializable': {'serializable': True},
                'pessimistic': {'optimistic': False}, 'ddl': {'ddl': True}}
PG_MODES = ('optimistic', 'immediate', 'serializable', 'pessimistic')


class BodyError(Exception): pass


class Env(object): pass


# ---------------------------------------------------------------------------------------------------------------------
# database
# ---------------------------------------------------------------------------------------------------------------------

def define(tr, path):
    from pony.orm import Database, Required, Optional, Set, PrimaryKey, db_session, select, commit, rollback, flush, delete
    db = Database()
    class T(db.Entity):
        _table_ = 't'
        x = Required(int)
        tag = Optional(str)
        us = Set('U', table='t_u')
    class U(db.Entity):
        _table_ = 'u'
        n = Required(int, unique=True)
        ts = Set(T)
    class H(db.Entity):
        """entity with hooks: a query inside flush (nested flush is disabled there) and a modification after save
        (the flush loop runs again)"""
        _table_ = 'h'
        v = Required(int)
        def before_insert(self):
            select(t for t in T if t.x == self.v)[:]
        def after_insert(self):
            if self.v % 2 == 0: T(x=1000 + self.v)
    class B(db.Entity):
        """many wide rows: one session rewrites all of them (a commit that has to write many pages)"""
        _table_ = 'big'
        gen = Required(int)
        payload = Required(str)
    db.bind('sqlite', path, create_db=True, timeout=0.5, **tr.bind_kwargs())
    E = Env()
    E.db = db; E.T = T; E.U = U; E.H = H; E.B = B
    E.db_session = db_session; E.select = select; E.commit = commit; E.rollback = rollback; E.flush = flush; E.delete = delete
    return E


def make_template(path):
    """the committed state `pre` every case starts from (copied per case)"""
    tr = Tracer()
    E = define(tr, path)
    E.db.generate_mapping(create_tables=True)
    with E.db_session:
        E.db.execute('create table raw_t (a integer primary key, b integer)')
    with E.db_session:
        t1, t2, t3 = E.T(x=1), E.T(x=2, tag='two'), E.T(x=3)
        u1, u2 = E.U(n=1), E.U(n=2)
        t1.us.add(u1); t2.us.add(u1); t2.us.add(u2)
        E.H(v=1)
        E.db.execute('insert into raw_t (a, b) values (1, 10)')
        E.db.execute('insert into raw_t (a, b) values (2, 20)')
    E.db.disconnect()
    con = sqlite3.connect(path, isolation_level=None)
    con.execute('begin')
    con.executemany('insert into big (gen, payload) values (0, ?)', [('a' * BIG_WIDTH,)] * BIG_ROWS)
    con.execute('commit'); con.close()
    tr.cleanup()


def open_case_db(path, tr, warm, warm_program=None):
    """warm_program: the case's own program is first run once in a session that is rolled back, so that every SQL text cache
    of this Database object (database._constructed_sql_cache, the per-entity find/insert/update/delete caches, the
    translator cache) is WARM when the session under test runs: code that does its transaction bookkeeping only on a cache
    miss shows here.  commit steps are replaced by flush; the warm-up stops at the first exception."""
    E = define(tr, path)
    E.db.generate_mapping(create_tables=False, check_tables=False)
    if warm_program is not None:
        try:
            with E.db_session:
                try:
                    st = {}
                    for op in warm_program:
                        if op[0] in ('commit', 'db_commit'): E.flush()
                        elif op[0] in ('raise', 'rollback'): break
                        else: run_op(E, op, st)
                except Exception: pass
                E.rollback()
        except Exception: pass
    if warm:
        with E.db_session: E.select(t for t in E.T)[:]          # leaves an idle connection in the thread's pool
    else:
        E.db.disconnect()
    return E


def snapshot(con):
    """canonical contents of all tables: sorted [key, value] with key = table*KEY_MUL + rowid, value = crc32 of the row"""
    out = []
    for ti, name in enumerate(TABLES):
        # t_u has no integer key: its rowids depend on the iteration order of a Python set inside add_m2m (differs from process
        # to process) - use the pair itself as the row key
        cur = sqlite3.Connection.execute(con, 'select t * 1000 + u, * from t_u order by 1' if name == 't_u' else
                                         'select rowid, * from %s order by rowid' % name)
        for row in cur.fetchall():
            out.append([ti * KEY_MUL + row[0], zlib.crc32(repr(tuple(row[1:])).encode())])
        cur.close()
    return out


def read_file(path):
    con = sqlite3.connect(path, timeout=5.0, isolation_level=None)
    try: return snapshot(con)
    finally: con.close()


def diff(before, after):
    """row writes that turn `before` into `after`"""
    b, a = dict(map(tuple, before)), dict(map(tuple, after))
    ws = [[k, None] for k in sorted(b) if k not in a]
    ws += [[k, a[k]] for k in sorted(a) if b.get(k) != a[k]]
    return ws


# ---------------------------------------------------------------------------------------------------------------------
# programs
# ---------------------------------------------------------------------------------------------------------------------

def run_op(E, op, st):
    k = op[0]
    if k == 'create_T': E.T(x=op[1])
    elif k == 'update_T': E.T[op[1]].x = op[2]
    elif k == 'tag_T': E.T[op[1]].tag = op[2]
    elif k == 'delete_T': E.T[op[1]].delete()
    elif k == 'create_U': E.U(n=op[1])
    # per-object flush: Entity.flush() saves ONE object outside SessionCache.flush (which would set cache.immediate itself)
    elif k == 'oflush_create': E.T(x=op[1]).flush()
    elif k == 'oflush_update':
        t = E.T[op[1]]; t.x = op[2]; t.flush()
    elif k == 'oflush_delete':
        t = E.T[op[1]]; t.delete(); t.flush()
    elif k == 'm2m_add': E.T[op[1]].us.add(E.U[op[2]])
    elif k == 'm2m_remove': E.T[op[1]].us.remove(E.U[op[2]])
    elif k == 'create_H': E.H(v=op[1])
    elif k == 'raw_insert': E.db.execute('insert into raw_t (a, b) values ($a, $b)', {'a': op[1], 'b': op[2]}, {})
    elif k == 'raw_update': E.db.execute('update raw_t set b = $b where a = $a', {'a': op[1], 'b': op[2]}, {})
    elif k == 'raw_delete': E.db.execute('delete from raw_t where a = $a', {'a': op[1]}, {})
    elif k == 'db_insert': E.db.insert('raw_t', a=op[1], b=op[2])
    elif k == 'rawconn_insert':
        # Database.get_connection(): the raw DB-API connection; what is written on it must be inside the session's transaction
        con = E.db.get_connection()
        RAWCONN[0] = True
        try: con.execute('insert into raw_t (a, b) values (?, ?)', (op[1], op[2]))
        finally: RAWCONN[0] = False
    elif k == 'db_insert_ret': E.db.insert('raw_t', returning='a', a=op[1], b=op[2])      # the returning_id branch of Database.insert
    elif k == 'select': E.select(t for t in E.T)[:]
    elif k == 'raw_select': E.db.select('* from raw_t')
    elif k == 'for_update': E.T.get_for_update(id=op[1])
    elif k == 'query_delete':
        x = op[1]
        E.delete(t for t in E.T if t.x == x and not t.us)        # loads the objects and deletes them one by one
    elif k == 'bulk_delete':
        x = op[1]
        E.select(t for t in E.T if t.x == x).delete(bulk=True)   # Query.delete(bulk=True): one DELETE ... WHERE statement
    elif k == 'flush': E.flush()
    elif k == 'commit': E.commit()
    elif k == 'rollback': E.rollback(); st['rollback'] = True
    elif k == 'db_commit': E.db.commit()
    elif k == 'raise': raise BodyError('body')
    elif k == 'try':
        try: run_op(E, op[1], st)
        except Exception: st['swallowed'] = st.get('swallowed', 0) + 1
    else: raise ValueError(op)


FIXED_PROGRAMS = [
    # name, options, program
    ('create', 'optimistic', [['create_T', 10], ['create_T', 11]]),
    ('read_then_write', 'optimistic', [['select'], ['update_T', 1, 100], ['create_T', 12]]),
    ('update_delete', 'optimistic', [['update_T', 2, 7], ['delete_T', 3], ['create_U', 5]]),
    ('m2m', 'optimistic', [['m2m_add', 1, 2], ['m2m_remove', 2, 1], ['create_T', 5]]),
    ('m2m_only', 'optimistic', [['m2m_add', 3, 1], ['m2m_add', 3, 2]]),
    ('delete_linked', 'optimistic', [['delete_T', 2]]),
    ('raw', 'optimistic', [['raw_insert', 5, 50], ['create_T', 9], ['raw_update', 1, 11], ['raw_delete', 2]]),
    ('raw_first', 'optimistic', [['select'], ['raw_insert', 6, 60], ['raw_select'], ['db_insert', 7, 70]]),
    ('raw_after_orm', 'optimistic', [['update_T', 1, 5], ['raw_insert', 8, 80], ['update_T', 2, 6]]),
    ('immediate', 'immediate', [['select'], ['create_T', 20], ['raw_insert', 9, 90]]),
    ('serializable', 'serializable', [['select'], ['update_T', 1, 21], ['m2m_add', 3, 2]]),
    ('pessimistic', 'pessimistic', [['update_T', 1, 22], ['delete_T', 3]]),
    ('nested_flush', 'optimistic', [['create_T', 30], ['flush'], ['create_T', 31], ['select'], ['update_T', 1, 32]]),
    ('hooks', 'optimistic', [['create_H', 2], ['create_H', 3], ['update_T', 1, 33]]),
    ('commit_mid', 'optimistic', [['create_T', 40], ['commit'], ['update_T', 1, 41], ['raw_insert', 10, 1]]),
    ('db_commit_mid', 'optimistic', [['raw_insert', 11, 1], ['db_commit'], ['create_T', 42], ['select']]),
    ('rollback_mid', 'optimistic', [['create_T', 43], ['flush'], ['rollback'], ['create_T', 44]]),
    ('body_raises', 'optimistic', [['create_T', 45], ['flush'], ['raw_insert', 12, 1], ['raise']]),
    ('body_raises_noflush', 'immediate', [['update_T', 1, 46], ['raise']]),
    ('dup_caught', 'optimistic', [['raw_insert', 13, 1], ['try', ['raw_insert', 1, 99]], ['create_T', 47]]),
    ('dup_uncaught', 'optimistic', [['create_T', 48], ['flush'], ['raw_insert', 1, 99]]),
    ('unique_clash', 'optimistic', [['create_T', 49], ['create_U', 1]]),
    ('query_delete', 'optimistic', [['create_T', 3], ['query_delete', 3], ['raw_update', 2, 21]]),
    ('bulk_delete', 'optimistic', [['create_T', 3], ['bulk_delete', 3], ['raw_update', 2, 21]]),
    ('for_update', 'optimistic', [['for_update', 1], ['update_T', 1, 50], ['raw_insert', 14, 1]]),
    ('oflush_delete', 'optimistic', [['oflush_delete', 3], ['create_T', 60], ['raw_insert', 30, 1]]),
    ('oflush_update', 'optimistic', [['oflush_update', 1, 61], ['delete_T', 3]]),
    ('oflush_create', 'optimistic', [['oflush_create', 62], ['update_T', 2, 63]]),
    ('oflush_delete_immediate', 'immediate', [['oflush_delete', 3], ['create_T', 60], ['raw_insert', 30, 1]]),
    ('oflush_update_immediate', 'immediate', [['oflush_update', 1, 61], ['delete_T', 3]]),
    ('oflush_create_immediate', 'immediate', [['oflush_create', 62], ['update_T', 2, 63]]),
    ('oflush_delete_serializable', 'serializable', [['oflush_delete', 3], ['create_T', 60], ['raw_insert', 30, 1]]),
    ('oflush_update_serializable', 'serializable', [['oflush_update', 1, 61], ['delete_T', 3]]),
    ('oflush_create_serializable', 'serializable', [['oflush_create', 62], ['update_T', 2, 63]]),
    ('oflush_delete_pessimistic', 'pessimistic', [['oflush_delete', 3], ['create_T', 60], ['raw_insert', 30, 1]]),
    ('oflush_update_pessimistic', 'pessimistic', [['oflush_update', 1, 61], ['delete_T', 3]]),
    ('oflush_create_pessimistic', 'pessimistic', [['oflush_create', 62], ['update_T', 2, 63]]),
    ('oflush_delete_linked', 'optimistic', [['select'], ['oflush_delete', 2], ['m2m_add', 1, 2]]),
    ('oflush_delete_raise', 'optimistic', [['oflush_delete', 3], ['raise']]),
    ('oflush_update_rollback', 'optimistic', [['oflush_update', 1, 64], ['rollback'], ['oflush_create', 65]]),
    ('oflush_delete_only', 'optimistic', [['oflush_delete', 3]]),
    ('oflush_all', 'optimistic', [['oflush_delete', 3], ['oflush_update', 1, 66], ['oflush_create', 67], ['commit'], ['oflush_delete', 1]]),
    ('bulk_first', 'optimistic', [['bulk_delete', 3], ['create_T', 70], ['raw_insert', 31, 1]]),
    ('bulk_first_immediate', 'immediate', [['bulk_delete', 3], ['create_T', 70], ['raw_insert', 31, 1]]),
    ('bulk_first_serializable', 'serializable', [['bulk_delete', 3], ['create_T', 70], ['raw_insert', 31, 1]]),
    ('bulk_first_pessimistic', 'pessimistic', [['bulk_delete', 3], ['create_T', 70], ['raw_insert', 31, 1]]),
    ('bulk_first_raise', 'optimistic', [['bulk_delete', 3], ['raise']]),
    ('bulk_first_rollback', 'optimistic', [['bulk_delete', 3], ['rollback'], ['create_T', 71]]),
    ('bulk_after_select', 'optimistic', [['select'], ['bulk_delete', 3], ['update_T', 1, 72]]),
    ('bulk_only', 'optimistic', [['bulk_delete', 3]]),
    ('bulk_then_dup', 'optimistic', [['bulk_delete', 3], ['raw_insert', 1, 99]]),
    ('db_insert_first', 'optimistic', [['db_insert', 40, 1], ['create_T', 73]]),
    ('db_insert_only', 'optimistic', [['db_insert', 41, 1]]),
    ('db_insert_ret_first', 'optimistic', [['db_insert_ret', 42, 1], ['update_T', 1, 74]]),
    ('rawconn_after_read', 'optimistic', [['select'], ['rawconn_insert', 50, 1], ['create_T', 75]]),
    ('rawconn_after_read_immediate', 'immediate', [['select'], ['rawconn_insert', 50, 1], ['create_T', 75]]),
    ('rawconn_after_read_serializable', 'serializable', [['select'], ['rawconn_insert', 50, 1], ['create_T', 75]]),
    ('rawconn_after_read_pessimistic', 'pessimistic', [['select'], ['rawconn_insert', 50, 1], ['create_T', 75]]),
    ('rawconn_after_commit', 'optimistic', [['create_T', 76], ['commit'], ['rawconn_insert', 51, 1], ['update_T', 1, 77]]),
    ('rawconn_first', 'optimistic', [['rawconn_insert', 52, 1], ['create_T', 78]]),
    ('rawconn_read_only', 'optimistic', [['select'], ['rawconn_insert', 53, 1]]),
    ('rawconn_raise', 'optimistic', [['raw_select'], ['rawconn_insert', 54, 1], ['raise']]),
    ('rawconn_dup', 'optimistic', [['select'], ['rawconn_insert', 55, 1], ['raw_insert', 1, 99]]),
    ('ddl_writes', 'ddl', [['raw_insert', 61, 1], ['create_T', 80]]),
    ('ddl_commit_mid', 'ddl', [['raw_insert', 62, 1], ['commit'], ['create_T', 81], ['select']]),
    ('ddl_read_write', 'ddl', [['select'], ['update_T', 1, 82], ['m2m_add', 3, 2]]),
    ('ddl_raise', 'ddl', [['raw_update', 1, 12], ['raise']]),
    # the error is CAUGHT inside the session and the session goes on (retry-on-locked pattern), then more writes, then a failure
    ('retry_first_write', 'optimistic', [['try', ['raw_insert', 70, 1]], ['raw_insert', 71, 1], ['create_T', 90], ['raise']]),
    ('retry_after_read', 'optimistic', [['select'], ['try', ['raw_update', 1, 13]], ['raw_update', 2, 23], ['create_T', 91], ['raise']]),
    ('retry_after_read_ok', 'optimistic', [['select'], ['try', ['raw_insert', 72, 1]], ['raw_insert', 73, 1], ['update_T', 1, 94]]),
    ('retry_flush', 'optimistic', [['select'], ['create_T', 92], ['try', ['flush']], ['flush'], ['raw_insert', 74, 1], ['raise']]),
    ('retry_oflush', 'optimistic', [['select'], ['try', ['oflush_update', 1, 95]], ['oflush_create', 93], ['raw_insert', 1, 99]]),
    ('retry_bulk', 'optimistic', [['raw_select'], ['try', ['bulk_delete', 3]], ['bulk_delete', 3], ['create_T', 94], ['raise']]),
    ('retry_rawconn', 'optimistic', [['select'], ['try', ['rawconn_insert', 75, 1]], ['rawconn_insert', 76, 1], ['raise']]),
    ('retry_after_commit', 'optimistic', [['create_T', 95], ['commit'], ['try', ['raw_insert', 77, 1]], ['raw_insert', 78, 1], ['raise']]),
    ('retry_for_update', 'optimistic', [['select'], ['try', ['for_update', 1]], ['update_T', 1, 96], ['raw_insert', 1, 99]]),
    ('read_only', 'optimistic', [['select'], ['raw_select']]),
    ('empty', 'immediate', []),
]


def random_program(rng):
    ts, us, raws = [1, 2, 3], [1, 2], [1, 2]
    links = {(1, 1), (2, 1), (2, 2)}
    next_t, next_raw, next_n = 4, 20, 10
    prog = []
    n = rng.randint(2, 8)
    for _ in range(n):
        r = rng.random()
        if rng.random() < 0.12:
            q = rng.random()
            if q < 0.34: prog.append(['oflush_create', rng.randint(0, 9)]); ts.append(next_t); next_t += 1
            elif q < 0.67 and ts: prog.append(['oflush_update', rng.choice(ts), rng.randint(200, 299)])
            elif ts:
                t = rng.choice(ts); prog.append(['oflush_delete', t]); ts.remove(t); links = {l for l in links if l[0] != t}
        elif r < 0.16:
            prog.append(['create_T', rng.randint(0, 9)]); ts.append(next_t); next_t += 1
        elif r < 0.30 and ts:
            prog.append(['update_T', rng.choice(ts), rng.randint(50, 99)])
        elif r < 0.36 and ts:
            t = rng.choice(ts); prog.append(['delete_T', t]); ts.remove(t); links = {l for l in links if l[0] != t}
        elif r < 0.44 and ts:
            cand = [(t, u) for t in ts for u in us if (t, u) not in links and t <= 3 and u <= 2]
            if cand:
                t, u = rng.choice(cand); prog.append(['m2m_add', t, u]); links.add((t, u))
        elif r < 0.50:
            cand = [l for l in links if l[0] in ts]
            if cand:
                l = rng.choice(sorted(cand)); prog.append(['m2m_remove', l[0], l[1]]); links.discard(l)
        elif r < 0.57:
            prog.append(['raw_insert', next_raw, rng.randint(0, 9)]); raws.append(next_raw); next_raw += 1
        elif r < 0.60:
            prog.append(['rawconn_insert', next_raw, rng.randint(0, 9)]); raws.append(next_raw); next_raw += 1
        elif r < 0.66 and raws:
            prog.append(['raw_update', rng.choice(raws), rng.randint(100, 199)])
        elif r < 0.70 and raws:
            a = rng.choice(raws); prog.append(['raw_delete', a]); raws.remove(a)
        elif r < 0.74:
            prog.append(['db_insert', next_raw, 5]); raws.append(next_raw); next_raw += 1
        elif r < 0.80:
            prog.append(['select'] if rng.random() < 0.6 else ['raw_select'])
        elif r < 0.84:
            prog.append(['flush'])
        elif r < 0.88:
            prog.append(['commit'] if rng.random() < 0.7 else ['db_commit'])
        elif r < 0.91:
            prog.append(['create_H', rng.randint(2, 5)])
        elif r < 0.94:
            prog.append(['try', ['raw_insert', 1, 99]])
        elif r < 0.96:
            prog.append(['create_U', next_n]); next_n += 1
        elif r < 0.965 and ts:
            prog.append(['for_update', rng.choice(ts)])
        else:
            prog.append([rng.choice(['bulk_delete', 'bulk_delete', 'query_delete']), rng.randint(0, 9)])
    for i in range(len(prog)):
        if prog[i][0] not in ('try', 'raise', 'rollback', 'commit', 'db_commit') and rng.random() < 0.12: prog[i] = ['try', prog[i]]
    if rng.random() < 0.08: prog.append(['raise'])
    return prog


# ---------------------------------------------------------------------------------------------------------------------
# one real run
# ---------------------------------------------------------------------------------------------------------------------

def fault_of(base, f):
    """f = [relative index, exception class name, moment]; moment None = the default of harness/tracing.py: the call raises
    INSTEAD of being performed, except `close`, which really closes the handle and then raises (a `close` that leaves the
    handle open is outside the model: `exec` lets every close end the connection)"""
    return Fault(index=base + f[0], exc=EXC_BY_NAME[f[1]], when=f[2])


def run_case(template, workdir, case):
    """runs `case` on a private copy of the template database, in the CURRENT thread; returns the observation dict"""
    path = os.path.join(workdir, 'c%d.sqlite' % case['id'])
    for ext in ('', '-journal', '-wal', '-shm'):
        if os.path.exists(path + ext): os.remove(path + ext)
    shutil.copyfile(template, path)
    tr = Tracer()
    E = open_case_db(path, tr, case['warm'], case['program'] if case.get('sqlwarm') else None)
    obs_con = sqlite3.connect(path, timeout=5.0, isolation_level=None, check_same_thread=False)
    base = tr.next_index
    mark = tr.mark()
    rec = []          # per DB-API call of the session: dict(visible=…, own=…)
    pre = read_file(path)
    state = {'own_con': None}

    def after(ev):
        if ev['i'] is None: return
        r = {'visible': None, 'own': None}
        if ev['call'] != 'cursor':
            r['visible'] = snapshot(obs_con)
            con = tr.connections[ev['con']] if ev['con'] is not None else None
            if con is not None and tr.is_open(con):
                try: r['own'] = snapshot(con)
                except sqlite3.Error as e: r['own_error'] = repr(e)
            else: r['own'] = r['visible']
        rec.append(r)

    tr.before_call.append(lambda ev: attribute(ev))
    tr.after_call.append(after)
    tr.set_faults([fault_of(base, f) for f in case['faults']])
    st = {}
    exc = None
    try:
        with E.db_session(**SESSION_OPTS[case['opts']]):
            for si_, op in enumerate(case['program']):
                STEP[0], STEP[1] = si_, op[0] == 'try'
                run_op(E, op, st)
    except BaseException as e:
        exc = e
    tr.clear_faults()
    del tr.before_call[:]; del tr.after_call[:]
    events = tr.since(mark)
    out = {'pre': pre, 'exc': type(exc).__name__ if exc is not None else None, 'exc_text': repr(exc)[:300] if exc is not None else None,
           'rollback_op': bool(st.get('rollback')), 'swallowed': st.get('swallowed', 0),
           'events': [{'call': e['call'], 'kind': e['kind'], 'con': e['con'], 'outcome': e['outcome'], 'injected': e['injected'],
                       'sql': (e['sql'] or '')[:60], 'entry': e.get('entry'), 'flush_id': e.get('flush_id'), 'in_commit': e.get('in_commit'), 'locking': e.get('locking'), 'auto_flush': e.get('auto_flush'), 'step': e.get('step'), 'caught': bool(e.get('caught')),
                       'stack': e.get('stack')} for e in events if e['i'] is not None],
           'rec': rec}
    moments = {f[0]: f[2] for f in case['faults']}
    for i, e in enumerate(out['events']):
        e['performed'] = e['outcome'] == 'ok' or (e['injected'] and (moments.get(i) or ('after' if e['call'] == 'close' else 'before')) == 'after')
    obs_con.close()
    try: E.db.disconnect()
    except Exception: pass
    tr.cleanup()
    out['final'] = read_file(path)
    for ext in ('', '-journal', '-wal', '-shm'):
        if os.path.exists(path + ext):
            try: os.remove(path + ext)
            except OSError: pass
    return out


def run_case_thread(template, workdir, case):
    """fresh thread per case: Pony's thread-local session state and pool start empty"""
    box = {}
    def target():
        try: box['r'] = run_case(template, workdir, case)
        except BaseException: box['crash'] = traceback.format_exc()
    t = threading.Thread(target=target, name='c17-case-%d' % case['id'], daemon=True)
    t.start(); t.join(60)
    if t.is_alive(): return {'crash': 'case thread did not finish within 60 s'}
    return box.get('r') or {'crash': box.get('crash', 'no result')}


def kill_case(template, workdir, case, kill):
    """fork a child that runs the session and is killed by SIGKILL at the given call; the parent (another process)
    reads the file afterwards"""
    path = os.path.join(workdir, 'c%d.sqlite' % case['id'])
    sys.stdout.flush(); sys.stderr.flush()
    pid = os.fork()
    if pid == 0:
        code = 3
        try:
            _child_session(template, path, case, kill)
            code = 0
        except BaseException:
            code = 4
        finally:
            os._exit(code)
    _, status = os.waitpid(pid, 0)
    killed = os.WIFSIGNALED(status) and os.WTERMSIG(status) == signal.SIGKILL
    res = {'killed': killed, 'exit': os.WEXITSTATUS(status) if os.WIFEXITED(status) else None,
           'journal_left': os.path.exists(path + '-journal')}
    res['final'] = read_file(path)
    res['final_again'] = read_file(path)
    for ext in ('', '-journal', '-wal', '-shm'):
        if os.path.exists(path + ext):
            try: os.remove(path + ext)
            except OSError: pass
    return res


def timed_kill_case(template, workdir, case_id, delay):
    """all-or-nothing at an ARBITRARY instant (also inside COMMIT): a child rewrites every row of `big` in one session per
    generation, again and again; it is killed by SIGKILL `delay` seconds after its first commit; every row the parent
    then reads must carry the same generation"""
    path = os.path.join(workdir, 'big%d.sqlite' % case_id)
    shutil.copyfile(template, path)
    r, w = os.pipe()
    sys.stdout.flush(); sys.stderr.flush()
    pid = os.fork()
    if pid == 0:
        try:
            os.close(r)
            tr = Tracer()
            E = define(tr, path)
            E.db.generate_mapping(create_tables=False, check_tables=False)
            for gen in range(1, 100000):
                with E.db_session:
                    # tiny page cache: SQLite has to spill modified pages into the database file in the MIDDLE of the
                    # transaction, so a kill at any instant finds a partly rewritten file that only the journal can undo
                    if gen == 1: E.db.get_connection().execute('PRAGMA cache_size = 4')
                    for b in E.B.select():
                        b.gen = gen; b.payload = chr(97 + gen % 26) * BIG_WIDTH
                if gen == 1: os.write(w, b'x')
        finally:
            os._exit(5)
    os.close(w)
    os.read(r, 1); os.close(r)
    time.sleep(delay)
    os.kill(pid, signal.SIGKILL)
    os.waitpid(pid, 0)
    journal = os.path.exists(path + '-journal')
    con = sqlite3.connect(path, timeout=5.0, isolation_level=None)
    rows = con.execute('select gen, substr(payload, 1, 1), length(payload), count(*) from big group by 1, 2, 3').fetchall()
    con.close()
    for ext in ('', '-journal'):
        if os.path.exists(path + ext): os.remove(path + ext)
    return {'groups': [list(x) for x in rows], 'journal_left': journal}


def _child_session(template, path, case, kill):
    for ext in ('', '-journal', '-wal', '-shm'):
        if os.path.exists(path + ext): os.remove(path + ext)
    shutil.copyfile(template, path)
    tr = Tracer()
    E = open_case_db(path, tr, case['warm'], case['program'] if case.get('sqlwarm') else None)
    base = tr.next_index
    def before(ev):
        if kill[0] == 'before' and ev['i'] == base + kill[1]: os.kill(os.getpid(), signal.SIGKILL)
    def after(ev):
        if kill[0] == 'after' and ev['i'] == base + kill[1]: os.kill(os.getpid(), signal.SIGKILL)
    tr.before_call.append(before); tr.after_call.append(after)
    st = {}
    try:
        with E.db_session(**SESSION_OPTS[case['opts']]):
            for si_, op in enumerate(case['program']):
                STEP[0], STEP[1] = si_, op[0] == 'try'
                run_op(E, op, st)
    except Exception:
        pass


# ---------------------------------------------------------------------------------------------------------------------
# write entry points: which function of pony/orm/core.py sends each statement (Python stack at the DB-API call)
# ---------------------------------------------------------------------------------------------------------------------

STEP = [None, False]       # [index of the program step being run, it sits inside the user's try/except]
RAWCONN = [False]          # a write on the connection returned by Database.get_connection() is under way (set by run_op)
ENTRY_BY_QUALNAME = {'Database.execute': 'dbExecute', 'Database.insert': 'dbInsert', 'Entity._save_created_': 'saveCreated',
                     'Entity._save_updated_': 'saveUpdated', 'Entity._save_deleted_': 'saveDeleted', 'Set.remove_m2m': 'm2mRemove',
                     'Set.add_m2m': 'm2mAdd', 'Query.delete': 'bulkDelete'}
COMMIT_FRAMES = ('commit', 'SessionCache.flush_and_commit', 'Database.commit', 'DBSessionContextManager._commit_or_rollback')


def attribute(ev):
    """annotate a DB-API call with the innermost write entry point on the stack, the enclosing SessionCache.flush call (id)
    and whether a commit is in progress"""
    if ev['i'] is None: return
    ev['step'], ev['caught'] = STEP[0], STEP[1]          # every DB-API call knows its program step (connect, cursor, commit ... too)
    if ev['call'] not in ('execute', 'executemany'): return
    f = sys._getframe(1)
    chain = []
    while f is not None:
        co = f.f_code
        if co.co_filename.endswith(os.path.join('pony', 'orm', 'core.py')):
            q = getattr(co, 'co_qualname', co.co_name)
            chain.append(q)
            if ev.get('entry') is None and q in ENTRY_BY_QUALNAME: ev['entry'] = ENTRY_BY_QUALNAME[q]
            if q == 'SessionCache.flush' and ev.get('flush_id') is None: ev['flush_id'] = id(f)
            if q in COMMIT_FRAMES: ev['in_commit'] = True
            if q == 'SessionCache.prepare_connection_for_query_execution' and ev.get('flush_id') is not None: ev['auto_flush'] = True
            if q == 'EntityMeta._find_in_db_' and f.f_locals.get('for_update'): ev['locking'] = True
            if q == 'Query._actual_fetch' and getattr(f.f_locals.get('query'), '_for_update', False): ev['locking'] = True
        f = f.f_back
    if RAWCONN[0] and ev.get('entry') is None: ev['entry'] = 'rawConn'
    ev['step'], ev['caught'] = STEP[0], STEP[1]
    ev['stack'] = chain[:6]


def emit_request(case, obs):
    """the fault-free real run as a program of Model/TxnEmit.lean (ops reconstructed from the calls and their stacks) and the
    projection of the real calls the model's output is compared with; None when the run is not fault-free"""
    if case['faults'] or obs['exc'] is not None or obs['swallowed'] or obs['rollback_op']: return None
    if any(e['outcome'] != 'ok' for e in obs['events']): return None
    prog, real = [], []
    cur = None                       # open flush group: [flush_id, in_commit, entries, auto-flush inside prepare_connection, in user's try/except]
    def close_group(then=None):
        """then: the statement whose prepare_connection ran this flush (auto-flush), as ['query'|'lockQuery'] or ['direct', entry]"""
        nonlocal cur
        if cur is not None:
            if cur[3] and then is not None:
                if then[0] == 'direct': prog.append([['flushDirect', cur[2], then[1]], cur[4]])
                else: prog.append([['flushQuery', cur[2], then[0] == 'lockQuery'], cur[4]])
                cur = None
                return True
            prog.append([['commit' if cur[1] else 'flush', cur[2]], cur[4]]); cur = None
        return False
    for e in obs['events']:
        call, kind = e['call'], e['kind']
        if call == 'cursor' or (kind or '').startswith('pragma'): continue
        if call == 'connect': real.append(['connect', True]); continue
        if call in ('rollback', 'close'): real.append([call, True]); continue
        if call == 'commit':
            real.append(['commit', True])
            if cur is not None and cur[1]: close_group()
            else:
                close_group(); prog.append([['commit', []], bool(e.get('caught'))])
            continue
        if kind == 'begin': real.append(['begin', True]); continue
        write = call == 'executemany' or kind in ('insert', 'update', 'delete')
        real.append(['write' if write else 'read', True])
        if not write:
            if e['flush_id'] is None:
                q = ['lockQuery' if e.get('locking') else 'query']
                if not close_group(q): prog.append([q, bool(e.get('caught'))])
            else:
                return None          # a query from a hook inside flush: not an op of the model
            continue
        if e['entry'] is None: return 'unknown-entry'
        if e['flush_id'] is not None:
            if cur is None or cur[0] != e['flush_id']:
                close_group(); cur = [e['flush_id'], bool(e['in_commit']), [], bool(e.get('auto_flush')), bool(e.get('caught'))]
            cur[2].append(e['entry'])
        else:
            if not close_group(['direct', e['entry']]): prog.append([['direct', e['entry']], bool(e.get('caught'))])
    close_group()
    si = SESSION_OPTS[case['opts']] != {}
    return {'op': 'emit', 'si': si, 'ddl': case['opts'] == 'ddl', 'pool': bool(case['warm']), 'bodyRaises': False, 'faults': [], 'prog': prog}, real


# program steps that only send one statement and leave nothing behind in the session's memory when they fail: a swallowed failure of any
# other step (an ORM load that is not cached, an object left unsaved, a modification that did not happen) changes what later flushes send
PURE_STATEMENT_STEPS = ('raw_insert', 'raw_update', 'raw_delete', 'db_insert', 'db_insert_ret', 'raw_select', 'rawconn_insert', 'bulk_delete')
STMT_LEVEL = ('connect', 'begin', 'read', 'write', 'commit', 'rollback', 'close')


def project_events(obs):
    """the real calls in the alphabet of the emitter: [[kind, ok]..]; None when a call the emitter does not have (cursor(),
    a PRAGMA of a new connection) failed"""
    out = []
    for e in obs['events']:
        call, kind, ok = e['call'], e['kind'], e['outcome'] == 'ok'
        if call == 'cursor' or (kind or '').startswith('pragma'):
            if not ok: return None
            continue
        if call in ('connect', 'commit', 'rollback', 'close'): out.append([call, ok])
        elif kind == 'begin': out.append(['begin', ok])
        else: out.append(['write' if (call == 'executemany' or kind in ('insert', 'update', 'delete')) else 'read', ok])
    return out


def emit_request_fault(case, obs, base_req, parent_obs):
    """a run with injected faults against the emitter: the program is the one reconstructed from the fault-free parent run, the
    failure oracle is "the k-th statement-level call raises" read off the real run (close() never asks the oracle)"""
    if any(f[2] == 'after' or f[1] in FOREIGN for f in case['faults']): return None
    if obs['swallowed']:
        # the user's try/except swallowed a failure and the session went on.  Comparable only when the program step that failed is a
        # single-statement step without ORM state (raw statement, db.insert, raw write on get_connection(), bulk delete, raw SELECT): a step of several statements that is cut short,
        # or a failed flush, leaves other work undone, so the later flushes of this run differ from the fault-free parent's
        for e in obs['events']:
            if e['outcome'] != 'ok' and e.get('caught'):
                step = case['program'][e['step']] if e.get('step') is not None and e['step'] < len(case['program']) else None
                if step is None or step[0] != 'try' or step[1][0] not in PURE_STATEMENT_STEPS: return None
                own = [p for p in parent_obs['events'] if p.get('step') == e.get('step') and p['call'] in ('execute', 'executemany')
                       and not (p['kind'] or '').startswith(('pragma', 'begin'))]
                if len(own) != 1 or own[0].get('flush_id') is not None: return None
    real = project_events(obs)
    if real is None: return None
    if any(e['call'] == 'close' and e['outcome'] != 'ok' for e in obs['events']): return None
    faults, k = [], 0
    for kind, ok in real:
        if kind == 'close': continue
        if not ok: faults.append(k)
        k += 1
    if not faults: return None
    return dict(base_req, faults=faults), real


# ---------------------------------------------------------------------------------------------------------------------
# oracle on the real observations
# ---------------------------------------------------------------------------------------------------------------------

def boundaries_of(obs):
    """the states a reader may see: `pre` and the own view at every performed commit (from the real run)"""
    bs = [obs['pre']]
    own = obs['pre']
    for e, r in zip(obs['events'], obs['rec']):
        if e['call'] == 'commit' and e['performed'] and own != bs[-1]: bs.append(own)
        if r['own'] is not None: own = r['own']
    return bs


def oracle(case, obs):
    problems = []
    vis, own = obs['pre'], obs['pre']
    for i, (e, r) in enumerate(zip(obs['events'], obs['rec'])):
        if r['visible'] is None: continue                 # cursor()
        if e['call'] == 'commit' and e['performed']:
            if r['visible'] != own:
                problems.append(('commit-partial', 'after the commit at call %d other connections do not see exactly the session\'s changes' % i,
                                 {'visible': r['visible'], 'own_before_commit': own}))
        elif r['visible'] != vis:
            problems.append(('visible-before-commit', 'call %d (%s %s) changed what other connections read although it is not a commit: '
                             'the write is outside the session\'s transaction' % (i, e['call'], e['kind']),
                             {'before': vis, 'after': r['visible'], 'sql': e['sql']}))
        if e['call'] in ('rollback', 'close') and e['performed'] and own != vis and obs['exc'] is None and not obs['rollback_op']:
            problems.append(('lost-write', 'call %d (%s) discarded pending changes of a session that ended normally' % (i, e['call']),
                             {'own': own, 'visible': vis}))
        vis = r['visible']
        if r['own'] is not None: own = r['own']
        if r.get('own_error'): problems.append(('harness', 'own view unreadable: %s' % r['own_error'], None))
    if obs['final'] != vis:
        problems.append(('final-differs', 'the file read after the session differs from the last state other connections saw', {'final': obs['final'], 'last_visible': vis}))
    if obs['final'] not in boundaries_of(obs):
        problems.append(('not-a-boundary', 'the file holds neither the state before the session nor the state at one of its commits',
                         {'final': obs['final'], 'boundaries': boundaries_of(obs)}))
    return problems


# ---------------------------------------------------------------------------------------------------------------------
# model side
# ---------------------------------------------------------------------------------------------------------------------

def model_events(obs):
    """the recorded calls in the alphabet of Model/TxnProtocol.lean; returns (events, index map real->model)"""
    evs, idx = [], []
    own = obs['pre']
    for i, (e, r) in enumerate(zip(obs['events'], obs['rec'])):
        call, kind, ok = e['call'], e['kind'], e['performed']
        if call == 'cursor':
            if not ok: evs.append(['read', False]); idx.append(i)
            continue
        if call == 'connect': m = ['connect', ok]
        elif call in ('commit', 'rollback', 'close'): m = [call, ok]
        elif call == 'executemany' or kind in ('insert', 'update', 'delete', 'ddl', 'other'):
            m = ['write', ok, diff(own, r['own']) if (ok and r['own'] is not None) else []]
        elif kind == 'begin': m = ['begin', ok]
        elif kind == 'commit_sql': m = ['commit', ok]
        elif kind == 'rollback_sql': m = ['rollback', ok]
        else: m = ['read', ok]
        evs.append(m); idx.append(i)
        if r['own'] is not None: own = r['own']
    return evs, idx


def check_model(ctx, case, obs, m):
    cj = case_json(case)
    if 'driver_error' in m:
        ctx.divergence('driver error', cj, model=m); return False
    evs, idx = obs['model_events'], obs['model_idx']
    ok = True
    if not m['accepted']:
        ok = False
        i = m['rejectedAt']
        ctx.divergence('the recorded statement trace is not a word of L (rejected at model event %s = %r)' % (i, evs[i] if i is not None else None),
                       cj, model={'phases': m['phases']}, impl=[[e['call'], e['kind'], e['outcome']] for e in obs['events']])
    n = min(len(m['committed']), len(idx))
    for j in range(n):
        r = obs['rec'][idx[j]]
        if r['visible'] is None: continue
        if m['committed'][j] != r['visible'] or (r['own'] is not None and m['own'][j] != r['own']):
            ok = False
            ctx.divergence('database model and real SQLite disagree after model event %d %r' % (j, evs[j][:2]), cj,
                           model={'committed': m['committed'][j], 'own': m['own'][j]}, impl={'visible': r['visible'], 'own': r['own']})
            break
    if m['accepted']:
        if not m['complete']:
            ok = False
            ctx.divergence('the session ended with its transaction still open according to the model', cj, model=m['phases'][-3:])
        if obs['final'] not in m['boundaries']:
            ok = False
            ctx.divergence('final file contents are not one of the model\'s transaction boundaries', cj, model=m['boundaries'], impl=obs['final'])
    return ok


def case_json(case):
    return {'program': case['program'], 'opts': case['opts'], 'warm': case['warm'], 'sqlwarm': bool(case.get('sqlwarm')), 'faults': case['faults'], 'kill': case.get('kill')}


def case_key(kind, case):
    return '%s:%s' % (kind, json.dumps([case['program'], case['opts'], case['warm'], bool(case.get('sqlwarm')), [[f[0], f[2]] for f in case['faults']], case.get('kill')],
                                       separators=(',', ':')))


# ---------------------------------------------------------------------------------------------------------------------
# PostgreSQL: autocommit switching of PGProvider.set_transaction_mode / PGPool.release on a FAKE connection (no server)
# ---------------------------------------------------------------------------------------------------------------------

class PGFault(Exception): pass


def pg_setup():
    """real PGProvider / PGPool / SessionCache over a fake psycopg2 connection that records what it is asked to do"""
    ponyutil.add_stubs()
    import psycopg2
    from pony.orm import Database, Required, Set, db_session, select, commit, rollback, flush
    rec = {'log': [], 'n': 0, 'fail': {}}
    def call(kind, *info):
        i = rec['n']; rec['n'] += 1
        exc = rec['fail'].get(i)
        rec['log'].append([kind, exc is None] + list(info))
        if exc is not None:
            e = getattr(psycopg2, exc[0])('injected'); e.pgcode = exc[1]
            raise e
    class FakeCursor(object):
        def __init__(self, con): self.con = con; self.description = (('c', None, None, None, None, None, None),); self.rowcount = 1; self._rows = []
        def execute(self, sql, args=None):
            call('execute', ' '.join(sql.split()), self.con._autocommit)
            self.con.next_id += 1
            self._rows = [(self.con.next_id,)] if 'RETURNING' in sql.upper() else []
        def executemany(self, sql, seq): call('executemany', ' '.join(sql.split()), self.con._autocommit)
        def fetchone(self): return self._rows.pop(0) if self._rows else None
        def fetchall(self): r, self._rows = self._rows, []; return r
        def fetchmany(self, n): r, self._rows = self._rows[:n], self._rows[n:]; return r
        def close(self): pass
    class FakeCon(object):
        server_version = 90600
        def __init__(self): self._autocommit = False; self.next_id = 100; call('connect')
        autocommit = property(lambda self: self._autocommit)
        @autocommit.setter
        def autocommit(self, v): rec['log'].append(['autocommit', True, v]); self._autocommit = v
        def set_client_encoding(self, e): pass
        def cursor(self): return FakeCursor(self)
        def commit(self): call('commit')
        def rollback(self): call('rollback')
        def close(self): rec['log'].append(['close', True])
    psycopg2.connect = lambda *a, **k: FakeCon()
    db = Database()
    class T(db.Entity):
        _table_ = 't'
        x = Required(int)
        us = Set('U', table='t_u')
    class U(db.Entity):
        _table_ = 'u'
        n = Required(int, unique=True)
        ts = Set(T)
    db.bind('postgres', user='u', password='p', host='h', database='d')
    db.generate_mapping(create_tables=False, check_tables=False)
    E = Env()
    E.db = db; E.T = T; E.U = U; E.H = None; E.db_session = db_session; E.select = select
    E.commit = commit; E.rollback = rollback; E.flush = flush; E.delete = None
    return E, rec


PG_OPS = ['create_T', 'oflush_create', 'create_U', 'raw_insert', 'raw_update', 'raw_delete', 'db_insert', 'select', 'raw_select', 'flush',
          'commit', 'db_commit', 'rollback']


def pg_program(rng):
    prog = []
    for _ in range(rng.randint(1, 6)):
        k = rng.choice(PG_OPS)
        if k in ('create_T', 'oflush_create'): prog.append([k, rng.randint(0, 9)])
        elif k == 'create_U': prog.append([k, rng.randint(10, 10 ** 6)])
        elif k in ('raw_insert', 'raw_update', 'db_insert'): prog.append([k, rng.randint(1, 99), 1])
        elif k == 'raw_delete': prog.append([k, 1])
        else: prog.append([k])
    if rng.random() < 0.3: prog.insert(rng.randint(0, len(prog)), ['m2m'])
    if rng.random() < 0.1: prog.append(['raise'])
    return prog


def pg_run_op(E, op, st):
    if op[0] == 'm2m':
        t = E.T(x=1); u = E.U(n=st.setdefault('n', 0) + 10 ** 7); st['n'] += 1; t.us.add(u)
    else: run_op(E, op, st)


def pg_translate(log, start_open):
    """fake-connection log -> alphabet of Model/TxnProtocol.lean.  PostgreSQL opens a transaction implicitly with the first
    statement sent while autocommit is off: an explicit `begin` is inserted there; a statement sent while autocommit is on
    is passed as it is (a write then leaves L).  Returns (events, problems)"""
    evs, problems = [], []
    auto, opened = False, start_open
    for e in log:
        kind, ok = e[0], e[1]
        if kind == 'autocommit':
            if e[2] and opened: problems.append('autocommit switched on inside an open transaction')
            auto = e[2]
        elif kind == 'connect':
            evs.append(['connect', ok]); auto, opened = False, False
        elif kind in ('execute', 'executemany'):
            sql = e[2].upper()
            write = kind == 'executemany' or sql.split(' ', 1)[0] in ('INSERT', 'UPDATE', 'DELETE')
            if not e[3] and not opened:
                evs.append(['begin', True]); opened = True
            evs.append(['write', ok, []] if write else ['read', ok])
        elif kind in ('commit', 'rollback'):
            evs.append([kind, ok])
            if ok: opened = False
        elif kind == 'close':
            evs.append(['close', True]); opened = False
    return evs, problems


def pg_part(ctx):
    try:
        E, rec = pg_setup()
    except Exception as e:
        ctx.note('PostgreSQL provider not importable offline: %r' % (e,)); return
    rng = ctx.rng
    progs = [[['create_T', 1]], [['select'], ['create_T', 1], ['raw_insert', 1, 1]], [['raw_insert', 1, 1], ['create_T', 2]], [['m2m']],
             [['create_T', 1], ['commit'], ['raw_update', 1, 2]], [['select'], ['raw_select']], [['create_T', 1], ['flush'], ['raise']],
             [['create_T', 1], ['flush'], ['rollback'], ['create_T', 2]]]
    progs += [pg_program(rng) for _ in range(ctx.scale(25, 200))]
    cases = []
    for prog in progs:
        for mode in PG_MODES: cases.append((prog, mode, {}))
    reqs, meta = [], []
    def one(prog, mode, fail):
        rec['log'] = []; rec['n'] = 0; rec['fail'] = dict(fail)
        pool = E.db.provider.pool
        phase = 'auto' if getattr(pool, 'con', None) is not None else 'idle'
        st = {}
        exc = None
        try:
            with E.db_session(**SESSION_OPTS[mode]):
                for op in prog: pg_run_op(E, op, st)
        except Exception as e: exc = e
        rec['fail'] = {}
        log, ncalls = rec['log'], rec['n']
        evs, problems = pg_translate(log, False)
        return phase, evs, problems, ncalls, type(exc).__name__ if exc is not None else None
    for prog, mode, _ in cases:
        phase, evs, problems, n, exc = one(prog, mode, {})
        reqs.append({'op': 'run', 'phase': phase, 'pre': [], 'events': evs}); meta.append((prog, mode, {}, problems, exc))
        ks = range(n) if ctx.thorough or len(prog) <= 2 else sorted(rng.sample(range(n), min(n, 3)))
        for k in ks:
            for excinfo in (('OperationalError', None), ('IntegrityError', '23505')):      # the first makes should_reconnect() true
                if excinfo[0] == 'IntegrityError' and not ctx.thorough and k % 2: continue
                phase, evs, problems, _, exc = one(prog, mode, {k: excinfo})
                reqs.append({'op': 'run', 'phase': phase, 'pre': [], 'events': evs}); meta.append((prog, mode, {k: excinfo[0]}, problems, exc))
    try: E.db.disconnect()
    except Exception: pass
    if not ctx.driver.ok: return
    outs = ctx.driver('C17', reqs)
    for (prog, mode, fail, problems, exc), rq, m in zip(meta, reqs, outs):
        cj = {'pg_program': prog, 'opts': mode, 'pg_faults': {str(k): v for k, v in fail.items()}}
        ctx.case(['pg', prog, mode, sorted(fail.items())], nontrivial=True, kind='pg-fake-connection')
        ctx.count('pg-outcome:' + (exc or 'ok'))
        for p in problems: ctx.divergence('PostgreSQL fake connection: ' + p, cj, impl=rq['events'])
        if 'driver_error' in m: ctx.divergence('driver error', cj, model=m); continue
        if not m['accepted']:
            i = m['rejectedAt']
            ctx.divergence('PostgreSQL provider on a fake connection: the call sequence is not a word of L (rejected at event %s = %r): '
                           'a write statement is sent in autocommit mode' % (i, rq['events'][i] if i is not None else None), cj, model=m['phases'], impl=rq['events'])
        elif not m['complete']:
            ctx.divergence('PostgreSQL provider on a fake connection: the session ends with its transaction open', cj, model=m['phases'][-3:], impl=rq['events'][-6:])


# ---------------------------------------------------------------------------------------------------------------------
# workers
# ---------------------------------------------------------------------------------------------------------------------

def _worker(args):
    template, workdir, case = args
    try:
        if case.get('timed') is not None:
            return case['id'], timed_kill_case(template, workdir, case['id'], case['timed'])
        if case.get('kill') is not None:
            return case['id'], kill_case(template, workdir, case, case['kill'])
        return case['id'], run_case_thread(template, workdir, case)
    except BaseException:
        return case['id'], {'crash': traceback.format_exc()}


def run_cases(cases, template, workdir):
    """in-process cases and process-killing cases are spread over worker processes separately (a kill costs ~0.5 s)"""
    out = {}
    timing = run_cases.timing
    mpctx = multiprocessing.get_context('fork')
    cpus = max(1, (os.cpu_count() or 2) // 2)
    for group, per_proc, chunk in (([c for c in cases if c.get('kill') is None and c.get('timed') is None], 40, 8),
                                   ([c for c in cases if c.get('kill') is not None or c.get('timed') is not None], 4, 1)):
        if not group: continue
        t0 = time.time()
        procs = min(8, cpus, max(1, len(group) // per_proc))
        if procs <= 1:
            out.update(dict(_worker((template, workdir, c)) for c in group))
        else:
            with mpctx.Pool(procs) as pool:
                out.update(dict(pool.imap_unordered(_worker, [(template, workdir, c) for c in group], chunksize=chunk)))
        timing.append(['kill' if chunk == 1 else 'in-process', len(group), procs, round(time.time() - t0, 1)])
    return out
run_cases.timing = []


# ---------------------------------------------------------------------------------------------------------------------

class Gen(object):
    def __init__(self): self.cases = []
    def add(self, name, program, opts, warm, faults=(), kill=None, parent=None, sqlwarm=False):
        c = {'id': len(self.cases), 'name': name, 'program': program, 'opts': opts, 'warm': warm, 'sqlwarm': sqlwarm, 'faults': [list(f) for f in faults],
             'kill': kill, 'parent': parent}
        self.cases.append(c); return c


def evaluate(ctx, case, obs, model):
    """oracle + correspondence for one in-process case; returns True when a violation was registered"""
    cj = case_json(case)
    found = False
    for kind, text, detail in oracle(case, obs):
        if kind == 'harness':
            raise RuntimeError('%s on %r' % (text, cj))
        ctx.count('violation:' + kind)
        found = True
        ctx.violation(text, cj, observed=detail, expected='other connections see the state before the session until a commit, then all of its changes',
                      key=case_key(kind, case))
    if model is not None: check_model(ctx, case, obs, model)
    return found


def check_entry_points(ctx, cases, res):
    """(1) every write statement the real code sends comes from a function of the entry-point table;
       (2) for fault-free runs the emitter of Model/TxnEmit.lean, instantiated with the table regenerated from the source,
           sends the same connect / read / begin / write / commit / rollback sequence as the real session"""
    reqs, meta, base_req = [], [], {}
    for c in cases:
        obs = res[c['id']]
        for e in obs['events']:
            write = e['call'] == 'executemany' or e['kind'] in ('insert', 'update', 'delete')
            if write and e['call'] in ('execute', 'executemany'):
                ctx.count('entry:' + str(e['entry']) + (':in-flush' if e['flush_id'] is not None else ':direct'))
                if e['entry'] is None:
                    ctx.divergence('a write statement is sent by a function that is not in the entry-point table of gen_txnentry.py', case_json(c),
                                   impl={'sql': e['sql'], 'stack': e['stack']})
                elif e['entry'] in ('m2mRemove', 'm2mAdd') and e['flush_id'] is None:
                    ctx.divergence('a many-to-many statement is sent outside SessionCache.flush', case_json(c), impl={'sql': e['sql'], 'stack': e['stack']})
        r = emit_request(c, obs)
        if r is None or r == 'unknown-entry': continue
        base_req[c['id']] = r[0]
        reqs.append(r[0]); meta.append((c, r[1]))
    # runs with injected faults: same program (from the fault-free parent), failure oracle read off the real run
    for c in cases:
        if not c['faults'] or c.get('parent') not in base_req: continue
        r = emit_request_fault(c, res[c['id']], base_req[c['parent']], res[c['parent']])
        if r is None: continue
        reqs.append(r[0]); meta.append((c, r[1]))
    if not reqs or not ctx.driver.ok: return
    outs = ctx.driver('C17', reqs)
    for (c, real), rq, m in zip(meta, reqs, outs):
        ctx.count('emit-compared' + (':faults' if c['faults'] else ':fault-free'))
        if 'driver_error' in m:
            ctx.divergence('driver error (emit)', case_json(c), model=m); continue
        if m['events'] != real:
            ctx.divergence('the session emitter of the model (entry-point table from the source) and the real session send different calls',
                           case_json(c), model={'events': m['events'], 'prog': rq['prog'], 'table': m['table']}, impl=real)
    if outs and 'table' in outs[0]:
        ctx.extra['entry_point_table'] = dict(outs[0]['table'], flushSetsImmediate=outs[0]['flushSetsImmediate'])


def stats(ctx, case, obs):
    ctx.count('opts:' + case['opts']); ctx.count('pool:' + ('warm' if case['warm'] else 'fresh')); ctx.count('sql-caches:' + ('warm' if case.get('sqlwarm') else 'cold'))
    ctx.count('session-outcome:' + (obs['exc'] or 'ok'))
    ctx.count('commits-performed:%d' % len([e for e in obs['events'] if e['call'] == 'commit' and e['performed']]))
    for e in obs['events']:
        if e['injected']: ctx.count('fault-hit:%s%s' % (e['call'], (':' + e['kind']) if e['kind'] else ''))
        elif e['outcome'] != 'ok': ctx.count('genuine-error:%s:%s' % (e['kind'] or e['call'], e['outcome']))
    for f in case['faults']: ctx.count('exc:' + f[1])
    for op in case['program']: ctx.count('op:' + (op[0] if op[0] != 'try' else 'try-' + op[1][0]))


def run(ctx):
    workdir = ponyutil.workdir('c17')
    try:
        _run(ctx, workdir)
    finally:
        ponyutil.rmtree(workdir)


QUICK_FULL_FAULTS = ('retry_after_read', 'retry_flush', 'raw', 'm2m', 'commit_mid', 'hooks', 'oflush_delete', 'oflush_update', 'oflush_create', 'bulk_first', 'rawconn_after_read', 'rawconn_after_commit')      # every call index, quick tier too
THOROUGH_FULL_KILLS = ('rawconn_after_read', 'rawconn_after_commit', 'raw', 'm2m', 'commit_mid', 'hooks', 'oflush_delete', 'bulk_first', 'db_insert_first', 'dup_caught')
QUICK_FULL_KILLS = ('commit_mid', 'oflush_delete', 'bulk_first', 'rawconn_after_read')


def _run(ctx, workdir):
    rng = ctx.rng
    template = os.path.join(workdir, 'template.sqlite')
    try: make_template(template)
    except Exception:
        ctx.divergence('plain sessions that build the test database raised', {'setup': 'make_template'}, impl=traceback.format_exc()[-1500:])
        return
    if not ctx.driver.ok: ctx.note('driver unavailable: correspondence skipped, property oracle only')
    pg_part(ctx)

    # ---- 1. fault-free baselines --------------------------------------------------------------------------------
    g = Gen()
    for name, opts, prog in FIXED_PROGRAMS:
        g.add(name, prog, opts, warm=False)
        if ctx.thorough or name in ('create', 'raw', 'immediate', 'commit_mid'): g.add(name, prog, opts, warm=True)
        # the same program with every SQL text cache of the Database object warm (program run once before, rolled back)
        if ctx.thorough or name.startswith(('bulk', 'rawconn_after', 'oflush_delete', 'raw', 'm2m', 'query_delete', 'update_delete', 'for_update')):
            g.add(name, prog, opts, warm=(name == 'bulk_after_select'), sqlwarm=True)
    for i in range(ctx.scale(14, 100)):
        g.add('random%d' % i, random_program(rng), rng.choice(list(SESSION_OPTS)), warm=rng.random() < 0.3, sqlwarm=rng.random() < 0.4)
    baselines = list(g.cases)
    tb = time.time()
    res = run_cases(baselines, template, workdir)
    ctx.extra['baseline_runs_s'] = round(time.time() - tb, 1)

    # ---- 2. faults and kills at every call index of every baseline ---------------------------------------------------
    t0 = time.time()
    for b in baselines:
        obs = res[b['id']]
        if 'crash' in obs:
            ctx.divergence('the real code raised outside the session under test (setup / teardown of the case)', case_json(b), impl=obs['crash'][-1500:])
            b['crashed'] = True; continue
        n = len(obs['events'])
        ks = list(range(n))
        qfull = b['name'] in QUICK_FULL_FAULTS and not b['warm'] and (not b['sqlwarm'] or b['name'] in ('bulk_first', 'oflush_delete'))
        full = ctx.thorough or qfull
        if not full:
            ks = set(rng.sample(ks, min(len(ks), 3)))
            # always: a fault at every BEGIN and at every call made inside the user's try/except (the error is swallowed, the session goes on)
            if any(op[0] == 'try' for op in b['program']):
                ks |= {i for i, e in enumerate(obs['events']) if e['kind'] == 'begin' or e.get('caught')}
            ks = sorted(ks)
        for k in ks:
            cls = EXC_CLASSES[(b['id'] + k) % len(EXC_CLASSES)].__name__
            call = obs['events'][k]['call']
            g.add(b['name'], b['program'], b['opts'], b['warm'], sqlwarm=b['sqlwarm'], faults=[[k, cls, None]], parent=b['id'])
            if call in ('commit', 'rollback'):
                g.add(b['name'], b['program'], b['opts'], b['warm'], sqlwarm=b['sqlwarm'], faults=[[k, cls, 'after']], parent=b['id'])
            if ctx.thorough or rng.random() < 0.25:
                # a second fault inside the error handling of the first
                d = rng.randint(1, 4)
                g.add(b['name'], b['program'], b['opts'], b['warm'], sqlwarm=b['sqlwarm'], faults=[[k, cls, None], [k + d, 'OperationalError', None]], parent=b['id'])
            if ctx.thorough and k % 3 == 0:
                g.add(b['name'], b['program'], b['opts'], b['warm'], sqlwarm=b['sqlwarm'], faults=[[k, ['MemoryError', 'KeyboardInterrupt'][k % 2], None]], parent=b['id'])
        # every exception class at the first write and at the first commit
        if qfull or (ctx.thorough and not b['name'].startswith('random')):
            firstw = [i for i, e in enumerate(obs['events']) if e['kind'] in ('insert', 'update', 'delete')][:1]
            commits = [i for i, e in enumerate(obs['events']) if e['call'] == 'commit'][:1]
            for k in firstw + commits:
                for c in EXC_CLASSES: g.add(b['name'], b['program'], b['opts'], b['warm'], sqlwarm=b['sqlwarm'], faults=[[k, c.__name__, None]], parent=b['id'])
        # SIGKILL
        kks = list(range(n + 1))
        if ctx.thorough:
            # a kill costs 0.5-2 s (fork + page faults): every call index for one program of each protocol family (cold caches,
            # fresh pool; `bulk_first` with warm SQL caches), 1 random index for every other fixed variant, 1 for a third of the
            # random programs
            if b['name'] in THOROUGH_FULL_KILLS and not b['warm'] and b['sqlwarm'] == (b['name'] == 'bulk_first'): pass
            elif b['name'].startswith('random'): kks = sorted(rng.sample(kks, 1)) if b['id'] % 3 == ctx.seed % 3 else []
            else: kks = sorted(rng.sample(kks, 1))
        elif not (b['name'] in QUICK_FULL_KILLS and not b['warm'] and b['sqlwarm'] == (b['name'] == 'bulk_first')):
            kks = sorted(rng.sample(kks, 1)) if (b['id'] % 3 == ctx.seed % 3) else []
        for k in kks:
            if k < n: g.add(b['name'], b['program'], b['opts'], b['warm'], sqlwarm=b['sqlwarm'], kill=['before', k], parent=b['id'])
            else: g.add(b['name'], b['program'], b['opts'], b['warm'], sqlwarm=b['sqlwarm'], kill=['after', n - 1], parent=b['id'])
    for i in range(ctx.scale(4, 24)):
        c = g.add('big', [], 'optimistic', False); c['timed'] = round(rng.uniform(0.0, 0.25), 3)
    derived = g.cases[len(baselines):]
    res.update(run_cases(derived, template, workdir))
    ctx.extra['real_runs_s'] = round(time.time() - t0, 1)
    ctx.extra['run_groups'] = list(run_cases.timing)

    # ---- 3. model ---------------------------------------------------------------------------------------------------
    for c in g.cases:
        if 'crash' in res[c['id']] and not c.get('crashed'):
            ctx.divergence('the real code raised outside the session under test (setup / teardown of the case)', case_json(c), impl=res[c['id']]['crash'][-1500:])
            c['crashed'] = True
    inproc = [c for c in g.cases if c['kill'] is None and c.get('timed') is None and not c.get('crashed')]
    for c in inproc:
        obs = res[c['id']]
        obs['model_events'], obs['model_idx'] = model_events(obs)
    models = {}
    tm = time.time()
    if ctx.driver.ok:
        outs = ctx.driver('C17', [{'op': 'run', 'phase': 'auto' if c['warm'] else 'idle', 'pre': res[c['id']]['pre'],
                                   'events': res[c['id']]['model_events']} for c in inproc])
        models = {c['id']: m for c, m in zip(inproc, outs)}
    ctx.extra['driver_s'] = round(time.time() - tm, 1)
    check_entry_points(ctx, inproc, res)

    # ---- 4. evaluate ------------------------------------------------------------------------------------------------
    shrunk = 0
    for c in inproc:
        obs = res[c['id']]
        ctx.case([c['program'], c['opts'], c['warm'], c['sqlwarm'], c['faults']], nontrivial=True, kind='fault' if c['faults'] else 'baseline')
        stats(ctx, c, obs)
        probs = [p for p in oracle(c, obs) if p[0] != 'harness']
        if probs and shrunk < 3:
            shrunk += 1
            c2, obs2 = shrink(template, workdir, c, probs[0][0])
            if c2 is not c:
                evaluate(ctx, c2, obs2, None)
        evaluate(ctx, c, obs, models.get(c['id']))
        m = models.get(c['id'])
        if m is not None and 'driver_error' not in m:
            for p in m['phases']: ctx.count('model-phase:' + p)
            ctx.count('model-txns:%d' % len(m['txns']))
    for c in g.cases:
        r = res[c['id']]
        if c.get('timed') is not None:
            if c.get('crashed'): continue
            ctx.case(['big', c['timed']], nontrivial=True, kind='timed-kill')
            if r['journal_left']: ctx.count('timed-kill:hot-journal-left')
            ctx.count('timed-kill:generations-done:%s' % ('0' if r['groups'] and r['groups'][0][0] == 0 else '1-9' if r['groups'] and r['groups'][0][0] < 10 else '10+'))
            ok = len(r['groups']) == 1 and r['groups'][0][3] == BIG_ROWS and r['groups'][0][2] == BIG_WIDTH and r['groups'][0][1] == chr(97 + r['groups'][0][0] % 26)
            if not ok:
                ctx.violation('after SIGKILL at an arbitrary instant the rows rewritten by one session carry different generations',
                              {'timed_kill_delay': c['timed'], 'rows': BIG_ROWS}, observed=r['groups'], expected='one group: every row in the same generation',
                              key='timed-kill-partial')
            continue
        if c['kill'] is None or c.get('crashed') or 'crash' in res[c['parent']]: continue
        base = res[c['parent']]
        ctx.case([c['program'], c['opts'], c['warm'], c['sqlwarm'], c['kill']], nontrivial=True, kind='kill')
        evaluate_kill(ctx, c, r, base, models.get(c['parent']))


def shrink(template, workdir, case, kind):
    """greedy removal of program steps / faults while the oracle still reports a problem of the same kind"""
    best, best_obs = case, None
    budget = 30
    changed = True
    while changed and budget > 0:
        changed = False
        cands = [dict(best, program=best['program'][:i] + best['program'][i + 1:], faults=[]) for i in range(len(best['program']))] if not best['faults'] else []
        if best['faults']: cands.append(dict(best, faults=[]))
        if len(best['faults']) > 1: cands += [dict(best, faults=[f]) for f in best['faults']]
        for c2 in cands:
            budget -= 1
            if budget < 0: break
            c2 = dict(c2, id=900000 + budget)
            obs = run_case_thread(template, workdir, c2)
            if 'crash' in obs: continue
            if any(p[0] == kind for p in oracle(c2, obs)):
                best, best_obs, changed = c2, obs, True
                break
    return best, best_obs


def expected_after_kill(base, kill):
    """what other connections saw in the fault-free run when the killed call was about to start / had returned"""
    k = kill[1] if kill[0] == 'before' else kill[1] + 1
    vis = base['pre']
    for r in base['rec'][:k]:
        if r['visible'] is not None: vis = r['visible']
    return vis


def evaluate_kill(ctx, c, r, base, model):
    cj = case_json(c)
    n = len(base['events'])
    if not r['killed']:
        ctx.count('kill:not-reached')
        if r['exit'] != 0: raise RuntimeError('kill child failed (exit %r) on %r' % (r['exit'], cj))
        return
    call = base['events'][c['kill'][1]]
    ctx.count('kill:%s-%s%s' % (c['kill'][0], call['call'], (':' + call['kind']) if call['kind'] else ''))
    if r['journal_left']: ctx.count('kill:hot-journal-left')
    bs = boundaries_of(base)
    expected = expected_after_kill(base, c['kill'])
    if r['final'] != r['final_again']:
        ctx.violation('two reads of the file after the crash differ', cj, observed=[r['final'], r['final_again']], key=case_key('kill-unstable', c))
    if r['final'] not in bs:
        ctx.count('violation:kill-partial')
        ctx.violation('after SIGKILL at call %d (%s %s) the file holds neither the state before the session nor the state at one of its commits'
                      % (c['kill'][1], call['call'], call['kind']), cj, observed=r['final'], expected=bs, key=case_key('kill-partial', c))
    elif r['final'] != expected:
        # all-or-nothing holds, but the ASSUMED crash model (`crash d = d.committed` at that index) is off
        ctx.divergence('after SIGKILL the file holds a boundary state, but not the one committed at that call index', cj,
                       model=expected, impl=r['final'])
    if model is not None and 'driver_error' not in model and model.get('accepted'):
        # the model's committed state at that index (assumption `crash d = d.committed`, sampled here)
        idx = base['model_idx']
        k = c['kill'][1] if c['kill'][0] == 'before' else c['kill'][1] + 1
        js = [j for j, i in enumerate(idx) if i < k]
        mstate = model['committed'][js[-1]] if js else base['pre']
        if mstate != r['final']:
            ctx.divergence('crash assumption: model says the file holds its committed state at the kill point', cj, model=mstate, impl=r['final'])


def replay(ctx, data):
    inp = data.get('input') or {}
    if 'program' not in inp: return run(ctx)
    workdir = ponyutil.workdir('c17')
    try:
        template = os.path.join(workdir, 'template.sqlite')
        make_template(template)
        case = {'id': 0, 'name': 'replay', 'program': inp['program'], 'opts': inp['opts'], 'warm': inp['warm'], 'sqlwarm': bool(inp.get('sqlwarm')), 'faults': [], 'kill': None, 'parent': None}
        base = run_case_thread(template, workdir, case)
        if 'crash' in base: raise RuntimeError(base['crash'])
        base['model_events'], base['model_idx'] = model_events(base)
        m = ctx.driver('C17', [{'op': 'run', 'phase': 'auto' if case['warm'] else 'idle', 'pre': base['pre'], 'events': base['model_events']}])[0] if ctx.driver.ok else None
        ctx.case([case['program'], case['opts'], case['warm'], []], kind='baseline')
        evaluate(ctx, case, base, m)
        if inp.get('kill') is not None:
            c = dict(case, id=1, kill=inp['kill'], parent=0)
            r = kill_case(template, workdir, c, c['kill'])
            ctx.case([c['program'], c['opts'], c['warm'], c['kill']], kind='kill')
            evaluate_kill(ctx, c, r, base, m)
        elif inp.get('faults'):
            c = dict(case, id=1, faults=inp['faults'])
            obs = run_case_thread(template, workdir, c)
            if 'crash' in obs: raise RuntimeError(obs['crash'])
            obs['model_events'], obs['model_idx'] = model_events(obs)
            m = ctx.driver('C17', [{'op': 'run', 'phase': 'auto' if c['warm'] else 'idle', 'pre': obs['pre'], 'events': obs['model_events']}])[0] if ctx.driver.ok else None
            ctx.case([c['program'], c['opts'], c['warm'], c['faults']], kind='fault')
            evaluate(ctx, c, obs, m)
    finally:
        ponyutil.rmtree(workdir)
