"""C22 — concurrent threads do not interfere through shared process state.

Real threads under a deterministic scheduler.  `database._translator_cache` (and, in the second part, the other
process-wide caches) is replaced -- on the harness side, without touching Pony -- by a `dict` subclass whose
`get / pop / __setitem__ / __delitem__ / __getitem__` hand control to a scheduler (semaphore hand-off) BEFORE the
operation: exactly one thread runs at a time and a thread switch can be forced at every access point, so every
interleaving of 2-3 threads over the cache access points can be replayed exactly.

Part 1 (tie + oracle), translator cache: each thread runs a program of queries whose translation pins parameter values
(`e.name[:n]`, `e.name[m:n]`, `getattr(e, name)`, filters / order_by lambdas with pinned parameters, hybrid functions
with closures = non-cacheable translators) with different values per thread.  ALL interleavings of small programs
(stateless enumeration by replay) and random interleavings of random programs.
  * tie: the same programs + the same list of thread picks are run by the Lean model (PonyVerif/Model/SharedCache.lean);
    per access the kind and result (hit / miss / popped / popped-missing / stored), at the end each query object's
    `fixed_param_values`, which thread built its translator, the cache contents, the escaped exceptions are compared.
    The specification function `soloPins` is compared with the pinned values of the thread's solo run.
  * the OLD code (`del cache[key]`) is emulated on the harness side (the dict's `pop` raises KeyError on a missing key) for
    the Lean witness schedule and for enumerated schedules, and compared with the model's `stepOld` (tie only).
  * property oracle (real code only): every thread's rows / exceptions, request by request, equal those of the same
    program run alone from cold caches.
Part 2 (oracle only), all shared caches: `string2ast_cache`, `ast_cache`, `extractors_cache`, `adapted_sql_cache`,
`_constructed_sql_cache`, entity-level SQL caches: random schedules over the access points of all of them.
Part 3 (oracle), cross-thread object use: objects loaded in thread A's live session used from thread B's session.
"""
import itertools, json, os, threading, traceback

from pony.orm import Database, Required, Optional, Set, Json, db_session, select, rollback, flush, exists
from pony.orm import core
import ponyutil

tl = threading.local()

START, STOP, ATTR = 0, 1, 2
ATTRCODE = {'a': 100, 'b': 101, 'name': 102}
NAMES = ['z', 'a', 'bc', 'def', 'ghij', 'klmno']
G_SLICE = 2


def glob_short(e):
    """hybrid function reading a module global: its variables are re-extracted on every cache hit (func_extractors_map)"""
    return e.name[:G_SLICE]


# ---------------------------------------------------------------- scheduler + instrumented dict

class Sched(object):
    def __init__(self, n):
        self.go = [threading.Semaphore(0) for _ in range(n)]
        self.back = threading.Semaphore(0)
        self.rep = None
    def point(self, tid, info):
        self.rep = ('at', info); self.back.release(); self.go[tid].acquire()
    def done(self, tid):
        self.rep = ('done', None); self.back.release()
    def resume(self, tid):
        self.go[tid].release()
        if not self.back.acquire(timeout=30):
            raise RuntimeError('scheduler: thread %d did not hand control back' % tid)
        return self.rep


class SchedDict(dict):
    """a dict that yields to the scheduler before every access made by a managed worker thread and logs the access"""
    def __init__(self, env, name):
        dict.__init__(self)
        self.env = env; self.name = name
    def _pt(self, op):
        tid = getattr(tl, 'tid', None)
        if tid is not None and self.name in tl.yield_at:
            tl.sched.point(tid, (self.name, op))
    def _log(self, op, key, found, val=None):
        log = getattr(tl, 'log', None)
        if log is None: return
        if self.name == 'tr':
            log.append({'cache': 'tr', 'op': op, 'key': self.env.qkey(key), 'found': found,
                        'pinned': self.env.pinned(val) if val is not None else None})
        else:
            log.append({'cache': self.name, 'op': op, 'key': self.env.atom(('memo', self.name, key)), 'found': found})
    def get(self, key, default=None):
        self._pt('get')
        r = dict.get(self, key, default)
        self._log('get', key, r is not None, r)
        return r
    def pop(self, key, *a):
        self._pt('pop')
        found = dict.__contains__(self, key)
        self._log('pop', key, found)
        if not found and self.env.del_mode and self.name == 'tr':
            raise KeyError(key)                      # harness-side emulation of the OLD code: `del cache[key]`
        return dict.pop(self, key, *a)
    def __delitem__(self, key):
        self._pt('del')
        found = dict.__contains__(self, key)
        self._log('pop', key, found)
        dict.__delitem__(self, key)
    def __setitem__(self, key, val):
        self._pt('set')
        if self.name == 'tr':
            self.env.keep.append(val)
            self.env.builder[id(val)] = getattr(tl, 'tid', None)
        dict.__setitem__(self, key, val)
        self._log('set', key, True, val if self.name == 'tr' else None)
    def __getitem__(self, key):
        self._pt('getitem')
        self._log('getitem', key, dict.__contains__(self, key))
        return dict.__getitem__(self, key)
    def setdefault(self, key, default=None):
        self._pt('setdefault')
        found = dict.__contains__(self, key)
        if self.name == 'tr' and not found:
            self.env.keep.append(default); self.env.builder[id(default)] = getattr(tl, 'tid', None)
        r = dict.setdefault(self, key, default)
        self._log('setdefault', key, found, r if self.name == 'tr' else None)
        return r


# ---------------------------------------------------------------- database, query shapes

class Env(object):
    def __init__(self):
        self.wd = ponyutil.workdir('c22')
        path = self.path = os.path.join(self.wd, 'c22.sqlite')
        db = self.db = Database()
        class E(db.Entity):
            name = Required(str)
            a = Required(int)
            b = Optional(int)
            lz = Optional(str, lazy=True)
            js = Optional(Json)
            flag = Required(bool)
            ds = Set('D')
            ms = Set('M')
        class D(db.Entity):
            e = Required(E)
            t = Optional(str)
        class M(db.Entity):
            es = Set(E)
        self.E, self.D, self.M = E, D, M
        @db.on_connect(provider='sqlite')
        def fast(db, connection):
            connection.execute('PRAGMA synchronous = OFF')
        db.bind('sqlite', path, create_db=True)
        db.generate_mapping(create_tables=True)
        with db_session:
            for i, n in enumerate(NAMES):
                e = E(name=n, a=i, b=(None if i == 2 else 2 * i), lz='L%d' % i, js={'k': [i]}, flag=(i % 2 == 0))
                D(e=e, t='t%d' % i)
                M(es=[e])
        db.disconnect()
        self.del_mode = False
        self.keep = []; self.builder = {}
        self._qatoms = {}; self._pkeys = {}
        self.tr = db._translator_cache = SchedDict(self, 'tr')
        self.shapes = make_shapes(self)
    # canonical ids
    def atom(self, x):
        return self._qatoms.setdefault(x, len(self._qatoms))
    def qkey(self, key):
        """model key of a real `query._key`: [last filter, ..., first filter, root]"""
        root = self.atom(('root', key['code_key'], key['vartypes'], key['left_join']))
        return [self.atom(('f', f)) for f in reversed(key['filters'])] + [root]
    def pkey(self, varkey):
        return self._pkeys.setdefault(varkey, len(self._pkeys))
    def code(self, v):
        if v is None or isinstance(v, int): return v
        if isinstance(v, str) and v in ATTRCODE: return ATTRCODE[v]
        raise ValueError(v)
    def pinned(self, translator):
        return [[self.pkey(k), self.code(v)] for k, v in translator.fixed_param_values.items()]
    def check_alive(self):
        """the scratch database was removed under our feet (another process cleaning /verif/.work): infrastructure, not a verdict"""
        if not os.path.exists(self.path):
            raise RuntimeError('the scratch database %s disappeared during the run' % self.path)
    def clear_caches(self):
        dict.clear(self.tr)
        self.db._constructed_sql_cache.clear()
        self.keep = []; self.builder = {}
    def close(self):
        try: self.db.disconnect()
        except Exception: pass
        ponyutil.rmtree(self.wd)


class Shape(object):
    def __init__(self, name, fn, params, pins, root, kind, cacheable=True, hybrid=(), funcstale=False):
        self.name = name; self.fn = fn; self.params = params; self.pins = pins; self.root = root
        self.kind = kind            # result kind: 'entity' | 'str' | 'any'
        self.cacheable = cacheable; self.hybrid = hybrid
        # queries over hybrid functions: `_get_translator` re-extracts the function's variables under a key that differs from
        # the one used at translation time (id(func.__code__) vs id(func)), so a cached translator is never accepted:
        # `all_func_vartypes != translator.func_vartypes` -> returns None WITHOUT touching the cache
        self.funcstale = funcstale


def make_shapes(env):
    E = env.E
    # every builder holds ONE generator expression / lambda so that all threads share its code object (= the cache key)
    def r_stop(n): return select(e.name[:n] for e in E)
    def r_both(m, n): return select(e.name[m:n] for e in E)
    def r_twice(n): return select((e.name[n:], e.name[:n]) for e in E)
    def r_cond(n, x): return select(e for e in E if e.name[:n] != 'zz' and e.a >= x)
    def r_attr(attr): return select(getattr(e, attr) for e in E)
    def r_plain(x): return select(e for e in E if e.a >= x)
    def r_elen(n): return select(e for e in E if e.name[:n] != e.name)      # entity rows that depend on the pinned bound
    def mk(n):
        def short(e): return e.name[:n]
        return short
    hyb = {n: mk(n) for n in (1, 2, 3)}     # one function object per value: the key contains the function
    def r_hyb(n):
        f = hyb[n]
        return select(f(e) for e in E)
    def r_sub(n):       # the pinned parameter sits inside a NESTED generator (sub-translator)
        return select(e for e in E if exists(d for d in e.ds if d.t[:n] == 't'))
    # the same argument-less text once as ordering, once as condition: three different cache keys
    def f_ordtxt(q): return q.order_by("e.flag")
    def f_filttxt(q): return q.filter("e.flag")
    def f_wheretxt(q): return q.where("e.flag")
    def r_glob(G_SLICE):
        return select(glob_short(e) for e in E)
    def f_estart(q, k): return q.filter(lambda e: e.name[k:] != '')
    def f_sstart(q, k): return q.filter(lambda s: s[k:] != '')
    def f_where(q, y): return q.where(lambda e: e.a <= y)
    def f_kw(q, v): return q.filter(a=v)
    def f_kwb(q, v): return q.filter(b=v)        # v may be None: `IS NULL` instead of a parameter, part of the key
    def f_ordl(q, j): return q.order_by(lambda e: (e.name[j:], e.id))
    def f_orda(q): return q.order_by(E.a)
    def f_ordd(q): return q.order_by(core.desc(E.a))
    def f_ordn(q): return q.order_by(-1)
    def f_noord(q): return q.order_by(None)
    I = [0, 1, 2, 3, -1]; IN = I + [None]
    S = {}
    def add(*a, **kw): S[a[0]] = Shape(*a, **kw)
    add('r_stop', r_stop, [('n', IN)], [('n', STOP)], True, 'str')
    add('r_both', r_both, [('m', [0, 1, 2, None]), ('n', IN)], [('m', START), ('n', STOP)], True, 'str')
    add('r_twice', r_twice, [('n', [0, 1, 2])], [('n', START)], True, 'tuple')
    add('r_cond', r_cond, [('n', IN), ('x', [0, 2, 4])], [('n', STOP)], True, 'entity')
    add('r_attr', r_attr, [('attr', ['a', 'b', 'name'])], [('attr', ATTR)], True, 'scalar')
    add('r_plain', r_plain, [('x', [0, 2, 4])], [], True, 'entity')
    add('r_elen', r_elen, [('n', [1, 2, 3])], [('n', STOP)], True, 'entity')
    add('r_hyb', r_hyb, [('n', [1, 2, 3])], [('n', STOP)], True, 'str', cacheable=False, hybrid=('n',), funcstale=True)
    add('r_glob', r_glob, [('G_SLICE', [G_SLICE])], [('G_SLICE', STOP)], True, 'str', hybrid=('G_SLICE',), funcstale=True)
    add('r_sub', r_sub, [('n', [1, 2, 3, -1])], [('n', STOP)], True, 'entity')
    add('f_ordtxt', f_ordtxt, [], [], False, 'entity')
    add('f_filttxt', f_filttxt, [], [], False, 'entity')
    add('f_wheretxt', f_wheretxt, [], [], False, 'entity')
    add('f_estart', f_estart, [('k', [0, 1, 2, 3])], [('k', START)], False, 'entity')
    add('f_sstart', f_sstart, [('k', [0, 1, 2, 3])], [('k', START)], False, 'str')
    add('f_where', f_where, [('y', [1, 3, 5])], [], False, 'entity')
    add('f_kw', f_kw, [('v', [1, 3])], [], False, 'entity')
    add('f_kwb', f_kwb, [('v', [None, 2, 6])], [], False, 'entity')
    add('f_ordl', f_ordl, [('j', [0, 1, 2])], [('j', START)], False, 'entity')
    add('f_orda', f_orda, [], [], False, 'entity')
    add('f_ordd', f_ordd, [], [], False, 'entity')
    add('f_ordn', f_ordn, [], [], False, 'str')
    add('f_noord', f_noord, [], [], False, 'any')
    return S


def canon_rows(rows):
    out = []
    for r in rows:
        if isinstance(r, core.Entity): out.append(['E', r._pkval_])
        elif isinstance(r, tuple): out.append(list(r))
        else: out.append(r)
    return out


def exec_request(env, req, objs):
    sh = env.shapes[req['shape']]
    args = [req['params'][p] for p, _ in sh.params]
    if sh.root: q = sh.fn(*args)
    else:
        if req['base'] is None or req['base'] >= len(objs): raise IndexError('BadBase')
        q = sh.fn(objs[req['base']], *args)
    return q


def worker(env, tid, prog, sched, out, yield_at):
    tl.tid = tid; tl.sched = sched; tl.log = out['log']; tl.yield_at = yield_at
    if sched is not None: sched.go[tid].acquire()
    try:
        with db_session:
            objs = []
            for req in prog:
                n0 = len(out['log'])
                try:
                    if 'do' in req:
                        res = ['ok', req['do'](env)]
                    else:
                        q = exec_request(env, req, objs)
                        rows = canon_rows(q[:])
                        ordered = any(f[0].startswith('order_by') for f in q._key['filters']) and not str(q._key['filters'][-1][0]).startswith('without')
                        res = ['ok', rows if ordered else sorted(rows, key=repr)]
                        objs.append(q); out['queries'].append(q)
                except Exception as e:
                    res = [type(e).__name__, str(e)[:160]]
                out['results'].append(res)
                out['spans'].append([n0, len(out['log'])])
    except BaseException:
        out['crash'] = traceback.format_exc()[-800:]
    finally:
        tl.tid = None; tl.sched = None; tl.log = None
        try: env.db.disconnect()
        except Exception: pass
        if sched is not None: sched.done(tid)


def new_out():
    return {'log': [], 'results': [], 'queries': [], 'spans': [], 'crash': None}


def run_solo(env, prog):
    """the thread's program run ALONE from cold caches (still in a thread of its own)"""
    env.clear_caches()
    out = new_out()
    th = threading.Thread(target=worker, args=(env, 0, prog, None, out, ()), daemon=True)
    th.start(); th.join(60)
    return out


def run_real(env, progs, chooser, yield_at=('tr',)):
    """run the programs concurrently; `chooser(i, alive)` returns the thread to resume at decision i.
    returns picks (thread ids), choices [(index chosen, number alive)], per-thread outs"""
    env.clear_caches()
    n = len(progs)
    sched = Sched(n)
    outs = [new_out() for _ in range(n)]
    threads = [threading.Thread(target=worker, args=(env, t, progs[t], sched, outs[t], yield_at), daemon=True) for t in range(n)]
    for th in threads: th.start()
    alive = []
    for t in range(n):                    # prologue: up to the first access point
        rep = sched.resume(t)
        if rep[0] != 'done': alive.append(t)
    picks = []; choices = []; accesses = []
    guard = 0
    try:
        while alive:
            t = chooser(len(picks), alive)
            choices.append((alive.index(t), len(alive)))
            picks.append(t)
            n0 = len(outs[t]['log'])
            rep = sched.resume(t)
            accesses.append(outs[t]['log'][n0] if len(outs[t]['log']) > n0 else None)
            if rep[0] == 'done': alive.remove(t)
            guard += 1
            if guard > 5000: raise RuntimeError('scheduler: threads do not terminate')
    finally:
        for th in threads: th.join(5 if not alive else 0.01)
    return {'picks': picks, 'choices': choices, 'accesses': accesses, 'outs': outs, 'builder': env.builder, 'keep': env.keep,
            'cache': sorted([env.qkey(k), env.pinned(v)] for k, v in dict.items(env.tr))}


def prefix_chooser(prefix):
    def ch(i, alive):
        c = prefix[i] if i < len(prefix) else 0
        if c >= len(alive): raise RuntimeError('replay diverged: choice %d of %d alive' % (c, len(alive)))
        return alive[c]
    return ch


def picks_chooser(picks):
    def ch(i, alive):
        if i < len(picks) and picks[i] in alive: return picks[i]
        return alive[0]
    return ch


def random_chooser(rng, sticky):
    state = {'last': None}
    def ch(i, alive):
        if state['last'] in alive and rng.random() < sticky: return state['last']
        state['last'] = rng.choice(alive)
        return state['last']
    return ch


def explore(env, progs, limit, yield_at=('tr',)):
    """all interleavings (stateless enumeration by replay), at most `limit` of them"""
    prefix = []; n = 0
    while n < limit:
        tr = run_real(env, progs, prefix_chooser(prefix), yield_at)
        yield tr
        n += 1
        ch = tr['choices']
        i = len(ch) - 1
        while i >= 0 and ch[i][0] + 1 >= ch[i][1]: i -= 1
        if i < 0: return
        prefix = [c for c, _ in ch[:i]] + [ch[i][0] + 1]


# ---------------------------------------------------------------- model input

class Case(object):
    """programs + their solo runs + the model's view of them"""
    def __init__(self, env, progs):
        self.env = env; self.progs = progs
        self.solo = [run_solo(env, p) for p in progs]
        self.pins = {}          # model key (tuple) -> [[pkey, kind]]
        self.mprogs = []
        self.problems = []
        self.solo_pinned = []   # per thread per request: real pinned values of the solo run (None if the request failed)
        for t, prog in enumerate(progs):
            so = self.solo[t]
            if so['crash']: self.problems.append('solo run crashed: ' + so['crash'])
            mreqs = []; sp = []
            qi = 0
            for i, req in enumerate(prog):
                res = so['results'][i] if i < len(so['results']) else ['missing', '']
                if res[0] != 'ok':
                    self.problems.append('solo request failed: %s %s' % (req, res)); sp.append(None); continue
                q = so['queries'][qi]; qi += 1
                sh = env.shapes[req['shape']]
                base_q = so['queries'][req['base']] if req.get('base') is not None else None
                key = env.qkey(q._key)
                own = [k for k in q._vars if isinstance(k, tuple) and (base_q is None or k not in base_q._vars)]
                fixed = q._translator.fixed_param_values
                vars_ = []
                for k, v in q._vars.items():
                    if not isinstance(k, tuple): continue
                    try: vars_.append([env.pkey(k), env.code(v)])
                    except ValueError: pass
                for hname in sh.hybrid:      # closure variables of hybrid functions live in translator.vars only
                    for k in fixed:
                        if k[1] == hname and env.pkey(k) not in [p for p, _ in vars_]:
                            vars_.append([env.pkey(k), env.code(req['params'][hname])])
                pins = []
                for pname, kind in sh.pins:
                    if req['params'][pname] is None: continue        # NoneType parameter: a constant, not a ParamMonad
                    cands = [k for k in own if k[1] == pname] + [k for k in fixed if k[1] == pname and pname in sh.hybrid]
                    if not cands:
                        self.problems.append('no varkey for parameter %s of %s' % (pname, sh.name)); continue
                    pins.append([env.pkey(cands[0]), kind])
                old = self.pins.setdefault(tuple(key), pins)
                if old != pins: self.problems.append('pins of key %s differ: %s vs %s' % (key, old, pins))
                root = req
                while root.get('base') is not None: root = prog[root['base']]
                mreqs.append({'key': key, 'vars': vars_, 'base': req.get('base'), 'cacheable': sh.cacheable,
                              'funcStale': env.shapes[root['shape']].funcstale})
                sp.append(env.pinned(q._translator))
            self.mprogs.append(mreqs); self.solo_pinned.append(sp)
    def pins_json(self):
        return [[list(k), v] for k, v in sorted(self.pins.items())]
    def model_request(self, picks, old):
        return {'op': 'run', 'old': old, 'autoLocal': True, 'pins': self.pins_json(), 'progs': self.mprogs, 'sched': picks}
    def solo_requests(self):
        return [dict(r, op='solo', pins=self.pins_json()) for mp in self.mprogs for r in mp]
    def describe(self):
        return [[dict(shape=r['shape'], params=r['params'], base=r.get('base')) for r in p] for p in self.progs]


MODEL_OUT = {('get', True): 'hit', ('get', False): 'miss', ('pop', True): 'popped', ('pop', False): 'popped-missing', ('set', True): 'stored'}


def compare(env, case, tr, mout, old):
    """first difference between the real run and the model run"""
    if 'steps' not in mout: return {'what': 'driver error', 'model': mout}
    steps = mout['steps']
    if len(steps) != len(tr['picks']): return {'what': 'number of picks', 'model': len(steps), 'real': len(tr['picks'])}
    for i, (ms, acc) in enumerate(zip(steps, tr['accesses'])):
        if acc is None: return {'what': 'a pick without a cache access', 'pick': i}
        real = MODEL_OUT.get((acc['op'], acc['found']))
        mo = ms['outs'][0]
        if old and acc['op'] == 'pop' and not acc['found']: real = 'KeyError'
        if mo != real: return {'what': 'access outcome', 'pick': i, 'thread': tr['picks'][i], 'model': ms['outs'], 'real': acc}
    for t, (mt, out) in enumerate(zip(mout['threads'], tr['outs'])):
        if mt['todo'] != 0: return {'what': 'model thread not finished', 'thread': t, 'model': mt}
        real_used = [{'key': env.qkey(q._key), 'pinned': env.pinned(q._translator),
                      'builder': tr['builder'].get(id(q._translator), t)} for q in out['queries']]
        if mt['used'] != real_used: return {'what': 'translators held by the thread', 'thread': t, 'model': mt['used'], 'real': real_used}
        real_raised = [r[0] for r in out['results'] if r[0] != 'ok']
        if mt['raised'] != real_raised: return {'what': 'escaped exceptions', 'thread': t, 'model': mt['raised'], 'real': real_raised}
    mcache = sorted([c['key'], c['pinned']] for c in mout['cache'])
    rcache = tr['cache']
    if mcache != rcache: return {'what': 'final cache contents', 'model': mcache, 'real': rcache}
    return None


def oracle(case, tr):
    """the property on the real code: every thread gets what it gets alone"""
    bad = []
    for t, out in enumerate(tr['outs']):
        if out['crash']: bad.append({'thread': t, 'request': None, 'got': ['crash', out['crash']], 'alone': None}); continue
        solo = case.solo[t]['results']
        for i, (a, b) in enumerate(itertools.zip_longest(out['results'], solo)):
            if a != b:
                bad.append({'thread': t, 'request': i, 'shape': case.progs[t][i]['shape'], 'got': a, 'alone': b}); break
    return bad


# ---------------------------------------------------------------- program generation

def rq(shape, base=None, **params):
    return {'shape': shape, 'params': params, 'base': base}


def template_programs():
    P = []
    P.append(('witness', [[rq('r_stop', n=1), rq('r_stop', n=2)], [rq('r_stop', n=3)]]))
    P.append(('same-values', [[rq('r_stop', n=2), rq('r_stop', n=2)], [rq('r_stop', n=2)]]))
    P.append(('both-bounds', [[rq('r_both', m=0, n=2), rq('r_both', m=1, n=2)], [rq('r_both', m=1, n=3)]]))
    P.append(('getattr', [[rq('r_attr', attr='a'), rq('r_attr', attr='a')], [rq('r_attr', attr='b')]]))
    P.append(('filter-chain', [[rq('r_cond', n=2, x=0), rq('f_estart', base=0, k=1)], [rq('r_cond', n=3, x=0), rq('f_estart', base=0, k=1)]]))
    P.append(('filter-pins', [[rq('r_plain', x=0), rq('f_estart', base=0, k=1), rq('f_estart', base=0, k=2)], [rq('r_plain', x=2), rq('f_estart', base=0, k=2)]]))
    P.append(('order-lambda', [[rq('r_cond', n=1, x=0), rq('f_ordl', base=0, j=1)], [rq('r_cond', n=1, x=2), rq('f_ordl', base=0, j=2)]]))
    P.append(('hybrid', [[rq('r_hyb', n=2), rq('r_stop', n=2)], [rq('r_hyb', n=3), rq('r_stop', n=3)]]))
    P.append(('hybrid-derived', [[rq('r_hyb', n=2), rq('f_noord', base=0)], [rq('r_hyb', n=2), rq('f_sstart', base=0, k=2), rq('f_noord', base=0)]]))
    P.append(('global-hybrid', [[rq('r_glob', G_SLICE=G_SLICE), rq('r_glob', G_SLICE=G_SLICE)], [rq('r_glob', G_SLICE=G_SLICE), rq('f_ordn', base=0)]]))
    P.append(('subquery-slice', [[rq('r_sub', n=1), rq('r_sub', n=2)], [rq('r_sub', n=3)]]))
    P.append(('text-order-vs-filter', [[rq('r_plain', x=0), rq('f_ordtxt', base=0)], [rq('r_plain', x=0), rq('f_filttxt', base=0), rq('f_wheretxt', base=0)]]))
    P.append(('text-filter-vs-order', [[rq('r_plain', x=0), rq('f_wheretxt', base=0), rq('f_filttxt', base=0)], [rq('r_plain', x=0), rq('f_ordtxt', base=0)]]))
    P.append(('order-attrs', [[rq('r_plain', x=0), rq('f_orda', base=0)], [rq('r_plain', x=0), rq('f_ordd', base=0), rq('f_orda', base=0)]]))
    P.append(('kw-none', [[rq('r_plain', x=0), rq('f_kwb', base=0, v=None)], [rq('r_plain', x=0), rq('f_kwb', base=0, v=6), rq('f_kwb', base=0, v=None)]]))
    # the three stores of Query._order_by (numbers, attributes, without_order) over roots pinned to DIFFERENT values per thread:
    # all interleavings include "B stores between A's lookup and A's store"
    P.append(('orderby-number-getattr', [[rq('r_attr', attr='a'), rq('f_ordn', base=0)], [rq('r_attr', attr='b'), rq('f_ordn', base=0)]]))
    P.append(('orderby-number-slice', [[rq('r_stop', n=2), rq('f_ordn', base=0)], [rq('r_stop', n=3), rq('f_ordn', base=0)]]))
    P.append(('orderby-attr-pinned', [[rq('r_elen', n=1), rq('f_orda', base=0)], [rq('r_elen', n=2), rq('f_orda', base=0), rq('f_ordd', base=0)]]))
    P.append(('without-order-pinned', [[rq('r_stop', n=2), rq('f_noord', base=0)], [rq('r_stop', n=3), rq('f_noord', base=0)]]))
    P.append(('without-order-entity', [[rq('r_elen', n=1), rq('f_orda', base=0), rq('f_noord', base=1)], [rq('r_elen', n=3), rq('f_orda', base=0), rq('f_noord', base=1)]]))
    P.append(('twice', [[rq('r_twice', n=1), rq('r_twice', n=2)], [rq('r_twice', n=2)]]))
    P.append(('none-values', [[rq('r_stop', n=None), rq('r_stop', n=0)], [rq('r_stop', n=-1), rq('r_both', m=None, n=2)]]))
    P.append(('three', [[rq('r_stop', n=1)], [rq('r_stop', n=2)], [rq('r_stop', n=3), rq('r_stop', n=1)]]))
    return P


def gen_programs(env, rng):
    nthreads = rng.choice([2, 2, 3])
    roots = [s for s in env.shapes.values() if s.root]
    hot = rng.sample(roots, rng.choice([1, 1, 2]))
    progs = []
    for t in range(nthreads):
        prog = []; kinds = []
        for _ in range(rng.choice([1, 2, 2, 3])):
            if prog and rng.random() < 0.45:
                b = rng.randrange(len(prog))
                fs = [s for s in env.shapes.values() if not s.root and (s.kind == kinds[b] or s.kind == 'any')]
                if fs:
                    sh = rng.choice(fs)
                    prog.append(rq(sh.name, base=b, **{p: rng.choice(dom) for p, dom in sh.params}))
                    kinds.append(kinds[b]); continue
            sh = rng.choice(hot)
            prog.append(rq(sh.name, **{p: rng.choice(dom[:3] if rng.random() < 0.7 else dom) for p, dom in sh.params}))
            kinds.append(sh.kind)
        progs.append(prog)
    return progs


# ---------------------------------------------------------------- part 1 driver

class Batch(object):
    """driver requests are collected and sent in few subprocess calls (starting the driver is the expensive part)"""
    def __init__(self, ctx):
        self.ctx = ctx; self.items = []
    def add(self, req, fn):
        self.items.append((req, fn))
        if len(self.items) >= 1500: self.flush()
    def flush(self):
        items, self.items = self.items, []
        if not items or not self.ctx.driver.ok: return
        outs = self.ctx.driver('C22', [r for r, _ in items])
        for (_, fn), o in zip(items, outs): fn(o)


def check_runs(ctx, batch, env, case, runs, label, old=False):
    """tie (driver) + oracle for a list of real runs of one case"""
    desc = case.describe()
    for tr in runs:
        inp = {'progs': desc, 'picks': tr['picks'], 'old_code_emulation': old}
        nacc = len(tr['picks'])
        ctx.case(inp, nontrivial=nacc > 2, kind=label)
        for acc in tr['accesses']:
            if acc is not None: ctx.count('access:%s:%s' % (acc['op'], 'found' if acc['found'] else 'missing'))
        if not old:
            bad = oracle(case, tr)
            if bad:
                env.check_alive()
                b = bad[0]
                kind = b['got'][0] if b['got'][0] != 'ok' else 'rows'
                ctx.violation('a thread running concurrently with others got a result different from the one it gets alone '
                              '(shared translator cache interference)', inp, observed=b, expected='the result of the solo run',
                              key='translator-cache:%s:%s' % (b.get('shape'), kind))
        def on_model(mout, tr=tr, inp=inp):
            for s in mout.get('steps', []):
                for o in s['outs']: ctx.count('model-out:' + o)
            d = compare(env, case, tr, mout, old)
            if d is not None:
                ctx.divergence('model and real Pony disagree (%s): %s' % ('old-code emulation' if old else 'current code', d['what']),
                               inp, model=d.get('model'), impl={k: v for k, v in d.items() if k not in ('model', 'what')})
        batch.add(case.model_request(tr['picks'], old), on_model)


def check_case_static(ctx, batch, env, case, label):
    """solo runs are sane; the specification function soloPins equals the real pinned values of the solo runs"""
    for p in case.problems:
        ctx.divergence('case construction: ' + p, case.describe())
    flat = [x for sp in case.solo_pinned for x in sp if x is not None]
    for r, real in zip(case.solo_requests(), flat):
        def on_model(o, r=r, real=real):
            ctx.count('soloPins:%d-pinned' % len(real))
            if o.get('solo') != real:
                ctx.divergence('soloPins differs from fixed_param_values of the solo run', {'key': r['key'], 'vars': r['vars'], 'progs': case.describe()},
                               model=o, impl=real)
        batch.add(r, on_model)


def part1(ctx, env):
    batch = Batch(ctx)
    limit = ctx.scale(50, 500)
    for name, progs in template_programs():
        case = Case(env, progs)
        check_case_static(ctx, batch, env, case, name)
        runs = list(explore(env, progs, limit))
        ctx.count('template:%s:schedules' % name, len(runs))
        check_runs(ctx, batch, env, case, runs, 'exhaustive:' + name)
    # the Lean witness (Props/C22.lean wProgs / wSched) on the real threads: current code, then old-code emulation
    wprogs = [[rq('r_stop', n=1), rq('r_stop', n=2)], [rq('r_stop', n=3)]]
    wsched = [0, 0, 0, 1, 1, 0, 0, 1]     # the model's wSched with the thread-local steps merged into the accesses
    case = Case(env, wprogs)
    tr = run_real(env, wprogs, picks_chooser(wsched))
    check_runs(ctx, batch, env, case, [tr], 'witness-current')
    if [a and (a['op'], a['found']) for a in tr['accesses']][:6] != [('get', False), ('set', True), ('get', True), ('get', True), ('pop', True), ('pop', False)]:
        ctx.divergence('the witness schedule no longer reaches the pop of a missing key on the real code', {'picks': tr['picks']}, impl=tr['accesses'])
    else: ctx.count('witness:pop-of-missing-key-reached')
    env.del_mode = True
    try:
        tr = run_real(env, wprogs, picks_chooser(wsched))
        errs = [r[0] for r in tr['outs'][0]['results']]
        if 'KeyError' not in errs:
            ctx.divergence('old-code emulation: the witness schedule did not raise KeyError', {'picks': tr['picks']}, impl=tr['outs'][0]['results'])
        else: ctx.count('witness:old-code-KeyError-reproduced')
        check_runs(ctx, batch, env, case, [tr], 'witness-old', old=True)
        for name, progs in template_programs()[:4]:
            c2 = Case(env, progs)
            check_runs(ctx, batch, env, c2, list(explore(env, progs, ctx.scale(60, 250))), 'old-emulation:' + name, old=True)
    finally:
        env.del_mode = False
    # random programs, random schedules
    n = ctx.scale(60, 300)
    for i in range(n):
        progs = gen_programs(env, ctx.rng)
        case = Case(env, progs)
        if case.problems and any('solo request failed' in p for p in case.problems):
            ctx.count('random:solo-failure-skipped'); continue
        check_case_static(ctx, batch, env, case, 'random')
        runs = [run_real(env, progs, random_chooser(ctx.rng, ctx.rng.choice([0.0, 0.3, 0.6]))) for _ in range(ctx.scale(4, 8))]
        check_runs(ctx, batch, env, case, runs, 'random')
    batch.flush()


# ---------------------------------------------------------------- part 2: every shared cache (memo tie + oracle)

MEMO_EV = {('get', True): 'hit', ('get', False): 'miss', ('set', True): 'stored'}


def memo_tie(ctx, batch, tr, inp):
    """the accesses of every plain memo cache (all shared caches but the translator cache), in their global order, against the
    concurrent memo model (Model/SharedMemo.lean): same threads, same keys looked up, same schedule -> same hit/miss/stored"""
    if any(o['crash'] or any(r[0] != 'ok' for r in o['results']) for o in tr['outs']): return
    pos = [0] * len(tr['outs']); events = []
    for t in tr['picks']:
        log = tr['outs'][t]['log']
        if pos[t] >= len(log):
            ctx.divergence('memo tie: a pick without a cache access', inp); return
        events.append((t, log[pos[t]])); pos[t] += 1
    if any(pos[t] != len(o['log']) for t, o in enumerate(tr['outs'])):
        ctx.divergence('memo tie: more cache accesses than picks', inp); return
    for name in ('string2ast', 'ast', 'extractors', 'adapted', 'csql'):
        evs = [(t, e) for t, e in events if e['cache'] == name]
        if not evs: continue
        real = [MEMO_EV.get((e['op'], e['found']), e['op']) for _, e in evs]
        progs = [[e['key'] for tt, e in evs if tt == t and e['op'] == 'get'] for t in range(len(tr['outs']))]
        sched = [t for t, _ in evs]
        def on_model(mout, name=name, real=real, progs=progs, sched=sched):
            for ev in mout.get('events', []): ctx.count('memo:%s:%s' % (name, ev))
            if mout.get('events') != real:
                ctx.divergence('memo protocol of %s: model and real accesses disagree' % name, dict(inp, cache=name, keys=progs, sched=sched),
                               model=mout.get('events'), impl=real)
        batch.add({'op': 'memo', 'progs': progs, 'sched': sched}, on_model)




def part2(ctx, env):
    from pony.orm import asttranslation, decompiling
    E, D, db = env.E, env.D, env.db
    names = ['string2ast', 'ast', 'extractors', 'adapted', 'csql', 'tr', 'compile']
    saved = (core.string2ast_cache, decompiling.ast_cache, asttranslation.extractors_cache, core.adapted_sql_cache, db._constructed_sql_cache)
    dicts = {n: SchedDict(env, n) for n in names[:5]}
    core.string2ast_cache = dicts['string2ast']; decompiling.ast_cache = dicts['ast']
    asttranslation.extractors_cache = dicts['extractors']; core.adapted_sql_cache = dicts['adapted']
    db._constructed_sql_cache = dicts['csql']
    # a yield point INSIDE the miss branch of create_extractors (each external expression is compiled there): a thread switch
    # between the lookup, the filling of the extractors dict and the store becomes schedulable
    real_compile = compile
    def yielding_compile(*a, **kw):
        tid = getattr(tl, 'tid', None)
        if tid is not None and 'compile' in tl.yield_at:
            tl.sched.point(tid, ('compile', 'call'))
            tl.log.append({'cache': 'compile', 'op': 'compile', 'key': None, 'found': True})
        return real_compile(*a, **kw)
    asttranslation.compile = yielding_compile
    def clear_all():
        for d in dicts.values(): dict.clear(d)
        for ent in (E, D, env.M):
            for a in ('_find_sql_cache_', '_load_sql_cache_', '_batchload_sql_cache_', '_insert_sql_cache_', '_update_sql_cache_', '_delete_sql_cache_'):
                c = getattr(ent, a, None)
                if isinstance(c, dict): c.clear()
            for attr in ent._attrs_:
                if getattr(attr, 'lazy_sql_cache', None) is not None: attr.lazy_sql_cache = None
                for a in ('cached_load_sql', 'cached_add_m2m_sql', 'cached_remove_m2m_sql', 'cached_count_sql', 'cached_empty_sql'):
                    c = getattr(attr, a, None)
                    if isinstance(c, dict): c.clear()
    # operations (each returns a canonical value); parameters differ per thread
    # string queries resolve names in the calling frame: every name used in the text is a local of `f`
    def op_strq(n0):
        def f(env): E = env.E; n = n0; return sorted(select("e.name[:n] for e in E")[:])
        return f
    def op_strq2(x0):
        def f(env): E = env.E; x = x0; return sorted(e.id for e in select("e for e in E if e.a >= x"))
        return f
    def op_lam(x): return lambda env: sorted(e.id for e in E.select(lambda e: e.a >= x))
    def op_lamslice(n): return lambda env: sorted(e.id for e in E.select(lambda e: e.name[:n] != 'a'))
    def op_limit(k): return lambda env: [e.id for e in E.select().order_by(E.id)[:k]]
    def op_distinct(k): return lambda env: sorted(select(e.a % k for e in E).without_distinct()[:]) if k % 2 else sorted(select(e.a % k for e in E)[:])
    def op_get(i): return lambda env: E.get(a=i).name
    def op_pk(i): return lambda env: E[i].name
    def op_raw(x0):
        def f(env): x = x0; return sorted(db.select("select id from E where a >= $x"))
        return f
    def op_rawent(x0):
        def f(env): x = x0; return sorted(e.id for e in E.select_by_sql("select * from E where a >= $x"))
        return f
    def op_lazy(i): return lambda env: E[i].lz
    def op_coll(i): return lambda env: sorted(d.id for d in E[i].ds)
    def op_count(i): return lambda env: (E[i].ds.count(), E[i].ms.is_empty())
    def op_nav(i): return lambda env: D[i].e.name
    def op_exists(x): return lambda env: E.exists(lambda e: e.a > x)
    def op_strfilter(k0):
        def f(env): k = k0; return [e.id for e in select(e for e in E).filter("e.name[k:] != ''").order_by("e.id")]
        return f
    makers = [(op_limit, [1, 2, 3, 4]), (op_distinct, [2, 3]), (op_strq, [1, 2, 3]), (op_strq2, [0, 2, 4]), (op_lam, [0, 2, 4]), (op_lamslice, [1, 2, 3]), (op_get, [1, 2, 3]), (op_pk, [1, 2, 3]),
              (op_raw, [0, 2, 4]), (op_rawent, [0, 2, 4]), (op_lazy, [1, 2, 3]), (op_coll, [1, 2, 3]), (op_count, [1, 2, 3]), (op_nav, [1, 2, 3]),
              (op_exists, [1, 3, 9]), (op_strfilter, [1, 2, 3])]
    batch = Batch(ctx)
    saved_clear = env.clear_caches
    def clear_both():
        saved_clear(); clear_all()
    env.clear_caches = clear_both
    try:
        def evaluate(desc, progs, solo, tr, kind):
            inp = {'ops': desc, 'picks': tr['picks']}
            ctx.case(inp, nontrivial=len(tr['picks']) > 3, kind=kind)
            memo_tie(ctx, batch, tr, inp)
            ctx.count('part2:picks', len(tr['picks']))
            for t, out in enumerate(tr['outs']):
                got = out['results'] if not out['crash'] else [['crash', out['crash']]]
                if got != solo[t]:
                    env.check_alive()
                    j = next((k for k, (a, b) in enumerate(itertools.zip_longest(got, solo[t])) if a != b), 0)
                    opname = desc[t][j][0] if j < len(desc[t]) else '?'
                    kind_ = got[j][0] if j < len(got) and got[j][0] != 'ok' else 'value'
                    ctx.violation('a thread running concurrently with others got a result different from the one it gets alone '
                                  '(shared cache interference)', inp, observed={'thread': t, 'op': j, 'got': got[j] if j < len(got) else None},
                                  expected=solo[t][j] if j < len(solo[t]) else None, key='shared-cache:%s:%s' % (opname, kind_))
                    break
        # the smallest programs first: two threads preparing the SAME never-prepared query, ALL interleavings of their cache accesses
        # and of the `compile` calls inside create_extractors (capped)
        for mk, arg in ((op_lam, 2), (op_strq, 2), (op_get, 1), (op_raw, 2)):
            desc = [[[mk.__name__, arg]], [[mk.__name__, arg]]]
            progs = [[{'do': mk(arg), 'shape': mk.__name__}], [{'do': mk(arg), 'shape': mk.__name__}]]
            solo = [run_solo(env, p)['results'] for p in progs]
            nrun = 0
            # every single-preemption schedule: thread `a` runs k accesses, thread `b` runs to its end, `a` finishes
            for a, b in ((0, 1), (1, 0)):
                k = 0
                while k < 200:
                    state = {'n': 0}
                    def ch(i, alive, a=a, b=b, k=k, state=state):
                        if state['n'] < k and a in alive: state['n'] += 1; return a
                        return b if b in alive else alive[0]
                    tr = run_real(env, progs, ch, yield_at=tuple(names))
                    evaluate(desc, progs, solo, tr, 'all-caches-preemption'); nrun += 1
                    if state['n'] < k: break          # thread a has fewer than k accesses: all switch points done
                    k += 1
            for tr in explore(env, progs, ctx.scale(20, 200), yield_at=tuple(names)):
                evaluate(desc, progs, solo, tr, 'all-caches-exhaustive'); nrun += 1
            ctx.count('part2:exhaustive:%s' % mk.__name__, nrun)
        n = ctx.scale(40, 250)
        for i in range(n):
            rng = ctx.rng
            nthreads = rng.choice([2, 2, 3])
            hot = rng.sample(range(len(makers)), rng.choice([1, 2, 3]))
            desc = []; progs = []
            for t in range(nthreads):
                d = []; p = []
                for _ in range(rng.choice([1, 2, 3])):
                    mi = rng.choice(hot); mk, dom = makers[mi]; arg = rng.choice(dom)
                    d.append([mk.__name__, arg]); p.append({'do': mk(arg), 'shape': mk.__name__})
                desc.append(d); progs.append(p)
            solo = [run_solo(env, p)['results'] for p in progs]
            for s, d in zip(solo, desc):
                for r, dd in zip(s, d):
                    if r[0] != 'ok': ctx.count('part2:solo-error:%s:%s' % (dd[0], r[0]))
            for _ in range(ctx.scale(5, 8)):
                tr = run_real(env, progs, random_chooser(rng, rng.choice([0.0, 0.5])), yield_at=tuple(names))
                evaluate(desc, progs, solo, tr, 'all-caches')
        batch.flush()
    finally:
        env.clear_caches = saved_clear
        core.string2ast_cache, decompiling.ast_cache, asttranslation.extractors_cache, core.adapted_sql_cache, db._constructed_sql_cache = saved
        try: del asttranslation.compile          # back to the builtin
        except AttributeError: pass


# ---------------------------------------------------------------- part 3: cross-thread object use

def part3(ctx, env):
    """objects loaded in thread A's LIVE session are used from thread B (inside B's own db_session).
    Every use that needs the session machinery (load from the database, link with another session's objects, modify)
    must raise; a read of an already loaded value returns A's value."""
    E, D, M, db = env.E, env.D, env.M, env.db
    box = {}
    evA = threading.Event(); evB = threading.Event()
    resA = {}
    def A():
        try:
            with db_session:
                box['e1'] = E[1]; box['d2'] = D[2]; box['e2'] = box['d2'].e; box['m1'] = M[1]
                box['e3'] = E[3]; list(box['e3'].ds); list(box['e3'].ms)
                box['e5'] = E[5]; box['e5'].a = 50; box['e1'].js
                evA.set(); evB.wait(30)
                e1 = box['e1']
                resA['after'] = {'name': e1._vals_.get(E.name), 'status': e1._status_, 'lz_loaded': E.lz in e1._vals_,
                                 'd2_status': box['d2']._status_, 'modified': core.local.db2cache[db].modified}
                rollback()
        except BaseException:
            resA['crash'] = traceback.format_exc()[-600:]
        finally:
            evA.set()
            try: db.disconnect()
            except Exception: pass
    results = []
    def B():
        evA.wait(30)
        try:
            e1, d2, e2, m1, e3, e5 = box['e1'], box['d2'], box['e2'], box['m1'], box['e3'], box['e5']
            def t(name, must_raise, f):
                try:
                    with db_session:
                        try: r = ['ok', repr(f())[:60]]
                        finally: rollback()
                except Exception as e:
                    r = [type(e).__name__, isinstance(e, core.OrmError)]
                results.append((name, must_raise, r))
            mine = {}
            def eb(): return E[4]
            def dbb(): return D[5]
            t('read-loaded-attr', False, lambda: e1.name)
            t('read-loaded-collection', False, lambda: sorted(d.id for d in e3.ds))
            t('obj.load()', True, lambda: e1.load())
            t('seed-attr-load', True, lambda: e2.name)
            t('lazy-attr-load', True, lambda: e1.lz)
            t('collection-iterate', True, lambda: list(e1.ds))
            t('collection-len', True, lambda: len(e1.ms))
            t('collection-count', True, lambda: e1.ds.count())
            t('collection-is_empty', True, lambda: e1.ms.is_empty())
            t('assign-reference', True, lambda: setattr(dbb(), 'e', e1))
            t('create-with-reference', True, lambda: D(e=e1))
            t('collection-add', True, lambda: eb().ds.add(d2))
            t('collection-contains', True, lambda: d2 in eb().ds)
            t('collection-assign', True, lambda: setattr(eb(), 'ds', [d2]))
            t('collection-remove', True, lambda: eb().ds.remove(d2))
            t('get-by-reference', True, lambda: D.get(e=e1))
            t('foreign.reference=mine', True, lambda: setattr(d2, 'e', eb()))
            t('foreign.collection.add(mine)', True, lambda: e1.ds.add(dbb()))
            t('foreign.flush()-of-modified', True, lambda: e5.flush())
            t('foreign.loaded-collection.remove', True, lambda: e3.ms.remove(list(e3.ms)))
            t('foreign.loaded-collection.clear', True, lambda: e3.ms.clear())
            t('foreign.loaded-collection=[]', True, lambda: setattr(e3, 'ms', []))
            t('foreign.json-in-place', True, lambda: e1.js['k'].append(9))
            t('foreign.attr=value', True, lambda: setattr(e1, 'name', 'hacked'))
            t('foreign.delete()', True, lambda: d2.delete())
            t('foreign.set()', True, lambda: e1.set(a=77))
        except BaseException:
            results.append(('crash', True, ['crash', traceback.format_exc()[-600:]]))
        finally:
            evB.set()
            try: db.disconnect()
            except Exception: pass
    ta = threading.Thread(target=A, daemon=True); tb = threading.Thread(target=B, daemon=True)
    ta.start(); tb.start(); ta.join(60); tb.join(60)
    if 'crash' in resA: ctx.divergence('cross-thread part: thread A crashed', {}, impl=resA['crash'])
    for name, must_raise, r in results:
        ctx.case({'cross_thread_use': name}, kind='cross-thread')
        ctx.count('cross-thread:%s:%s' % (name, r[0]))
        if name == 'crash':
            ctx.divergence('cross-thread part: thread B crashed', {}, impl=r[1]); continue
        if must_raise and r[0] == 'ok':
            ctx.violation('an object loaded in thread A\'s live session was used from thread B (%s) and no error was raised' % name,
                          {'cross_thread_use': name, 'session_A_after': resA.get('after')}, observed=r,
                          expected='TransactionError', key='cross-thread:' + name)
        elif must_raise and r[1] is not True:
            ctx.violation('cross-thread use (%s) failed with a non-ORM exception' % name, {'cross_thread_use': name}, observed=r,
                          expected='TransactionError', key='cross-thread-exc:' + name)
        elif not must_raise and r[0] != 'ok':
            ctx.note('plain read of loaded data from another thread raised %s (%s)' % (r[0], name))
    ctx.extra['cross_thread'] = {name: r[0] for name, _, r in results}
    ctx.extra['cross_thread_session_A_after'] = resA.get('after')

    # thread-local session state: a db_session in one thread is not visible in another
    seen = {}
    go = threading.Event(); fin = threading.Event()
    def S1():
        with db_session:
            E[1].name
            seen['s1_cache'] = id(core.local.db2cache.get(db)); seen['s1_counter'] = core.local.db_context_counter
            go.set(); fin.wait(30)
        try: db.disconnect()
        except Exception: pass
    def S2():
        go.wait(30)
        seen['s2_cache_before'] = core.local.db2cache.get(db); seen['s2_counter'] = core.local.db_context_counter
        try: E[1]; seen['s2_without_session'] = 'ok'
        except Exception as e: seen['s2_without_session'] = type(e).__name__
        fin.set()
    t1 = threading.Thread(target=S1, daemon=True); t2 = threading.Thread(target=S2, daemon=True)
    t1.start(); t2.start(); t1.join(60); t2.join(60)
    ctx.case({'thread_local': 'db_session'}, kind='thread-local')
    if seen.get('s2_cache_before') is not None or seen.get('s2_counter') != 0 or seen.get('s2_without_session') != 'TransactionError':
        ctx.violation('the db_session of one thread is visible in another thread', {'thread_local': 'db_session'},
                      observed={k: (v if not k.endswith('before') else repr(v)) for k, v in seen.items()},
                      expected='no session cache, counter 0, TransactionError(db_session is required)', key='thread-local:db_session')


# ---------------------------------------------------------------- entry points

def run(ctx, extra=None):
    if not ctx.driver.ok: ctx.note('driver unavailable: correspondence skipped, oracle only')
    env = Env()
    try:
        if extra is not None: replay_input(ctx, env, extra)
        import time
        t0 = time.time(); part1(ctx, env)
        t1 = time.time(); part2(ctx, env)
        t2 = time.time(); part3(ctx, env)
        ctx.extra['part_seconds'] = {'translator-cache': round(t1 - t0, 1), 'all-caches': round(t2 - t1, 1), 'cross-thread': round(time.time() - t2, 1)}
    finally:
        env.close()


def replay_input(ctx, env, inp):
    if 'progs' in inp and 'picks' in inp:
        progs = [[rq(r['shape'], base=r.get('base'), **r['params']) for r in p] for p in inp['progs']]
        case = Case(env, progs)
        old = bool(inp.get('old_code_emulation'))
        env.del_mode = old
        try: tr = run_real(env, progs, picks_chooser(inp['picks']))
        finally: env.del_mode = False
        batch = Batch(ctx)
        check_runs(ctx, batch, env, case, [tr], 'replay', old=old)
        batch.flush()


def replay(ctx, data):
    inp = data.get('input') if isinstance(data, dict) else None
    if not inp and data.get('divergences'):
        inp = data['divergences'][0].get('input')
    run(ctx, extra=inp if isinstance(inp, dict) else None)
