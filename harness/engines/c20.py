"""C20 — optimistic concurrency control prevents lost updates.

Real sessions: two or three threads, each in its own `db_session`, on ONE file-backed SQLite database (one shared
`Database` object, one connection per thread).  A deterministic scheduler hands the processor to exactly one thread
at a time; a thread gives it back (a) when its current operation is finished and (b) before every SQL statement of an
operation except the first (statement granularity: `flush()` of k objects = k segments, `commit()` = k + 1 …).
The provider's `transaction_lock` / `pre_transaction_lock` are replaced by lock objects that report `blocked` to the
scheduler instead of blocking the OS thread (same mutual exclusion, same queueing).

Tie: the same programs and the same list of thread picks are run by the Lean model (PonyVerif/Model/Occ.lean, through the
driver); per segment the outcome (ok + value / flushing / blocked / OptimisticCheckError / UnrepeatableReadError), the
acting session's cache (`_rbits_`, `_wbits_`, `_dbvals_`, `_vals_`, status, objects_to_save, for_update, in_transaction,
immediate), the lock holders and at the end the committed rows are compared.

Property oracle (on the real code only, from the engine's own bookkeeping, never from the model): at every UPDATE that
Pony executes with rowcount 1 the COMMITTED row (read through an independent connection) must still hold, for every
attribute the session read from that object, the value it read — unless the attribute is excluded by its declaration
(optimistic=False, float without optimistic=True, volatile), the object was locked with get_for_update, or the session
is not optimistic.  A failed session must leave the committed rows unchanged; rows change only at a COMMIT and then by
exactly the UPDATEs of that transaction.
"""
import itertools, json, os, re, sqlite3, threading, traceback

from pony.orm import Database, Required, Optional, PrimaryKey, db_session, commit, flush, rollback, select
from pony.orm import core
import ponyutil

tl = threading.local()
QN = [0]

# index = model attribute number
ATTRS = [('a', 'int'), ('b', 'int-null'), ('c', 'float'), ('d', 'int-nonopt'), ('e', 'float-opt'),
         ('f', 'int-volatile'), ('g', 'int-lazy'), ('h', 'str')]
NAMES = [n for n, _ in ATTRS]
KIND = dict(ATTRS)
IDX = {n: i for i, n in enumerate(NAMES)}
LAZY = [i for i, (n, k) in enumerate(ATTRS) if k == 'int-lazy']
VOLATILE = [i for i, (n, k) in enumerate(ATTRS) if k == 'int-volatile']
# excluded from the optimistic check BY DECLARATION (intended semantics, not computed by Pony)
NONOPT = [i for i, (n, k) in enumerate(ATTRS) if k in ('float', 'int-nonopt')]
EXCLUDED = set(NONOPT) | set(VOLATILE)
NULLABLE = ('int-null', 'int-lazy')
OBJS = [1, 2]
FSTEP = 2.0 ** -30   # optimistic float tolerance 1e-14 (exactly representable steps), far below any looser comparison


def dec(kind, n):
    if kind in ('int-null', 'int-lazy'): return None if n == -1 else n
    if kind in ('float', 'float-opt'): return 1.5 + n * FSTEP      # neighbouring values differ by ~6e-10 relative: far above the
    if kind == 'str': return 's%d' % n
    return n


def enc(kind, v):
    if v is None: return -1
    if kind in ('float', 'float-opt'): return int(round((v - 1.5) / FSTEP))
    if kind == 'str': return int(v[1:])
    return int(v)


def sess_of(case, t):
    """the db_session options of thread t: immediate, ddl, serializable, optimistic and the form (context manager / decorator)"""
    d = {'imm': False, 'ddl': False, 'ser': False, 'opt': True, 'form': 'with'}
    if 'sess' in case: d.update(case['sess'][t])
    elif 'sessOpt' in case: d['opt'] = bool(case['sessOpt'][t])
    return d


def declared(d):
    """INTENDED flags of a session (not computed by Pony): (transaction starts with the first statement, optimistic checks on)"""
    return (d['imm'] or d['ddl'] or d['ser'] or not d['opt'], d['opt'] and not d['ser'])


class Cur(sqlite3.Cursor):
    def execute(self, sql, *args):
        ctx = getattr(tl, 'ctx', None)
        if ctx is not None: ctx.before_stmt(sql)
        r = super().execute(sql, *args)
        if ctx is not None: ctx.after_stmt(sql, args[0] if args else (), self)
        return r


class Con(sqlite3.Connection):
    def cursor(self, factory=Cur):
        return super().cursor(factory)
    def commit(self):
        ctx = getattr(tl, 'ctx', None)
        if ctx is not None and self.in_transaction: ctx.before_stmt('COMMIT')
        was = self.in_transaction
        super().commit()
        if ctx is not None and was: ctx.after_commit()
    def rollback(self):
        ctx = getattr(tl, 'ctx', None)
        super().rollback()
        if ctx is not None: ctx.txn_sets = []


class SchedLock(object):
    """stands in for threading.Lock in SQLiteProvider: only one thread runs at a time, so ownership is a field;
    a thread that would block reports `blocked` to the scheduler and retries when it is scheduled again"""
    def __init__(self):
        self.owner = None
    def acquire(self, blocking=True, timeout=-1):
        ctx = getattr(tl, 'ctx', None)
        while self.owner is not None:
            if ctx is None: raise RuntimeError('provider lock held outside the scheduler')
            ctx.yield_(('blocked', None), snap=False)
        self.owner = ctx.tid if ctx is not None else 'main'
        return True
    def release(self):
        self.owner = None
    def locked(self):
        return self.owner is not None


class Sched(object):
    def __init__(self, n):
        self.go = [threading.Semaphore(0) for _ in range(n)]
        self.back = threading.Semaphore(0)
        self.rep = None
    def handoff(self, tid, rep):
        self.rep = rep; self.back.release(); self.go[tid].acquire()
    def finish(self, tid, rep):
        self.rep = rep; self.back.release()
    def resume(self, tid):
        self.go[tid].release()
        if not self.back.acquire(timeout=30):
            raise RuntimeError('scheduler: thread %d did not hand control back' % tid)
        return self.rep


class Env(object):
    """one database file + entity for a whole run; rows are reset between cases"""
    def __init__(self):
        self.wd = ponyutil.workdir('c20')
        self.path = os.path.join(self.wd, 'occ.sqlite')
        db = self.db = Database()
        class Acc(db.Entity):
            id = PrimaryKey(int)
            a = Required(int)
            b = Optional(int)
            c = Required(float)
            d = Required(int, optimistic=False)
            e = Required(float, optimistic=True)
            f = Required(int, volatile=True)
            g = Optional(int, lazy=True)
            h = Required(str)
        self.E = Acc
        @db.on_connect(provider='sqlite')
        def fast(db, connection):
            connection.execute('PRAGMA synchronous = OFF')
        db.bind('sqlite', self.path, create_db=True, factory=Con, timeout=1.0)
        db.generate_mapping(create_tables=True)
        db.disconnect()
        self.lock = db.provider.transaction_lock = SchedLock()
        self.pre = db.provider.pre_transaction_lock = SchedLock()
        self.insp = sqlite3.connect(self.path, isolation_level=None, check_same_thread=False, timeout=1.0)
        self.insp.execute('PRAGMA synchronous = OFF')
        self.violations = []
    def reset(self, rows):
        c = self.insp
        c.execute('BEGIN'); c.execute('DELETE FROM Acc')
        for o in OBJS:
            c.execute('INSERT INTO Acc (id, %s) VALUES (?%s)' % (', '.join(NAMES), ', ?' * len(NAMES)),
                      [o] + [dec(KIND[n], rows[o][i]) for i, n in enumerate(NAMES)])
        c.execute('COMMIT')
        self.lock.owner = self.pre.owner = None
    def committed(self):
        """the committed rows, encoded: {o: [v per attr]}"""
        out = {}
        for row in self.insp.execute('SELECT id, %s FROM Acc ORDER BY id' % ', '.join(NAMES)).fetchall():
            out[row[0]] = [enc(KIND[n], row[1 + i]) for i, n in enumerate(NAMES)]
        return out
    def close(self):
        try: self.insp.close()
        except Exception: pass
        try: self.db.disconnect()
        except Exception: pass
        ponyutil.rmtree(self.wd)


class Ctx(object):
    """per worker thread: scheduling, statement hook, oracle bookkeeping"""
    def __init__(self, tid, env, sched, sess):
        self.tid = tid; self.env = env; self.sched = sched; self.sess = sess
        self.imm0, self.opt = declared(sess)
        self.kw = dict(immediate=sess['imm'], ddl=sess['ddl'], serializable=sess['ser'], optimistic=sess['opt'])
        self.nstmt = 0; self.suppress = False
        self.events = []
        self.txn_sets = []
        self.new_session()
    def new_session(self):
        self.objs = {}
        self.seen = {}        # (o, attr index) -> value the application read from the database and relies on
        self.written = set()  # (o, attr index) assigned by the application in this session
        self.locked = set()   # objects locked with get_for_update in the current transaction
        self.neg = {}         # (o, attr index) -> values v for which a lookup answered from the cached object said `o.a != v`
    def begin_op(self):
        self.nstmt = 0; self.suppress = False
    # ---- scheduling
    def report(self, rep, snap, done):
        ev, self.events = self.events, []
        return {'res': rep[0], 'v': rep[1], 'snap': self.snap() if snap else None, 'events': ev, 'locks': self.locks(), 'done': done}
    def yield_(self, rep, snap=True):
        self.sched.handoff(self.tid, self.report(rep, snap, False))
    def finish(self, rep):
        self.sched.finish(self.tid, self.report(rep, True, True))
    def locks(self):
        return [self.env.lock.owner, self.env.pre.owner]
    # ---- statement hook
    def before_stmt(self, sql):
        kind = sql.split(None, 1)[0].upper()
        if kind not in ('SELECT', 'UPDATE', 'COMMIT'): return
        if self.nstmt >= 1 and not self.suppress:
            self.yield_(('flushing', None))
        self.nstmt += 1
    def after_stmt(self, sql, args, cursor):
        if not sql.startswith('UPDATE'): return
        m = re.match(r'UPDATE "Acc"\s+SET (.*?)\s+WHERE (.*)$', sql, re.S)
        set_cols = re.findall(r'"(\w+)" = \?', m.group(1))
        where_cols = re.findall(r'"(\w+)"', m.group(2))
        args = list(args)
        o = args[len(set_cols)]
        sets = {IDX[c]: enc(KIND[c], v) for c, v in zip(set_cols, args)}
        # the optimistic criteria as generated: [attr, 'null'] for `col IS NULL`, [attr, encoded value] for `col = ?`
        crit = []; rest = args[len(set_cols) + 1:]; k = 0
        for line in re.split(r'\s+AND\s+', m.group(2))[1:]:
            col = re.search(r'"(\w+)"', line).group(1)
            n = line.count('?')
            if 'IS NULL' in line: crit.append([IDX[col], 'null'])
            else:
                vals = rest[k:k + n]; k += n
                if not vals or any(v != vals[0] for v in vals): crit.append([IDX[col], 'bad-params'])
                else: crit.append([IDX[col], 'eq-none' if vals[0] is None else enc(KIND[col], vals[0])])
        ev = {'stmt': 'UPDATE', 'o': o, 'set': sets, 'where': [c[0] for c in crit], 'crit': crit, 'rowcount': cursor.rowcount}
        self.events.append(ev)
        if cursor.rowcount == 0:
            self.suppress = True    # the diagnostic SELECT of find_updated_attributes belongs to the same step
            return
        self.applied_update_oracle(o, sets)
        self.txn_sets.append((o, sets))
    def after_commit(self):
        self.events.append({'stmt': 'COMMIT', 'sets': [[o, sorted(s.items())] for o, s in self.txn_sets]})
        for o, sets in self.txn_sets:
            for a, w in sets.items():
                if (o, a) in self.seen: self.seen[(o, a)] = w   # what this session itself committed
        self.txn_sets = []
    # ---- the property, evaluated on the real database at the moment Pony's UPDATE was applied
    def applied_update_oracle(self, o, sets):
        env = self.env
        if not self.opt or o in self.locked: return
        row = env.committed().get(o)
        for (o2, a), v in sorted(self.seen.items()):
            if o2 != o or a in EXCLUDED: continue
            if row is None or row[a] != v:
                kind = 'lost-update' if (o, a) in self.written else 'stale-read'
                env.violations.append({'kind': kind, 'attr_kind': ATTRS[a][1], 'thread': self.tid, 'object': o, 'attr': NAMES[a],
                                       'value_read': v, 'committed_now': None if row is None else row[a],
                                       'update_set': {NAMES[k]: w for k, w in sets.items()}})
        for (o2, a), vals in sorted(self.neg.items()):
            if o2 != o or a in EXCLUDED or (o, a) in self.written or row is None: continue
            if row[a] in vals:
                env.violations.append({'kind': 'stale-read', 'attr_kind': ATTRS[a][1], 'thread': self.tid, 'object': o, 'attr': NAMES[a],
                                       'observed': 'a lookup answered from the cached object said %s != %r' % (NAMES[a], row[a]),
                                       'committed_now': row[a], 'update_set': {NAMES[k]: w for k, w in sets.items()}})
    # ---- the acting session's cache, in the shape the model driver prints
    def snap(self):
        cache = core.local.db2cache.get(self.env.db)
        if cache is None or not cache.is_alive:
            return {'alive': False, 'inTxn': False, 'immediate': self.imm0, 'toSave': [], 'qcache': 0, 'forUpd': [], 'objs': []}
        E = self.env.E
        bits = [E._bits_[getattr(E, n)] for n in NAMES]
        objs = []
        for obj in sorted(cache.objects, key=lambda x: x._pkval_):
            def pairs(d):
                out = []
                for i, n in enumerate(NAMES):
                    attr = getattr(E, n)
                    if attr in d: out.append([i, enc(KIND[n], d[attr])])
                return out
            objs.append({'o': obj._pkval_, 'status': obj._status_,
                         'rbits': [i for i, b in enumerate(bits) if obj._rbits_ & b],
                         'wbits': [i for i, b in enumerate(bits) if obj._wbits_ & b],
                         'dbvals': pairs(obj._dbvals_), 'vals': pairs(obj._vals_)})
        return {'alive': True, 'inTxn': bool(cache.in_transaction), 'immediate': bool(cache.immediate),
                'toSave': [x._pkval_ for x in cache.objects_to_save if x is not None], 'qcache': len(cache.query_results),
                'forUpd': sorted(x._pkval_ for x in cache.for_update), 'objs': objs}


def do_op(ctx, op):
    E = ctx.env.E
    k = op['k']
    if k == 'get':
        o = op['o']
        ctx.objs[o] = E.get_for_update(id=o) if op['fu'] else E.get(id=o)
        if op['fu']: ctx.locked.add(o)
        return 'ok', None
    if k == 'fetch':
        o = op['o']
        ctx.objs[o] = E.get_by_sql('SELECT id%s FROM Acc WHERE id = %d' % (''.join(', ' + NAMES[a] for a in op['as']), o))
        return 'ok', None
    if k == 'read':
        obj = ctx.objs.get(op['o'])
        if obj is None: return 'notLoaded', None
        name = NAMES[op['a']]
        v = enc(KIND[name], getattr(obj, name))
        # the FIRST value the application got counts (reads must be repeatable); own commits update it (after_commit)
        if (op['o'], op['a']) not in ctx.written: ctx.seen.setdefault((op['o'], op['a']), v)
        return 'ok', v
    if k == 'find':                     # E.get(id=o, a=v) / E.exists(id=o, a=v): by the identity map (then `a` is read from the
        o = op['o']; name = NAMES[op['a']]   # cached object, whether or not it matches) or by SQL
        kw = {name: dec(KIND[name], op['v'])}
        cached = o in ctx.objs              # the application holds the object: the lookup is answered from the identity map
        if op.get('ex'):
            found = E.exists(id=o, **kw)
            if found and o not in ctx.objs: ctx.objs[o] = E.get(id=o)      # identity-map hit: no SQL, nothing marked
        else:
            obj = E.get(id=o, **kw)
            found = obj is not None
            if found: ctx.objs[o] = obj
        if (o, op['a']) not in ctx.written:
            if found: ctx.seen.setdefault((o, op['a']), op['v'])
            elif cached: ctx.neg.setdefault((o, op['a']), set()).add(op['v'])   # learnt from the cached object: o.a != v
        return 'ok', 1 if found else 0
    if k == 'select':                   # select(x for x in E if x.a == v)[.for_update()][:]  (may be answered by cache.query_results)
        name = NAMES[op['a']]
        val = dec(KIND[name], op['v'])
        # one translator per (attribute, plain / for update): a translator that has once built the FOR UPDATE statement keeps
        # `query_result_is_cacheable = False`, and one that is re-created for another pinned attribute name (getattr) starts
        # with True again; Pony's intent, and the model: FOR UPDATE results are never cached, plain ones always
        if op['fu']: q = select('y for y in E if y.%s == val' % name).for_update()
        else: q = select('x for x in E if x.%s == val' % name)
        found = q[:]
        for obj in found:
            o = obj.id
            ctx.objs[o] = obj
            if op['fu']: ctx.locked.add(o)
            if (o, op['a']) not in ctx.written: ctx.seen.setdefault((o, op['a']), op['v'])
        return 'ok', sum(2 ** obj.id for obj in found)
    if k == 'write':
        obj = ctx.objs.get(op['o'])
        if obj is None: return 'notLoaded', None
        name = NAMES[op['a']]
        setattr(obj, name, dec(KIND[name], op['v']))
        ctx.written.add((op['o'], op['a']))
        return 'ok', None
    if k == 'flush':
        flush(); return 'ok', None
    if k == 'commit':
        commit(); ctx.locked = set(); return 'ok', None
    if k == 'rollback':
        rollback(); ctx.new_session(); return 'ok', None
    raise ValueError(k)


def worker(ctx, prog):
    tl.ctx = ctx
    ctx.sched.go[ctx.tid].acquire()
    i = 0
    try:
        while i < len(prog):
            try:
                def session_body():
                    nonlocal i
                    ctx.new_session()
                    while prog[i]['k'] != 'close':
                        ctx.begin_op()
                        res, v = do_op(ctx, prog[i])
                        i += 1
                        ctx.yield_((res, v))
                    ctx.begin_op()      # leaving the session = the `close` operation
                if ctx.sess['form'] == 'decorator': db_session(**ctx.kw)(session_body)()
                else:
                    with db_session(**ctx.kw): session_body()
                ctx.new_session()
                i += 1
                if i < len(prog): ctx.yield_(('ok', None))
            except (core.OptimisticCheckError, core.UnrepeatableReadError) as e:
                ctx.new_session()
                ctx.finish((type(e).__name__, str(e)[:200])); return
        ctx.finish(('ok', None))
    except BaseException as e:
        ctx.finish(('crash:' + type(e).__name__, traceback.format_exc()[-600:]))
    finally:
        tl.ctx = None
        try: ctx.env.db.disconnect()
        except Exception: pass


def run_real(env, case):
    """run the case on real Pony; returns one record per executed segment and the committed rows at the end"""
    env.reset(case['rows'])
    n = len(case['progs'])
    sched = Sched(n)
    ctxs = [Ctx(t, env, sched, sess_of(case, t)) for t in range(n)]
    threads = [threading.Thread(target=worker, args=(ctxs[t], case['progs'][t]), daemon=True) for t in range(n)]
    for th in threads: th.start()
    finished = [False] * n
    trace = []
    rows = env.committed()
    def one(t):
        nonlocal rows
        rep = sched.resume(t)
        after = env.committed()
        trace.append(dict(rep, t=t, before=rows, after=after))
        rows = after
        if rep['done']: finished[t] = True
    try:
        for p in case['picks']:
            if p >= 100:                       # op-level pick: the thread runs until its current operation ends (or it has to wait)
                t = p - 100
                while not finished[t]:
                    one(t)
                    if trace[-1]['res'] != 'flushing': break
            elif not finished[p]: one(p)
        guard = 0
        while not all(finished):
            for t in range(n):
                if not finished[t]: one(t)
            guard += 1
            if guard > 500: raise RuntimeError('scheduler: threads do not terminate')
    finally:
        for th in threads: th.join(5 if all(finished) else 0.01)
    return trace, rows


def model_request(case, picks):
    return {'op': 'run', 'attrs': list(range(len(ATTRS))), 'lazy': LAZY, 'volatile': VOLATILE, 'nonopt': NONOPT,
            'sessOpt': [declared(sess_of(case, t))[1] for t in range(len(case['progs']))],
            'sessImm': [bool(sess_of(case, t)['imm'] or sess_of(case, t)['ddl']) for t in range(len(case['progs']))], 'objs': OBJS,
            'store': [[o, a, case['rows'][o][a]] for o in OBJS for a in range(len(ATTRS))],
            'progs': case['progs'], 'picks': picks}


def commit_oracle(trace):
    """committed rows change only at a COMMIT, by exactly the applied UPDATEs of that transaction; a failed segment changes nothing"""
    bad = []
    for i, seg in enumerate(trace):
        commits = [e for e in seg['events'] if e['stmt'] == 'COMMIT']
        exp = {o: list(r) for o, r in seg['before'].items()}
        failed = seg['res'] in ('OptimisticCheckError', 'UnrepeatableReadError')
        if not failed:
            for c in commits:
                for o, sets in c['sets']:
                    for a, w in sets: exp[o][a] = w
        if exp != seg['after']:
            bad.append({'kind': 'failed-session-committed' if failed else 'commit-not-exact', 'segment': i, 'thread': seg['t'],
                        'res': seg['res'], 'before': seg['before'], 'after': seg['after'], 'expected': exp})
        # "otherwise the session fails": an UPDATE of an optimistic session that matched no row must raise
        refused = [e for e in seg['events'] if e['stmt'] == 'UPDATE' and e['rowcount'] == 0]
        if refused and seg['res'] != 'OptimisticCheckError':
            bad.append({'kind': 'refused-update-not-raised', 'segment': i, 'thread': seg['t'], 'res': seg['res'], 'update': refused[0]})
    return bad


def compare(case, trace, final_rows, mout):
    """first difference between the real run and the model run (None = they agree)"""
    steps = mout.get('steps')
    if steps is None: return {'what': 'driver error', 'model': mout}
    if len(steps) != len(trace): return {'what': 'length', 'model': len(steps), 'real': len(trace)}
    for i, (seg, ms) in enumerate(zip(trace, steps)):
        real_res = seg['res']
        if ms['res'] != real_res:
            return {'what': 'outcome', 'segment': i, 'thread': seg['t'], 'model': ms['res'], 'real': real_res, 'real_detail': seg['v']}
        if real_res == 'ok' and ms.get('v') != seg['v']:
            return {'what': 'value read', 'segment': i, 'thread': seg['t'], 'model': ms.get('v'), 'real': seg['v']}
        applied = [e['o'] for e in seg['events'] if e['stmt'] == 'UPDATE' and e['rowcount'] == 1]
        if (ms['upd'] is not None) != bool(applied) or (applied and applied != [ms['upd']]):
            return {'what': 'applied UPDATE', 'segment': i, 'thread': seg['t'], 'model': ms['upd'], 'real': applied}
        upds = [e for e in seg['events'] if e['stmt'] == 'UPDATE']
        if upds:
            mc = ms.get('crit')
            exp = None if mc is None else [[a, 'null' if (v == -1 and ATTRS[a][1] in NULLABLE) else ('missing' if v is None else v)] for a, v in mc['cols']]
            if mc is None or mc['o'] != upds[0]['o'] or exp != upds[0]['crit']:
                return {'what': 'WHERE clause of the optimistic UPDATE (column, IS NULL / = value)', 'segment': i, 'thread': seg['t'],
                        'model': None if mc is None else {'o': mc['o'], 'crit': exp}, 'real': {'o': upds[0]['o'], 'crit': upds[0]['crit']}}
        if real_res == 'blocked': continue
        if [ms['lock'], ms['pre']] != seg['locks']:
            return {'what': 'lock holders', 'segment': i, 'thread': seg['t'], 'model': [ms['lock'], ms['pre']], 'real': seg['locks']}
        if ms['snap'] != seg['snap']:
            keys = [k for k in ms['snap'] if ms['snap'][k] != seg['snap'].get(k)]
            return {'what': 'session cache: ' + ','.join(keys), 'segment': i, 'thread': seg['t'],
                    'model': {k: ms['snap'][k] for k in keys}, 'real': {k: seg['snap'].get(k) for k in keys}}
    mfinal = {o: [None] * len(ATTRS) for o in OBJS}
    for o, a, v in mout['store']: mfinal[o][a] = v
    if mfinal != final_rows:
        return {'what': 'final committed rows', 'model': mfinal, 'real': final_rows}
    return None


# ---------------------------------------------------------------- case generation

def gen_case(rng, uid):
    n = rng.choice([2, 2, 2, 3])
    hot = rng.sample(range(len(ATTRS)), rng.choice([1, 2, 2, 3]))
    if rng.random() < 0.4 and not any(ATTRS[a][1] in NULLABLE for a in hot): hot.append(rng.choice([1, 6]))
    if rng.random() < 0.6 and not any(ATTRS[a][1] in ('int', 'int-null', 'float-opt', 'str', 'int-lazy') for a in hot):
        hot.append(rng.choice([0, 1, 4, 7]))
    objs = [1] if rng.random() < 0.6 else [1, 2]
    rows = {o: [rng.choice([0, 1, 2]) if ATTRS[a][1] not in ('int-null', 'int-lazy') else rng.choice([-1, 0, 1]) for a in range(len(ATTRS))] for o in OBJS}
    counter = itertools.count(10 * (uid % 7) + 10)
    progs = []
    sess_opt = [rng.random() < 0.85 for _ in range(n)]
    for t in range(n):
        prog = []
        for _sess in range(rng.choice([1, 1, 1, 2])):
            loaded = set()
            for _ in range(rng.choice([2, 3, 4, 5, 6, 8])):
                r = rng.random()
                o = rng.choice(objs)
                if o not in loaded and r < 0.9:
                    if rng.random() < 0.12:
                        a = rng.choice(hot)
                        prog.append({'k': 'select', 'a': a, 'v': rows[o][a], 'fu': rng.random() < 0.2})
                        loaded.update(x for x in OBJS if rows[x][a] == rows[o][a])
                    elif rng.random() < 0.15:
                        a = rng.choice(hot)
                        prog.append({'k': 'find', 'o': o, 'a': a, 'v': rng.choice([rows[o][a], rows[o][a], 0, 1]), 'ex': rng.random() < 0.3})
                        if prog[-1]['v'] == rows[o][a]: loaded.add(o)
                    else:
                        prog.append({'k': 'get', 'o': o, 'fu': rng.random() < 0.1}); loaded.add(o)
                    continue
                a = rng.choice(hot)
                if r < 0.35: prog.append({'k': 'read', 'o': o, 'a': a})
                elif r < 0.65:
                    v = rng.choice([next(counter), rng.choice([0, 1, 2]), rows[o][a]])
                    if ATTRS[a][1] in NULLABLE and rng.random() < 0.4: v = -1
                    prog.append({'k': 'write', 'o': o, 'a': a, 'v': v})
                elif r < 0.73: prog.append({'k': 'flush'})
                elif r < 0.80: prog.append({'k': 'commit'})
                elif r < 0.88: prog.append({'k': 'fetch', 'o': o, 'as': sorted(rng.sample(range(len(ATTRS)), rng.choice([1, 2, len(ATTRS)])))})
                elif r < 0.93: prog.append({'k': 'get', 'o': o, 'fu': rng.random() < 0.5})
                elif r < 0.95: prog.append({'k': 'rollback'}); loaded = set()
                elif r < 0.97: prog.append({'k': 'find', 'o': o, 'a': a, 'v': rng.choice([rows[o][a], 0, 1, 2]), 'ex': rng.random() < 0.4})
                elif r < 0.995:
                    prog.append({'k': 'select', 'a': a, 'v': rng.choice([rows[o][a], rows[o][a], 0, 1]), 'fu': rng.random() < 0.25})
                    loaded.update(x for x in OBJS if rows[x][a] == prog[-1]['v'])
                else: prog.append({'k': 'read', 'o': o, 'a': rng.randrange(len(ATTRS))})
            prog.append({'k': 'close'})
        progs.append(prog)
    total = sum(len(p) for p in progs)
    style = rng.random()
    if style < 0.5:
        picks = [rng.randrange(n) for _ in range(2 * total)]
    elif style < 0.8:   # long runs of one thread (op-level interleavings, late conflicts)
        picks = []
        while len(picks) < 2 * total: picks += [rng.randrange(n)] * rng.choice([1, 2, 3, 5])
    else:               # nearly serial
        order = list(range(n)); rng.shuffle(order)
        picks = [t for t in order for _ in range(len(progs[t]) + 3)]
    sess = []
    for t in range(n):
        r = rng.random()
        d = {'imm': False, 'ddl': False, 'ser': False, 'opt': sess_opt[t], 'form': 'decorator' if rng.random() < 0.3 else 'with'}
        if r < 0.15: d['imm'] = True
        elif r < 0.22: d['ddl'] = True
        elif r < 0.28: d['ser'] = True
        elif r < 0.31: d.update(imm=True, ser=rng.random() < 0.5, ddl=rng.random() < 0.5)
        sess.append(d)
    return {'sess': sess, 'rows': rows, 'progs': progs, 'picks': picks}


def template_cases(rng, limit):
    """small fixed programs under ALL interleavings of their operations (classic lost update, stale read, excluded attributes)"""
    cases = []
    def rd(a): return {'k': 'read', 'o': 1, 'a': a}
    def wr(a, v): return {'k': 'write', 'o': 1, 'a': a, 'v': v}
    G = {'k': 'get', 'o': 1, 'fu': False}; GU = {'k': 'get', 'o': 1, 'fu': True}; C = {'k': 'close'}; F = {'k': 'flush'}; K = {'k': 'commit'}
    rows = {1: [1, 1, 1, 1, 1, 1, 1, 1], 2: [2, -1, 2, 2, 2, 2, -1, 2]}
    pairs = []
    for a in range(len(ATTRS)):
        pairs.append(([G, rd(a), wr(a, 50), C], [G, rd(a), wr(a, 60), C]))            # read-modify-write twice
        b = (a + 1) % len(ATTRS)
        pairs.append(([G, rd(a), wr(b, 51), C], [G, wr(a, 61), C]))                    # read a, write b  ||  write a
    pairs.append(([G, wr(0, 52), C], [G, wr(0, 62), C]))                               # blind writes
    for a in (0, 1, 4, 6, 7):                                                          # keyword lookups answered from the cache:
        w = (a + 1) % len(ATTRS)
        for ex in (False, True):
            for v in (5, 1):                                                           # criterion not matching (rows hold 1) / matching
                L = {'k': 'find', 'o': 1, 'a': a, 'v': v, 'ex': ex}
                pairs.append(([G, L, wr(w, 76), C], [G, wr(a, 5 if v == 5 else 86), C]))   # the other session sets `a` to the looked-up value
    for a in (0, 1, 6, 7):
        pairs.append(([{'k': 'find', 'o': 1, 'a': a, 'v': 1}, wr((a + 1) % len(ATTRS), 59), C], [G, wr(a, 69), C]))   # attribute read by a search criterion
    for a in (0, 1, 4, 6):
        S = {'k': 'select', 'a': a, 'v': 1, 'fu': False}; SU = {'k': 'select', 'a': a, 'v': 1, 'fu': True}
        w = (a + 1) % len(ATTRS)
        pairs.append(([S, wr(w, 70), C], [G, wr(a, 80), C]))                             # attribute read by a query criterion (_set_rbits)
        pairs.append(([SU, K, wr(w, 71), C], [G, wr(a, 81), C]))                         # Query.for_update; the exemption ends at commit
        if a in (0, 1):
            pairs.append(([S, S, wr(w, 72), S, C], [G, wr(a, 82), C]))                   # the same query again: cache.query_results answers
            pairs.append(([S, wr(w, 73), F, S, wr(w, 74), C], [G, wr(a, 83), C]))        # a flush of modifications drops the cached result
    pairs.append(([GU, rd(0), wr(0, 53), C], [G, rd(0), wr(0, 63), C]))                # locked for update
    pairs.append(([G, rd(0), K, wr(0, 54), C], [G, rd(0), wr(0, 64), C]))              # second transaction of a session
    pairs.append(([GU, rd(0), K, wr(1, 57), C], [G, wr(0, 67), C]))                    # the for_update exemption ends at commit
    pairs.append(([G, rd(0), {'k': 'fetch', 'o': 1, 'as': [0, 1]}, wr(1, 58), C], [G, wr(0, 68), C]))   # re-fetch of a read attribute
    pairs.append(([G, rd(0), wr(1, 55), F, wr(7, 56), C], [G, rd(1), wr(0, 65), C]))   # two flushes in one transaction
    generic = 2 * len(ATTRS)
    for k, (p0, p1) in enumerate(pairs):
        l0, l1 = len(p0), len(p1)
        combos = list(itertools.combinations(range(l0 + l1), l0))
        lim = limit if k < generic else 2 * limit
        if len(combos) > lim:
            # always: thread 0 runs k operations, thread 1 runs completely, thread 0 finishes (every k) — the conflict shapes
            forced = [tuple(range(q)) + tuple(range(q + l1, l0 + l1)) for q in range(l0 + 1)]
            others = [c for c in combos if c not in forced]
            combos = forced + rng.sample(others, max(0, lim - len(forced)))
        for pos in combos:
            picks = [1] * (l0 + l1)
            for p in pos: picks[p] = 0
            picks = [100 + t for t in picks]       # op-level interleaving (statement-level ones come from the random cases)
            cases.append({'sessOpt': [True, True], 'rows': rows, 'progs': [p0, p1], 'picks': picks})
    # every combination of the db_session options, as context manager and as decorator: read, commit() inside the session,
    # a concurrent update, then a write from the cached object (refused iff the session is optimistic BY DECLARATION)
    for imm, ddl, ser, opt in itertools.product((False, True), repeat=4):
        for form in ('with', 'decorator'):
            sA = {'imm': imm, 'ddl': ddl, 'ser': ser, 'opt': opt, 'form': form}
            p0 = [G, rd(0), K, wr(1, 75), C]; p1 = [G, wr(0, 85), C]
            l0, l1 = len(p0), len(p1)
            for q in ((3,) if limit < 40 and (imm, ddl, ser, opt, form) not in ((True, False, False, True, 'with'), (False, True, False, True, 'with')) else (2, 3, 4)):
                pos = tuple(range(q)) + tuple(range(q + l1, l0 + l1))
                picks = [101] * (l0 + l1)
                for p in pos: picks[p] = 100
                cases.append({'sess': [sA, {'imm': False, 'ddl': False, 'ser': False, 'opt': True, 'form': 'with'}], 'rows': rows,
                              'progs': [p0, p1], 'picks': picks})
    # a session with two transactions: what it read (also a None) and what it flushed in the first one must still be
    # checked by the UPDATE of the second one (`_update_dbvals_`, `rbits |= wbits` at the end of `_save_updated_`)
    rowsN = {1: [1, -1, 1, 1, 1, 1, -1, 1], 2: [2, -1, 2, 2, 2, 2, -1, 2]}
    for a in range(len(ATTRS)):
        w = 0 if a != 0 else 7
        for rw in ([rows, rowsN] if ATTRS[a][1] in NULLABLE else [rows]):
            for p0 in ([G, rd(a), wr(w, 51), K, wr(w, 52), C], [G, rd(a), wr(w, 51), F, rd(a), K, rd(a), wr(w, 52), C]):
                p1 = [G, wr(a, 61), C]
                l0, l1 = len(p0), len(p1)
                forced = [tuple(range(q)) + tuple(range(q + l1, l0 + l1)) for q in range(2, l0)]     # B runs after A's read, before A's exit
                others = [c for c in itertools.combinations(range(l0 + l1), l0) if c not in forced]
                for pos in forced + rng.sample(others, min(len(others), max(2, limit // 6))):
                    picks = [101] * (l0 + l1)
                    for p in pos: picks[p] = 100
                    cases.append({'sessOpt': [True, True], 'rows': rw, 'progs': [p0, p1], 'picks': picks})
    return cases


def followups(case):
    """after a divergence: variants of the case in which every session also assigns an attribute it has not touched
    before it ends, so that a cache that silently went stale shows up as an applied UPDATE (searched with the oracle only)"""
    out = []
    for b in range(len(ATTRS)):
        progs = []
        for prog in case['progs']:
            new = []; loaded = []
            for op in prog:
                if op['k'] == 'close':
                    for o in loaded:
                        if not any(q['k'] == 'write' and q['o'] == o and q['a'] == b for q in new): new.append({'k': 'write', 'o': o, 'a': b, 'v': 77})
                    loaded = []
                elif op['k'] in ('get', 'fetch', 'find') and op['o'] not in loaded: loaded.append(op['o'])
                elif op['k'] == 'rollback': loaded = []
                new.append(op)
            progs.append(new)
        out.append(dict(case, progs=progs, picks=[t for t in case['picks'] for _ in range(2)]))
    return out


def shape_cases(rng, limit, prime_null):
    """statement caches keyed by shape (`_update_sql_cache_`, `_find_sql_cache_`, `_load_sql_cache_`, lazy_sql_cache): sessions
    IN SEQUENCE on a fresh Database whose first statement of every (updated columns, read columns) shape sees the nullable
    attribute as NULL (prime_null) or as a value; then the opposite shape under interleavings with a concurrent writer that
    sets the attribute to NULL / to a value"""
    def G(o=1): return {'k': 'get', 'o': o, 'fu': False}
    C = {'k': 'close'}
    def rd(a): return {'k': 'read', 'o': 1, 'a': a}
    def wr(a, v): return {'k': 'write', 'o': 1, 'a': a, 'v': v}
    base = [1, 1, 1, 1, 1, 1, 1, 1]
    def rows(**kw):
        r = list(base)
        for k, v in kw.items(): r[IDX[k]] = v
        return {1: r, 2: [2, -1, 2, 2, 2, 2, -1, 2]}
    cases = []
    first, second = (-1, 7) if prime_null else (7, -1)
    combos = [([x], W) for x in (1, 6) for W in ([0], [7], [0, 7])] + [([1, 6], [0]), ([1, 6], [3, 4])]
    # search criteria and loads of both shapes, one session after the other
    for x in (1, 6):
        n = NAMES[x]
        seq = []
        for v in (first, second, first):
            seq += [{'k': 'find', 'o': 1, 'a': x, 'v': v}, C, {'k': 'find', 'o': 2, 'a': x, 'v': v}, C]
        seq += [G(), rd(x), {'k': 'fetch', 'o': 1, 'as': [x]}, {'k': 'fetch', 'o': 1, 'as': [0, x]}, rd(x), C]
        cases.append({'sessOpt': [True], 'rows': rows(**{n: first}), 'progs': [seq], 'picks': []})
        cases.append({'sessOpt': [True], 'rows': rows(**{n: second}), 'progs': [seq], 'picks': []})
    for xs, W in combos:
        # 1. prime: conflict-free sessions in sequence; every read attribute has the FIRST shape
        kw = {NAMES[x]: first for x in xs}
        prog = [G()] + [rd(x) for x in xs] + [wr(w, 20 + w) for w in W] + [C]
        cases.append({'sessOpt': [True], 'rows': rows(**kw), 'progs': [prog + prog], 'picks': []})
        # 2. the opposite shape for the first read attribute, with and without a concurrent writer of that attribute
        x = xs[0]
        kw2 = dict(kw); kw2[NAMES[x]] = second
        A = [G()] + [rd(y) for y in xs] + [wr(w, 30 + w) for w in W] + [C]
        cases.append({'sessOpt': [True], 'rows': rows(**kw2), 'progs': [A], 'picks': []})
        for newv in (first, 9 if second == -1 else -1 if first != -1 else 9):
            B = [G(), wr(x, newv), C]
            la, lb = len(A), len(B)
            inter = list(itertools.combinations(range(la + lb), la))
            critical = tuple(range(1 + len(xs))) + tuple(range(1 + len(xs) + lb, la + lb))   # A reads, B runs completely, A writes and leaves
            if len(inter) > limit: inter = [critical] + rng.sample(inter, limit - 1)
            for pos in inter:
                picks = [101] * (la + lb)
                for q in pos: picks[q] = 100
                cases.append({'sessOpt': [True, True], 'rows': rows(**kw2), 'progs': [A, B], 'picks': picks})
    return cases


def canon_case(case):
    return {'sess': [sess_of(case, t) for t in range(len(case['progs']))], 'rows': {str(o): r for o, r in case['rows'].items()},
            'progs': case['progs'], 'picks': case['picks']}


def shrink(env, case, kinds):
    """greedy: drop operations / picks while a violation of the same kind persists (real code only)"""
    def fails(c):
        env.violations = []
        try: trace, _ = run_real(env, c)
        except Exception: return False
        got = {v['kind'] for v in env.violations} | {b['kind'] for b in commit_oracle(trace)}
        return bool(got & kinds)
    best = case; budget = 240
    for _round in range(2):          # operations, then the schedule, then operations again
        changed = True
        while changed and budget > 0:
            changed = False
            for t in range(len(best['progs'])):
                for i in range(len(best['progs'][t]) - 1):      # keep the final close
                    budget -= 1
                    if budget <= 0: break
                    c = dict(best, progs=[list(p) for p in best['progs']])
                    del c['progs'][t][i]
                    if fails(c): best = c; changed = True; break
        # the schedule: no explicit picks (round-robin drain), else op-level picks, else drop chunks of picks
        for cand in ([], [100 + (p % 100) for p in best['picks']]):
            if budget > 0 and cand != best['picks']:
                budget -= 1
                c = dict(best, picks=cand)
                if fails(c): best = c; break
        size = max(1, len(best['picks']) // 2)
        while size >= 1 and budget > 0 and best['picks']:
            i = 0; removed = False
            while i < len(best['picks']) and budget > 0:
                budget -= 1
                c = dict(best, picks=best['picks'][:i] + best['picks'][i + size:])
                if fails(c): best = c; removed = True
                else: i += size
            if not removed or size == 1: size //= 2
    return best


def fresh_fails(prelude, case, kinds):
    """does the violation show on a NEW database (empty per-entity statement caches) after running `prelude` first?"""
    env = Env()
    try:
        for c in prelude:
            try: run_real(env, c)
            except Exception: return False
        env.violations = []
        try: trace, _ = run_real(env, case)
        except Exception: return False
        return bool(({v['kind'] for v in env.violations} | {b['kind'] for b in commit_oracle(trace)}) & kinds)
    finally:
        env.close()


def find_prelude(cases, idx, small, kinds):
    """the earlier sessions of this process that the failure depends on (warm caches): none, one earlier case, or all of them"""
    if fresh_fails([], small, kinds): return []
    for j in range(idx - 1, max(-1, idx - 80), -1):
        if fresh_fails([cases[j]], small, kinds): return [cases[j]]
    hist = cases[max(0, idx - 80):idx]
    return hist if fresh_fails(hist, small, kinds) else None


def run_cases(ctx, env, cases, label, follow=True):
    results = []; diverged = []
    for case in cases:
        env.violations = []
        try:
            trace, final_rows = run_real(env, case)
        except Exception as e:
            ctx.divergence('the real run did not complete: %s' % e, canon_case(case), impl=traceback.format_exc()[-400:])
            continue
        viol = list(env.violations) + commit_oracle(trace)
        results.append((case, trace, final_rows, viol))
        if viol and len([r for r in results if r[3]]) <= 3:
            # shrink now, while the process state (statement caches) is the one that produced the failure
            vkinds = {v['kind'] for v in viol}
            small = shrink(env, case, vkinds)
            env.violations = []
            try:
                trace2, _ = run_real(env, small)
                viol2 = list(env.violations) + commit_oracle(trace2)
            except Exception:
                small, viol2 = case, []
            prelude = find_prelude(cases, len(results) - 1, small, vkinds)
            results[-1] = (case, trace, final_rows, viol, small, (viol2 or viol)[0], prelude)
    reqs = [model_request(r[0], [seg['t'] for seg in r[1]]) for r in results]
    mouts = ctx.driver('C20', reqs) if ctx.driver.ok else [None] * len(reqs)
    for r, mout in zip(results, mouts):
        case, trace, final_rows, viol = r[:4]
        ccase = canon_case(case)
        kinds = sorted({s['res'] for s in trace})
        ctx.case(ccase, nontrivial=len(trace) > 2, kind=label)
        pcs = [0] * len(case['progs'])
        for s in trace:
            ctx.count('segment:' + (s['res'] if not s['res'].startswith('crash') else 'crash'))
            prog = case['progs'][s['t']]
            if pcs[s['t']] < len(prog):
                op = prog[pcs[s['t']]]
                lab = op['k'] + ('-for-update' if op.get('fu') else '')
                if op['k'] in ('read', 'write', 'find', 'select'): lab += ':' + ATTRS[op['a']][1]
                ctx.count('op:%s:%s%s' % (lab, s['res'] if not s['res'].startswith('crash') else 'crash', ('=%s' % s['v']) if op['k'] == 'find' and s['res'] == 'ok' else ''))
                if s['res'] in ('ok', 'notLoaded'): pcs[s['t']] += 1
            for e in s['events']:
                if e['stmt'] == 'UPDATE':
                    ctx.count('update:%s:criteria=%d' % ('applied' if e['rowcount'] else 'refused', len(e['where'])))
        ctx.count('case-outcomes:' + '+'.join(k for k in kinds if k not in ('ok', 'flushing', 'notLoaded')) if any(k not in ('ok', 'flushing', 'notLoaded') for k in kinds) else 'case-outcomes:all-ok')
        for s in trace:
            if s['res'].startswith('crash'):
                ctx.divergence('a worker thread raised an unexpected exception', ccase, impl=s['v'])
        if viol and len(r) > 4:
            small, v0, prelude = r[4], r[5], r[6]
            what = {'stale-read': 'an UPDATE was applied although an attribute the session had read (and not overwritten) was changed by another committed transaction',
                    'lost-update': 'lost update: an UPDATE was applied on top of a committed change to the attribute that the session had read before overwriting it',
                    'failed-session-committed': 'a session that failed with an optimistic-check / repeatable-read error changed the committed rows',
                    'commit-not-exact': 'the committed rows changed other than by the UPDATEs of the committing transaction',
                    'refused-update-not-raised': 'an optimistic UPDATE matched no row (a read attribute was changed underneath) but the session did not fail with OptimisticCheckError'}[v0['kind']]
            inp = canon_case(small)
            if prelude: inp['prelude'] = [canon_case(c) for c in prelude]; what += ' (after the earlier sessions in `prelude` ran in the same process: warm statement caches)'
            if prelude is None: inp['note'] = 'not reproduced on a fresh database from the last 80 earlier cases; depends on longer process history'
            ctx.violation(what, inp, observed=v0, expected='the UPDATE is refused (OptimisticCheckError) and nothing is committed',
                          key='%s:%s%s' % (v0['kind'], v0.get('attr_kind', '-'), ':warm-cache' if prelude or prelude is None else ''))
        if mout is not None:
            d = compare(case, trace, final_rows, mout)
            if d is not None:
                ctx.divergence('model and real Pony disagree: ' + d['what'], ccase, model=d.get('model'), impl={k: v for k, v in d.items() if k not in ('model', 'what')})
                if not viol: diverged.append(case)
    if follow and diverged and not ctx.violations:
        extra = [c for case in diverged[:6] for c in followups(case)]
        ctx.count('followup-cases', len(extra))
        run_cases(ctx, env, extra, 'followup', follow=False)
    return results


def run(ctx, extra_cases=()):
    if not ctx.driver.ok: ctx.note('driver unavailable: correspondence skipped, oracle only')
    if extra_cases:
        env0 = Env()                                # the recorded sessions, in order, on a new database
        try: run_cases(ctx, env0, list(extra_cases), 'replay')
        finally: env0.close()
    env = Env()
    try:
        corpus = os.path.join(ponyutil.ROOT, 'harness', 'corpus', 'C20')
        if os.path.isdir(corpus):
            cs = []
            for f in sorted(os.listdir(corpus)):
                if f.endswith('.json'): cs.append(load_case(json.load(open(os.path.join(corpus, f)))))
            run_cases(ctx, env, cs, 'corpus')
        for prime_null in (True, False):            # fresh Database each: the per-entity statement caches start empty
            env2 = Env()
            try: run_cases(ctx, env2, shape_cases(ctx.rng, ctx.scale(6, 40), prime_null), 'null-shape:primed-' + ('null' if prime_null else 'value'))
            finally: env2.close()
        run_cases(ctx, env, template_cases(ctx.rng, ctx.scale(12, 80)), 'template')
        n = ctx.scale(350, 6000)
        for chunk in range(0, n, 500):
            run_cases(ctx, env, [gen_case(ctx.rng, chunk + i) for i in range(min(500, n - chunk))], 'random')
    finally:
        env.close()


def load_case(d):
    d = d.get('input', d)
    c = {'rows': {int(o): r for o, r in d['rows'].items()}, 'progs': d['progs'], 'picks': d['picks']}
    if 'sess' in d: c['sess'] = d['sess']
    else: c['sessOpt'] = d['sessOpt']
    return c


def replay(ctx, data):
    try:
        inp = data.get('input', data)
        cases = [load_case(c) for c in inp.get('prelude', [])] + [load_case(inp)]
    except Exception: cases = []
    run(ctx, extra_cases=cases)
