"""C09 — the committed database state equals the state the program committed.

The harness is shared with C10 (engines/sess_shared.py: real Pony on a file database, an in-memory shadow of what the
program has, and the Lean model Model/SessStore.lean driven with the column-level expansion of every call).

Property oracle (this engine reports): after every commit, rollback and session end the database file, read through a raw
second sqlite3 connection, must hold exactly the objects, attribute values and link rows of the shadow's committed state.
Tie: statuses, written columns, save queue, pending link pairs, `cache.modified`, the statement list of every flush, the
transaction view and the committed database of the real session against the model after every call; the Lean reference
machine against the Python shadow.
"""
import json
from engines import sess_shared as S

# directed histories replayed on every run (regressions of what this check found or could find)
DIRECTED = []


def run(ctx):
    S.explore(ctx, 'C09', ctx.scale(260, 6000), ctx.scale(22, 30))


def replay(ctx, data):
    inp = data.get('input') or {}
    if 'schema' in inp and 'ops' in inp:
        r = S.Run(inp['schema'], ops=inp['ops'], ctx=ctx)
        try:
            r.run()
            ctx.case({'replay': True}, kind='replay')
            for f in r.findings:
                if f['prop'] == 'C09': ctx.violation(f['what'], inp, observed=f['observed'], expected=f['expected'], key=f['key'])
        finally: r.close()
    else:
        run(ctx)
