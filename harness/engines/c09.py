"""C09 — the committed database state equals the state the program committed.

The harness is shared with C10 (engines/sess_shared.py: real Pony on a file database, an in-memory shadow of what the
program has, and the Lean model Model/SessStore.lean driven with the column-level expansion of every call).

Property oracle (this engine reports): after every commit, rollback and session end the database file, read through a raw
second sqlite3 connection, must hold exactly the objects, attribute values and link rows of the shadow's committed state.
Tie: statuses, written columns, save queue, pending link pairs, `cache.modified`, the statement list of every flush, the
transaction view and the committed database of the real session against the model after every call; the Lean reference
machine against the Python shadow.
"""
import json, sqlite3, os
from pony.orm import Database, Required, Optional, Set, PrimaryKey, db_session, commit, rollback, flush
from pony.orm import core
import ponyutil
from engines import sess_shared as S
from engines.c10 import R_SET_AFTER_REMOVE, R_SYMM_OWN_OWNER

# regression inputs: defects repaired in /repo that this property is about
REGRESSIONS = [('set-after-unflushed-remove (commit fc04eec)', R_SET_AFTER_REMOVE),
               ('symmetric-collection-own-owner (commit e8061ac)', R_SYMM_OWN_OWNER)]


def regressions(ctx):
    for name, hist in REGRESSIONS:
        r = S.Run(hist['schema'], ops=hist['ops'], ctx=None, reads=False)     # no reads: they would flush between the calls
        try:
            r.run()
            ctx.case({'regression': name}, kind='regression')
            for f in r.findings:
                if f['prop'] == 'C09': ctx.violation(f['what'], hist, observed=f['observed'], expected=f['expected'], key=f['key'])
        finally: r.close()


def failed_call_family(ctx):
    """directed family: a call that fails and is undone after pending (unflushed) collection changes, then commit.  An author with a
    collection of three committed items (many-to-many, or one-to-many) and a profile whose Required reference points at the author
    (no cascade): `author.delete()` clears the collection as a nested call and is then refused with ConstraintError; the undo has to
    restore items, count, added AND removed.  Pending changes before the refused delete: remove / add / both / made from the other
    side / none; after it: nothing or one more change; then commit - the database must hold what the session showed."""
    E = {'pk': 'explicit', 'scalars': [{'name': 's0', 'req': False, 'unique': False}], 'ckey': False}
    blocker = {'kind': 'o2o', 'sym': False, 'a': {'ent': 2, 'coll': False, 'req': True, 'opt_casc': None}, 'b': {'ent': 0, 'coll': False, 'req': False, 'opt_casc': None}}
    m2m = {'kind': 'm2m', 'sym': False, 'a': {'ent': 0, 'coll': True, 'req': False, 'opt_casc': None}, 'b': {'ent': 1, 'coll': True, 'req': False, 'opt_casc': None}}
    o2m = {'kind': 'm2o', 'sym': False, 'a': {'ent': 1, 'coll': False, 'req': False, 'opt_casc': None}, 'b': {'ent': 0, 'coll': True, 'req': False, 'opt_casc': None}}
    n = [0]
    def op(**kw): n[0] += 1; return dict(kw, rs=n[0], noreads=True)
    def cr(oid, e, pk, refs=None): return op(k='create', oid=oid, e=e, pk=pk, scalars={}, refs=refs or {}, colls={})
    for kind, rel, akey, ikey in (('m2m', m2m, [0, False], [0, True]), ('o2m', o2m, [0, True], [0, False])):
        schema = {'ents': [dict(E), dict(E), dict(E)], 'rels': [rel, blocker]}
        base = [cr(0, 0, 1), cr(1, 1, 1), cr(2, 1, 2), cr(3, 1, 3), cr(4, 1, 4), cr(5, 2, 1, {'r1a': 0}),
                op(k='coll_set', o=0, key=akey, items=[1, 2, 3], via='list'), op(k='commit')]
        rm = op(k='coll_remove', o=0, key=akey, items=[1], via='single'); ad = op(k='coll_add', o=0, key=akey, items=[4], via='single')
        other = op(k='coll_remove', o=2, key=ikey, items=[0], via='single') if kind == 'm2m' else op(k='set_ref', o=2, key=ikey, v=None)
        dele = op(k='delete', o=0)
        for name, pend, after in (('remove', [rm], []), ('add', [ad], []), ('remove+add', [rm, ad], []), ('from-the-other-side', [other], []),
                                  ('none', [], []), ('remove, then add after the refusal', [rm], [ad]), ('fresh-session remove', [op(k='end_ok'), rm], [])):
            for end in ('commit', 'end_ok'):
                hist = {'schema': schema, 'ops': base + pend + [dele] + after + [op(k=end)]}
                r = S.Run(hist['schema'], ops=hist['ops'], ctx=None, reads=False)
                try:
                    r.run()
                    ctx.case({'directed': 'refused-delete-after-pending-collection-change', 'kind': kind, 'pending': name, 'end': end}, kind='directed')
                    refused = any(c.startswith('op:delete:') and not c.endswith(':ok') for c in r.counts)
                    ctx.count('directed:refused-delete:%s:%s' % (kind, 'refused' if refused else 'not-refused'))
                    for f in r.findings:
                        if f['prop'] == 'C09': ctx.violation(f['what'], hist, observed=f['observed'], expected=f['expected'], key=f['key'])
                finally: r.close()


def witness_full_false(ctx):
    """Props/C09.lean `C09_full_false` on the real code: the guard `ValidFrom` (the program does not construct an object under a
    primary key it still holds) is needed.  Not a violation: the program is ill-formed; recorded so that a change is noticed."""
    d = ponyutil.workdir('c09w'); path = os.path.join(d, 'db.sqlite')
    db = Database()
    class E(db.Entity):
        id = PrimaryKey(int)
        v = Optional(int)
    db.bind('sqlite', path, create_db=True)
    db.generate_mapping(create_tables=True)
    try:
        with db_session: E(id=1, v=5)
        with db_session:
            e2 = E(id=1, v=6)           # accepted: the first object is not in the cache
            e2.delete()                 # cancelled: no statement at all
        con = sqlite3.connect(path); rows = con.execute('SELECT id, v FROM "E"').fetchall(); con.close()
        silent = rows == [(1, 5)]
        loud = None
        try:
            with db_session: E(id=1, v=7)
        except Exception as e: loud = type(e).__name__
        con = sqlite3.connect(path); rows2 = con.execute('SELECT id, v FROM "E"').fetchall(); con.close()
        ctx.case({'witness': 'C09_full_false', 'rows': rows, 'without-delete': loud, 'rows-after': rows2}, kind='witness')
        ctx.count('witness-reproduced:C09_full_false' if silent else 'witness-not-reproduced:C09_full_false')
        if loud != 'TransactionIntegrityError' or rows2 != [(1, 5)]:
            ctx.violation('a second object under a committed primary key was stored or lost silently', {'calls': ['E(id=1, v=5)', 'commit', 'E(id=1, v=7)', 'commit']},
                          observed={'exception': loud, 'rows': rows2}, expected={'exception': 'TransactionIntegrityError', 'rows': [(1, 5)]}, key='duplicate-primary-key-flushed-silently')
        ctx.extra['C09_full_false_on_real_code'] = {'create-under-committed-key-then-delete': {'database': rows, 'as-in-the-model': silent},
                                                    'create-under-committed-key-then-commit': {'exception': loud, 'database': rows2}}
    finally:
        db.disconnect(); ponyutil.rmtree(d)


def run(ctx):
    regressions(ctx)
    failed_call_family(ctx)
    witness_full_false(ctx)
    S.explore(ctx, 'C09', ctx.scale(260, 1800), ctx.scale(22, 30))


def replay(ctx, data):
    inp = data.get('input') or {}
    if 'schema' in inp and 'ops' in inp:
        r = S.Run(inp['schema'], ops=inp['ops'], ctx=ctx)
        try:
            r.run()
            ctx.case({'replay': True}, kind='replay')
            for f in r.findings:
                if f['prop'] == 'C09': ctx.violation(f['what'], inp, observed=f['observed'], expected=f['expected'], key=f['key'])
        finally: r.close()
    else:
        run(ctx)
