"""C28 — in-place changes to Json and array values are persisted; reads never mark the object modified.

Three interpreters run the same program (a list of JSON-serialisable operations) in lock-step:
  real    : a Pony entity over SQLite; the attribute value and aliases into it (`x = obj.data['a'][0]; x.append(..)`)
  mirror  : the same Python operations applied to a plain copy (aliases are the corresponding plain objects)
  model   : PonyVerif.Model.Tracked through the Lean driver (an alias is the path of the object at the time of the call)

Property oracle (independent of the model; on the real code on every run):
  at every flush / commit / end of session the value read back (raw column after a flush, new session after the end) equals
  the value the session sees — an in-place change that is missing is a VIOLATION; reads never change `_status_`/`_wbits_`
  and never cause an UPDATE.
Correspondence (model vs code -> `divergence`): value, wrapper flag of every container, dirty bit, exception class after every
  operation; the tables compiled into the Lean build vs a fresh introspection of the classes; the reference table of mutating
  methods vs `dir(list)` / `dir(dict)` of the running Python.
"""
import copy, json, operator, os, pickle, sqlite3, sys

from pony.orm import Database, Required, Optional, Json, IntArray, StrArray, db_session, commit, flush
from pony.orm import core
from pony.orm.ormtypes import TrackedValue, TrackedArray

sys.path.insert(0, os.path.dirname(os.path.dirname(os.path.abspath(__file__))))
import gen_tracked  # noqa: E402

KEY_ITER = 'iterable-argument-elements-not-wrapped'
KEY_TUPLE = 'container-inside-tuple-value-not-wrapped'
KEY_PARTIAL = 'exception-after-partial-change-not-notified'
KEY_VOLSTALE = 'volatile-value-dropped-after-save:change-through-earlier-alias'
WHAT = {
    KEY_VOLSTALE: 'for a volatile Json/array attribute the value is dropped from the session after every save (_update_dbvals_); a wrapper obtained '
                  'before the save is then no longer the attribute value, but changing it still sets the write bit: the next commit raises '
                  'KeyError (attribute not in _vals_) or, if the attribute was read again in between, writes the value without the change',
    KEY_ITER: 'a dict/list handed to a tracked method inside an iterable that is not a list/dict (tuple, generator, dict view; for |= also a '
              'list of pairs) is stored unwrapped: after the next flush a change made to it in place is not written at commit',
    KEY_TUPLE: 'a dict/list inside a tuple stored in a Json value is never wrapped: after the next flush a change made to it in place is not written at commit',
    KEY_PARTIAL: 'a mutating method that raises after it has already changed the container (sort() of items that cannot all be compared; an argument that raises midway) '
                 'does not notify: the part of the change that happened is not written at commit',
}

# ---------------------------------------------------------------------------------------------------------------------
# values

def enc(v):
    """Python value -> JSON-serialisable spec (tuples and dict order kept)"""
    if isinstance(v, tuple): return {'$t': [enc(x) for x in v]}
    if isinstance(v, list): return [enc(x) for x in v]
    if isinstance(v, dict): return {'$d': [[k, enc(x)] for k, x in v.items()]}
    return v

RESOLVE = [None]     # how `{'$ref': …}` (a value taken from the session: an alias, another attribute, another object) is materialised

def dec(s):
    if isinstance(s, list): return [dec(x) for x in s]
    if isinstance(s, dict):
        if '$ref' in s: return RESOLVE[0](s['$ref']) if RESOLVE[0] is not None else '<ref>'
        if '$t' in s: return tuple(dec(x) for x in s['$t'])
        return {k: dec(x) for k, x in s['$d']}
    return s

def refs_of(s):
    if isinstance(s, list): return [r for x in s for r in refs_of(x)]
    if isinstance(s, dict):
        if '$ref' in s: return [s['$ref']]
        return [r for v in s.values() for r in refs_of(v)]
    return []

def plain(v, _stack=()):
    """what json would store: wrappers gone, tuples are lists (a container that contains itself is cut with a marker)"""
    if isinstance(v, (dict, list, tuple)):
        if id(v) in _stack: return '<cycle>'
        _stack = _stack + (id(v),)
    if isinstance(v, dict): return {k: plain(x, _stack) for k, x in v.items()}
    if isinstance(v, (list, tuple)): return [plain(x, _stack) for x in v]
    return v

def untracked(v, _stack=()):
    """a plain deep copy that keeps tuples (what `make` is given when a value of the session is handed over)"""
    if isinstance(v, (dict, list, tuple)):
        if id(v) in _stack: return '<cycle>'
        _stack = _stack + (id(v),)
    if isinstance(v, dict): return {k: untracked(x, _stack) for k, x in v.items()}
    if isinstance(v, list): return [untracked(x, _stack) for x in v]
    if isinstance(v, tuple): return tuple(untracked(x, _stack) for x in v)
    return v

def canon(v):
    return json.dumps(plain(v), sort_keys=True)

def has_container(v):
    return isinstance(v, (list, dict)) or (isinstance(v, tuple) and any(has_container(x) for x in v))

def tuple_with_container(v):
    if isinstance(v, tuple): return any(has_container(x) for x in v) or any(tuple_with_container(x) for x in v)
    if isinstance(v, list): return any(tuple_with_container(x) for x in v)
    if isinstance(v, dict): return any(tuple_with_container(x) for x in v.values())
    return False

def bound(v, owner):
    """is `v` a Tracked wrapper that notifies THIS object about THIS attribute"""
    return bool(owner) and isinstance(v, TrackedValue) and v.obj_ref() is owner[0] and v.attr is owner[1]

def to_T(v, akind=None, flags=False, _stack=()):
    """value -> encoding of Model.Tracked.T; `flags` = (object, attribute): w = is a Tracked wrapper bound to them"""
    if isinstance(v, (dict, list, tuple)):
        if id(v) in _stack: return '<cycle>'
        _stack = _stack + (id(v),)
    foreign = bool(flags) and isinstance(v, TrackedValue) and not bound(v, flags)     # a wrapper that notifies somebody else
    if isinstance(v, dict):
        return {'k': 'fdict' if foreign else 'dict', 'w': bound(v, flags), 'items': [[k, to_T(x, None, flags, _stack)] for k, x in v.items()]}
    if isinstance(v, list):
        if foreign and akind is None and not isinstance(v, TrackedArray):
            return {'k': 'flist', 'w': False, 'items': [['', to_T(x, None, flags, _stack)] for x in v]}
        return {'k': akind or 'list', 'w': bound(v, flags), 'items': [['', to_T(x, None, flags, _stack)] for x in v]}
    if isinstance(v, tuple):
        return {'k': 'tup', 'w': False, 'items': [['', to_T(x, None, flags, _stack)] for x in v]}
    return v

class LiveT(object):
    """a value of the session handed over by reference, already encoded with its flags (ours / foreign) for the model"""
    def __init__(self, t): self.t = t

def to_T_raw(v):
    """fresh literal -> T, with referenced session values spliced in as they are (the model's `make` re-binds them)"""
    if isinstance(v, LiveT): return v.t
    if isinstance(v, dict): return {'k': 'dict', 'w': False, 'items': [[k, to_T_raw(x)] for k, x in v.items()]}
    if isinstance(v, list): return {'k': 'list', 'w': False, 'items': [['', to_T_raw(x)] for x in v]}
    if isinstance(v, tuple): return {'k': 'tup', 'w': False, 'items': [['', to_T_raw(x)] for x in v]}
    return v

def strip_keys(t):
    """model lists carry the unused key component; normalise for comparison"""
    if isinstance(t, dict):
        return {'k': t['k'], 'w': t['w'], 'items': [[k if t['k'] in ('dict', 'fdict') else '', strip_keys(c)] for k, c in t['items']]}
    return t

def sort_T(t):
    """order of object keys is not part of the JSON document in the database"""
    if isinstance(t, dict):
        items = [[k, sort_T(c)] for k, c in t['items']]
        return {'k': t['k'], 'w': t['w'], 'items': sorted(items, key=lambda p: p[0]) if t['k'] in ('dict', 'fdict') else items}
    return t

PATH_LIMIT = 48

def find_paths(root, target, limit=PATH_LIMIT):
    out = []
    def rec(x, path):
        if len(out) >= limit: return
        if x is target: out.append(list(path))
        if isinstance(x, dict):
            for k, c in x.items(): rec(c, path + [k])
        elif isinstance(x, (list, tuple)):
            for i, c in enumerate(x): rec(c, path + [i])
    rec(root, [])
    return out

def containers(root):
    out = []
    def rec(x, path):
        if isinstance(x, (dict, list)): out.append((list(path), x))
        if isinstance(x, dict):
            for k, c in x.items(): rec(c, path + [k])
        elif isinstance(x, (list, tuple)):
            for i, c in enumerate(x): rec(c, path + [i])
    rec(root, [])
    return out

# ---------------------------------------------------------------------------------------------------------------------
# environment

class Env(object):
    def __init__(self):
        self.statements = []
        env = self
        class Conn(sqlite3.Connection):
            def cursor(self, *a, **kw):
                return sqlite3.Connection.cursor(self, Cur)
        class Cur(sqlite3.Cursor):
            def execute(self, sql, *a):
                env.statements.append(sql)
                return sqlite3.Cursor.execute(self, sql, *a)
        db = Database()
        class E(db.Entity):
            data = Required(Json)
            arr = Optional(IntArray)
            sarr = Optional(StrArray)
            vdata = Required(Json, volatile=True)           # volatile: `_bits_except_volatile_` is 0, `_bits_` is not
            varr = Optional(IntArray, volatile=True)
            vsarr = Optional(StrArray, volatile=True)
            odata = Optional(Json, nullable=True)
            ldata = Optional(Json, lazy=True)
            larr = Optional(IntArray, lazy=True)
            tag = Optional(str)                             # "another attribute"
        db.bind('sqlite', ':memory:', factory=Conn)
        db.generate_mapping(create_tables=True)
        self.db = db; self.E = E
        E.__qualname__ = 'C28Entity'; setattr(sys.modules[E.__module__], 'C28Entity', E)      # picklable by reference
        self.akind = {'data': None, 'vdata': None, 'odata': None, 'ldata': None,
                      'arr': 'iarr', 'varr': 'iarr', 'larr': 'iarr', 'sarr': 'sarr', 'vsarr': 'sarr'}
        self.volatile = {'vdata', 'varr', 'vsarr'}
        self.required = {'data': {}, 'vdata': {}}
        D2 = {'l': [[1], {'k': []}], 'd': {'a': [2]}}
        self.others = {'data': D2, 'vdata': D2, 'odata': D2, 'ldata': D2, 'arr': [7, 8], 'varr': [7, 8], 'larr': [7, 8], 'sarr': ['p', 'q'], 'vsarr': ['p', 'q']}
        self.ntag = 0
    def updates(self):
        return [s for s in self.statements if s.lstrip().upper().startswith('UPDATE')]

def key_json(x):
    return json.dumps(plain(x), sort_keys=True)

class BoomError(Exception): pass

def make_iter(kind, items, pairs=False, boom=None):
    """the iterable argument: list / tuple / generator / dict / dict items view"""
    if pairs and kind != 'dict': items = [tuple(p) for p in items]
    if kind == 'list': return list(items)
    if kind == 'tuple': return tuple(items)
    if kind == 'gen':
        def g():
            for i, x in enumerate(items):
                if boom is not None and i == boom: raise BoomError('generator argument raised')
                yield x
            if boom is not None and boom >= len(items): raise BoomError('generator argument raised')
        return g()
    if kind == 'dict': return dict(items)
    if kind == 'view': return dict(items).items()
    raise ValueError(kind)

MODEL_KIND = {'list': 'list', 'tuple': 'tuple', 'gen': 'gen', 'dict': 'dict', 'view': 'gen', 'kw': 'kw'}

def do_call(t, c):
    """perform the call described by `c` on the Python object `t` (the same code for the real value and the mirror)"""
    n = c['n']
    if c['t'] == 'lmut':
        if n == 'setitem': t[c['i']] = dec(c['v'])
        elif n == 'setslice': t[c['a']:c['b']] = make_iter(c['k'], dec(c['vs']), boom=c.get('boom'))
        elif n == 'setslice_step': t[c['a']:c['b']:c['s']] = make_iter(c['k'], dec(c['vs']))
        elif n == 'delitem': del t[c['i']]
        elif n == 'delslice': del t[c['a']:c['b']]
        elif n == 'delslice_step': del t[c['a']:c['b']:c['s']]
        elif n == 'append': t.append(dec(c['v']))
        elif n == 'extend': t.extend(make_iter(c['k'], dec(c['vs']), boom=c.get('boom')))
        elif n == 'insert': t.insert(c['i'], dec(c['v']))
        elif n == 'pop': return t.pop() if c['i'] is None else t.pop(c['i'])
        elif n == 'remove': t.remove(dec(c['v']))
        elif n == 'reverse': t.reverse()
        elif n == 'sort':
            if c.get('key') == 'json': t.sort(key=key_json, reverse=bool(c.get('rev')))
            else: t.sort(reverse=bool(c.get('rev')))
        elif n == 'clear': t.clear()
        elif n == 'iadd':
            r = operator.iadd(t, make_iter(c['k'], dec(c['vs']), boom=c.get('boom')))
            assert r is t
        elif n == 'imul':
            r = operator.imul(t, c['c'])
            assert r is t
        else: raise ValueError(n)
    else:
        if n == 'setitem': t[c['key']] = dec(c['v'])
        elif n == 'delitem': del t[c['key']]
        elif n == 'update':
            kw = {k: dec(v) for k, v in c['kw']}
            if c['k'] is None: t.update(**kw)
            elif c.get('bad') is not None:
                seq = [tuple(p) for p in [[k, dec(v)] for k, v in c['ps']]]; seq.insert(c['bad'], 5)
                t.update(seq if c['k'] == 'list' else tuple(seq), **kw)
            else: t.update(make_iter(c['k'], [[k, dec(v)] for k, v in c['ps']], pairs=True), **kw)
        elif n == 'setdefault': return t.setdefault(c['key'], dec(c['v']))
        elif n == 'pop': return t.pop(c['key'], None) if c['d'] else t.pop(c['key'])
        elif n == 'popitem': return t.popitem()
        elif n == 'clear': t.clear()
        elif n == 'ior':
            ps = [[k, dec(v)] for k, v in c['ps']]
            if c.get('bad') is not None:
                seq = [tuple(p) for p in ps]; seq.insert(c['bad'], 5)      # a non-pair after `bad` good pairs
                src = seq if c['k'] == 'list' else tuple(seq)
            else:
                src = make_iter(c['k'], ps, pairs=True)
            r = operator.ior(t, src)
            assert r is t
        else: raise ValueError(n)

def array_validate_mirror(v, akind):
    """ArrayConverter.validate on a value that is not already this attribute's wrapper: (list, None) or (None, 'TypeError')"""
    items = [v] if isinstance(v, str) or not hasattr(v, '__len__') else list(v)
    for i, x in enumerate(items):
        ok = isinstance(x, int) if akind == 'iarr' else isinstance(x, str)
        if not ok:
            if hasattr(x, '__index__'): items[i] = x.__index__()
            else: return None, 'TypeError'
    return items, None

def do_read(t, r):
    """non-mutating use of the value; the result is canonicalised and compared between real and mirror"""
    n = r['r']
    if n == 'len': return len(t)
    if n == 'iter': return canon(list(t))
    if n == 'repr': return canon(t)
    if n == 'bool': return bool(t)
    if n == 'copy': return canon(t.copy())
    if n == 'copy.copy': return canon(copy.copy(t))
    if n == 'deepcopy': return canon(copy.deepcopy(t))
    if n == 'pickle': return canon(pickle.loads(pickle.dumps(t)))
    if n == 'json': return json.dumps(plain(t), sort_keys=True)
    if n == 'eq': return t == dec(r['v'])
    if n == 'contains': return dec(r['v']) in t
    if isinstance(t, dict):
        if n == 'get': return canon(t.get(r['key']))
        if n == 'getitem': return canon(t[r['key']])
        if n == 'keys': return canon(list(t.keys()))
        if n == 'values': return canon(list(t.values()))
        if n == 'items': return canon([list(p) for p in t.items()])
        if n == 'or': return canon(t | {'zz': [1]})
        if n == 'dict': return canon(dict(t))
    else:
        if n == 'getitem': return canon(t[r['i']])
        if n == 'slice': return canon(t[r['a']:r['b']])
        if n == 'index': return t.index(dec(r['v']))
        if n == 'count': return t.count(dec(r['v']))
        if n == 'add': return canon(t + [[1]])
        if n == 'mul': return canon(t * 2)
        if n == 'reversed': return canon(list(reversed(t)))
        if n == 'sorted': return canon(sorted(t, key=key_json))
    return None

PYNAME = {'setitem': '__setitem__', 'setslice': '__setitem__', 'setslice_step': '__setitem__', 'delitem': '__delitem__', 'delslice': '__delitem__',
          'delslice_step': '__delitem__', 'iadd': '__iadd__', 'imul': '__imul__', 'ior': '__ior__'}
FACTS = {}

def notifying(x, c):
    """is the method one that the class was observed to notify for (fresh introspection) — decides whether a call on a wrapper
    that is no longer part of the value is the model's `touch`"""
    table = 'dictNotify' if isinstance(x, dict) else ('arrNotify' if isinstance(x, TrackedArray) else 'listNotify')
    return PYNAME.get(c['n'], c['n']) in FACTS.get(table, ())

def model_mut(c, target_before):
    """the driver encoding of the call (computed before the call; `sort` needs the outcome permutation)"""
    n = c['n']; m = {'n': n}
    if c.get('boom') is not None or c.get('bad') is not None: return None     # an argument that raises midway: outside the model
    raw = lambda v: to_T_raw(dec(v))
    if c['t'] == 'lmut':
        if n in ('setitem', 'insert'): m.update(i=c['i'], v=raw(c['v']))
        elif n in ('setslice',): m.update(a=c['a'], b=c['b'], k=MODEL_KIND[c['k']], vs=[raw(v) for v in c['vs']])
        elif n == 'setslice_step': m.update(n='setsliceStep', a=c['a'], b=c['b'], s=c['s'], k=MODEL_KIND[c['k']], vs=[raw(v) for v in c['vs']])
        elif n == 'delslice_step': m.update(n='delsliceStep', a=c['a'], b=c['b'], s=c['s'])
        elif n == 'delitem': m.update(i=c['i'])
        elif n == 'delslice': m.update(a=c['a'], b=c['b'])
        elif n in ('append', 'remove'): m.update(v=raw(c['v']))
        elif n in ('extend', 'iadd'): m.update(k=MODEL_KIND[c['k']], vs=[raw(v) for v in c['vs']])
        elif n == 'pop': m.update(i=c['i'])
        elif n == 'sort':
            old = list(target_before)
            try:
                if c.get('key') == 'json': perm = sorted(range(len(old)), key=lambda i: key_json(old[i]), reverse=bool(c.get('rev')))
                else: perm = sorted(range(len(old)), key=lambda i: old[i], reverse=bool(c.get('rev')))
            except TypeError:
                perm = None
            if perm is None: m['n'] = 'sortFail'
            else: m.update(perm=perm)
        elif n == 'imul': m.update(c=c['c'])
    else:
        if n in ('setitem', 'setdefault'): m.update(key=c['key'], v=raw(c['v']))
        elif n == 'delitem': m.update(key=c['key'])
        elif n == 'update':
            m.update(k=MODEL_KIND[c['k'] or 'dict'], ps=[[k, raw(v)] for k, v in (c['ps'] if c['k'] is not None else [])], kw=[[k, raw(v)] for k, v in c['kw']])
        elif n == 'pop': m.update(key=c['key'], d=bool(c['d']))
        elif n == 'ior':
            if c.get('bad') is not None: return None
            m.update(k=MODEL_KIND[c['k']], ps=[[k, raw(v)] for k, v in c['ps']])
    return m

# ---------------------------------------------------------------------------------------------------------------------
# one program on the real code + mirror (+ trace for the model)

class Result(object):
    def __init__(self):
        self.losses = []        # property violations: {'at': op index, 'kind':..., 'observed':..., 'expected':...}
        self.mirror_diffs = []  # in-session value differs from plain-Python semantics / exception class differs
        self.read_dirty = []    # a read changed status / wbits / caused an UPDATE
        self.model_ops = []     # driver ops
        self.snaps = []         # (index into model_ops of the LAST op of the step, snapshot) to compare with the model
        self.model_valid = True # False once something outside the model happened (partial failure, extended slice, ...)
        self.partial = False
        self.shared = 0
        self.foreign = []       # another object / attribute was affected
        self.stopped = False    # ended early: an exception left different partial effects in Pony and in plain Python
        self.init_T = None
        self.executed = 0

def execute(env, attr, init, prog, created=False, source=None):
    """run `prog` (list of op dicts) on a fresh entity whose attribute `attr` starts as `init` (spec).
    With `source` (a callable (mirror_root, mirror_vars) -> list of ops, or None when done) the program is generated while
    it runs (the generator sees the current state) and appended to `prog`."""
    E = env.E; res = Result(); akind = env.akind[attr]
    res.created = created; res.volatile = attr in env.volatile
    other = {k: copy.deepcopy(v) for k, v in env.others.items() if k != attr}
    ds = db_session()
    st = {'e': None, 'vars': {}, 'mvars': {}}
    def rootval(): return getattr(st['e'], attr)
    def dirty():
        e = st['e']
        return bool(e._wbits_ is not None and e._wbits_ & e._bits_[getattr(E, attr)])
    def raw_column():
        con = env.db.get_connection()
        row = con.execute('select %s from "E" where id = ?' % attr, (st['pk'],)).fetchone()
        return None if row[0] is None else json.loads(row[0])
    def real_status():
        e = st['e']; cache = e._session_cache_
        if cache is None or not cache.is_alive: return 'over'
        return 'deleted' if e._status_ in ('marked_to_delete', 'deleted', 'cancelled') else e._status_
    def snap(err, after_flush=False):
        rs = real_status()
        unreadable = rs == 'deleted'      # the value of a deleted object cannot be read through the attribute any more
        if rs == 'over':                  # ... nor a value that was dropped from the session (volatile attribute after the commit)
            try: rootval()
            except core.OrmError: unreadable = True
        if unreadable:
            return {'err': err, 'dirty': 'n/a', 'doc': None, 'status': rs}
        s = {'err': err, 'dirty': dirty() if rs != 'over' else 'n/a', 'doc': to_T(rootval(), akind, (st['e'], getattr(E, attr))), 'status': rs}
        if after_flush: s['db'] = to_T(raw_column(), akind, False)
        return s
    def check_persisted(at, where):
        insess = canon(rootval()); dbv = canon(raw_column())
        if dbv != insess:
            res.losses.append({'at': at, 'kind': where, 'observed': dbv, 'expected': insess})
    def check_mirror(at):
        if st.get('dead'):
            try: rootval()
            except core.OrmError: return
        a = canon(rootval()); b = canon(st['mirror'])
        if a != b: res.mirror_diffs.append({'at': at, 'what': 'value', 'real': a, 'mirror': b})
    # ---- set up
    with db_session:
        e2 = E(**copy.deepcopy(env.others)); commit(); st['pk2'] = e2.id
    if created:
        ds.__enter__()
        st['e2'] = E[st['pk2']]
        st['e'] = E(**dict(other, **{attr: dec(init)}))
        st['mirror'] = dec(init); st['pk'] = None
        res.init_T = to_T(dec(init), akind, False)
    else:
        with db_session:
            e0 = E(**dict(other, **{attr: dec(init)}))
            commit(); st['pk'] = e0.id
        ds.__enter__()
        st['e'] = E[st['pk']]; st['e2'] = E[st['pk2']]
        st['mirror'] = copy.deepcopy(plain(rootval()))
        st['committed'] = canon(st['mirror'])
        res.init_T = to_T(st['mirror'], akind, False)
    def real_ref(ref):
        if ref[0] == 'var': return st['vars'][ref[1]]
        x = getattr(st['e'] if ref[0] == 'attr' else st['e2'], ref[1])
        for s_ in ref[2]: x = x[s_]
        return x
    def resolve_refs(op):
        """the values handed over by reference, as they are right before the operation; None if one cannot be resolved"""
        out = {}
        for ref in refs_of(op):
            try: out[json.dumps(ref)] = real_ref(ref)
            except (KeyError, IndexError, TypeError, core.OrmError): return None
        return out
    def others_clean(at):
        """the other attributes of the object and the other object are not touched by what is done to this attribute"""
        e2 = st['e2']
        if e2._status_ != 'loaded' or e2._wbits_:
            res.foreign.append({'at': at, 'what': 'another object was marked modified', 'observed': [e2._status_, e2._wbits_]})
    try:
        idx = -1
        while True:
            idx += 1
            if idx >= len(prog):
                more = source(st['mirror'], st['mvars']) if source is not None else None
                if not more: break
                prog.extend(more)
            op = prog[idx]
            if op['op'] in ('call', 'assign') and st['e']._status_ in ('created', 'modified') and not st.get('quiet') and not st.get('dead') \
                    and any(r_[0] in ('attr', 'obj2') for r_ in refs_of(op)):
                # taking a value from another attribute / object may have to query the database, and Pony saves the pending changes
                # before any query: the flush is made explicit (the program stays self-describing, the model sees it)
                prog.insert(idx, {'op': 'flush'})
                op = prog[idx]
            o = op['op']; res.executed = idx + 1
            if st.get('quiet') and o in ('call', 'read', 'readattr', 'assign', 'other'):
                # after a flush that was not followed by a look at the attribute: anything that touches the database may have to save
                # the object first; a failure of that save is a failure to write what the session saw
                try:
                    if o == 'call' and op['var'] in st['vars']:
                        xq = st['vars'][op['var']]
                        try: do_call(xq, op)
                        except TypeError:
                            if not getattr(xq, 'dropped', False): raise
                            continue        # an outdated wrapper of a volatile attribute refuses the change: nothing happened
                        do_call(st['mvars'][op['var']], op)
                        find_paths(st['mirror'], st['mvars'][op['var']])
                        flush()
                except Exception as ex:
                    res.losses.append({'at': idx, 'kind': 'raised', 'observed': 'flush after the change raised %s: %s' % (type(ex).__name__, str(ex)[:80]), 'expected': canon(st['mirror'])})
                    try: ds.__exit__(type(ex), ex, ex.__traceback__)
                    except Exception: pass
                    return res
                continue
            if o == 'take':
                try:
                    x = rootval(); y = st['mirror']
                    for s in op['path']: x = x[s]; y = y[s]
                    st['vars'][op['var']] = x; st['mvars'][op['var']] = y
                except (KeyError, IndexError, TypeError, core.OrmError):
                    st['vars'].pop(op['var'], None); st['mvars'].pop(op['var'], None)
                continue
            if o in ('call', 'read'):
                if op['var'] not in st['vars']: continue
                x = st['vars'][op['var']]; y = st['mvars'][op['var']]
                paths = find_paths(st['mirror'], y)
                if len(paths) >= PATH_LIMIT: res.model_valid = False      # shared at too many places after repeated *=
            if o == 'call':
                c = op
                reals = resolve_refs(c)
                if reals is None: continue
                plains = {k: untracked(v) for k, v in reals.items()}
                as_plain = lambda ref: copy.deepcopy(plains[json.dumps(ref)])      # Pony copies what is handed in (make): so does the mirror
                owner = (st['e'], getattr(E, attr))
                RESOLVE[0] = (lambda ref: LiveT(to_T(reals[json.dumps(ref)], None, owner))) if akind is None else as_plain
                mm = model_mut(c, y)
                RESOLVE[0] = as_plain
                before_m = canon(y); old_items = list(y) if isinstance(y, list) else None
                rerr = merr = None
                RESOLVE[0] = lambda ref: reals[json.dumps(ref)]
                try: do_call(x, c)
                except Exception as ex: rerr = type(ex).__name__
                array_reject = rerr == 'TypeError' and akind is not None
                RESOLVE[0] = as_plain
                # a dead owner (session over / deleted) refuses: with the check BEFORE the built-in method nothing changes
                refused = bool(st.get('dead')) and rerr in ('DatabaseSessionIsOver', 'OperationWithDeletedObjectError') and FACTS.get('refusesFirst') \
                    and isinstance(x, TrackedValue) and notifying(x, c)
                # an outdated wrapper (volatile attribute, taken before a save) refuses before it changes anything
                outdated = rerr == 'TypeError' and getattr(x, 'dropped', False)
                if outdated: refused = True
                if not array_reject and not refused:
                    try: do_call(y, c)
                    except Exception as ex: merr = type(ex).__name__
                    dead_exc = st.get('dead') and rerr in ('DatabaseSessionIsOver', 'OperationWithDeletedObjectError')
                    if rerr != merr and not dead_exc: res.mirror_diffs.append({'at': idx, 'what': 'exception', 'real': rerr, 'mirror': merr})
                if merr is not None and canon(y) != before_m:
                    res.partial = True
                    if c['n'] == 'sort' and mm is not None and len(y) == len(old_items):
                        # the sort raised after it had reordered the list: the model's `sortRaise` with the observed permutation
                        used = set(); perm = []
                        for item in y:
                            j = next(i for i, o_ in enumerate(old_items) if o_ is item and i not in used)
                            used.add(j); perm.append(j)
                        mm = {'n': 'sortRaise', 'perm': perm}
                    else:
                        res.model_valid = False
                if rerr is not None and rerr == merr and canon(x) != canon(y):
                    # both raised, but the part of the change that happened before the exception differs (Pony converts the iterable
                    # first, plain Python consumes it while changing the list): not the property; the program ends here
                    res.stopped = True
                elif st.get('dead') == 'deleted':
                    if canon(x) != canon(y): res.mirror_diffs.append({'at': idx, 'what': 'value of the wrapper of a deleted object', 'real': canon(x), 'mirror': canon(y)})
                elif st.get('dead'):
                    check_mirror(idx)
                elif rerr is not None and rerr == merr and canon(rootval()) != canon(st['mirror']):
                    res.stopped = True
                else:
                    check_mirror(idx)
                if mm is None or (mm['n'] == 'sortFail' and rerr is None): res.model_valid = False
                if res.model_valid:
                    if paths:
                        if len(paths) > 1: res.shared += 1
                        for p in paths: res.model_ops.append({'t': c['t'], 'p': p, 'm': mm})
                        res.snaps.append((len(res.model_ops) - 1, snap(rerr), idx))
                    elif isinstance(x, TrackedValue) and notifying(x, c) and not array_reject and not outdated and (merr is None or FACTS.get('notifyOnError')):
                        res.model_ops.append({'t': 'touch'}); res.snaps.append((len(res.model_ops) - 1, snap(rerr if st.get('dead') else None), idx))
                RESOLVE[0] = None
                others_clean(idx)
                if res.stopped: break
                continue
            if o == 'read':
                e = st['e']; before = (e._status_, e._wbits_, len(env.updates()), canon(rootval()))
                rr = mr = None
                try: rr = do_read(x, op)
                except Exception as ex: rr = 'raised ' + type(ex).__name__
                try: mr = do_read(y, op)
                except Exception as ex: mr = 'raised ' + type(ex).__name__
                if rr != mr: res.mirror_diffs.append({'at': idx, 'what': 'read ' + op['r'], 'real': rr, 'mirror': mr})
                after = (e._status_, e._wbits_, len(env.updates()), canon(rootval()))
                if before != after: res.read_dirty.append({'at': idx, 'read': op['r'], 'before': before[:3], 'after': after[:3]})
                if res.model_valid and paths:
                    res.model_ops.append({'t': 'read', 'p': paths[0]}); res.snaps.append((len(res.model_ops) - 1, snap(None), idx))
                continue
            if o == 'readattr':
                e = st['e']; before = (e._status_, e._wbits_, len(env.updates()))
                rootval()
                after = (e._status_, e._wbits_, len(env.updates()))
                if before != after: res.read_dirty.append({'at': idx, 'read': 'attribute', 'before': before, 'after': after})
                continue
            if o in ('end', 'delete', 'rollback'):
                if st.get('dead'): continue
                if o == 'end':
                    st['committed'] = canon(rootval())
                    try: ds.__exit__(None, None, None)
                    except Exception as ex:
                        res.losses.append({'at': idx, 'kind': 'raised', 'observed': 'commit raised %s: %s' % (type(ex).__name__, str(ex)[:80]), 'expected': st['committed']})
                        res.model_valid = False; return res
                    if st['pk'] is None: st['pk'] = st['e'].id
                    st['dead'] = 'over'
                    if res.model_valid: res.model_ops.append({'t': 'endSession'}); res.snaps.append((len(res.model_ops) - 1, snap(None), idx))
                elif o == 'delete':
                    st['e'].delete(); st['dead'] = 'deleted'
                    if res.model_valid: res.model_ops.append({'t': 'delete'}); res.snaps.append((len(res.model_ops) - 1, snap(None), idx))
                else:
                    if st['pk'] is None: continue               # (never committed: nothing to compare with)
                    from pony.orm import rollback
                    rollback(); st['dead'] = 'rolled back'
                    if st.get('committed') is None: res.model_valid = False        # (created and never committed: the row is gone)
                    if res.model_valid:
                        res.model_ops.append({'t': 'rollback'}); res.snaps.append((len(res.model_ops) - 1, snap(None, True), idx))
                continue
            if st.get('dead') and o in ('flush', 'commit', 'query', 'reload', 'other', 'assign', 'readattr'):
                if o in ('assign', 'other'):
                    # `__set__` raises before anything happens
                    try:
                        if o == 'assign' and not refs_of(op): setattr(st['e'], attr, dec(op['v']))
                        elif o == 'other': st['e'].tag = 'dead'
                        else: continue
                        res.mirror_diffs.append({'at': idx, 'what': 'assignment to a dead object did not raise', 'real': None, 'mirror': 'exception'})
                    except Exception as ex:
                        if res.model_valid and not (o == 'assign' and akind is not None):
                            res.model_ops.append({'t': 'other'} if o == 'other' else {'t': 'assign', 'v': to_T_raw(dec(op['v']))})
                            res.snaps.append((len(res.model_ops) - 1, snap(type(ex).__name__), idx))
                continue
            if o == 'other':
                env.ntag += 1
                st['e'].tag = 't%d' % env.ntag
                if res.model_valid:
                    res.model_ops.append({'t': 'other'}); res.snaps.append((len(res.model_ops) - 1, snap(None), idx))
                continue
            if o == 'assign':
                reals = resolve_refs(op)
                if reals is None: continue
                plains = {k: untracked(v) for k, v in reals.items()}
                v = op['v']
                same = None
                if isinstance(v, dict) and '$ref' in v and bound(reals[json.dumps(v['$ref'])], (st['e'], getattr(E, attr))):
                    # validate() hands a wrapper bound to this object and attribute back as it is: the alias becomes the value
                    ref = v['$ref']
                    if ref[0] == 'var': same = st['mvars'][ref[1]]
                    else:
                        same = st['mirror']
                        for s_ in ref[2]: same = same[s_]
                RESOLVE[0] = lambda ref: reals[json.dumps(ref)]
                rerr = None
                try:
                    if op.get('via') == 'set': st['e'].set(**{attr: dec(v)})        # Entity.set(**kwargs): the other way to assign
                    else: setattr(st['e'], attr, dec(v))
                except Exception as ex: rerr = type(ex).__name__
                RESOLVE[0] = lambda ref: copy.deepcopy(plains[json.dumps(ref)])
                newval = same if same is not None else dec(v)
                if akind is not None and same is None:
                    newval, merr = array_validate_mirror(newval, akind)        # ArrayConverter.validate
                    if merr != rerr: res.mirror_diffs.append({'at': idx, 'what': 'exception of the assignment', 'real': rerr, 'mirror': merr})
                elif rerr is not None:
                    res.mirror_diffs.append({'at': idx, 'what': 'exception of the assignment', 'real': rerr, 'mirror': None})
                RESOLVE[0] = None
                if rerr is None:
                    st['mirror'] = newval
                    check_mirror(idx)
                    if res.model_valid:
                        if akind is None and isinstance(v, dict) and '$ref' in v and same is None:
                            mv = to_T(reals[json.dumps(v['$ref'])], None, (st['e'], getattr(E, attr)))      # live: ours / foreign
                        elif akind is None and same is None:
                            RESOLVE[0] = lambda ref: LiveT(to_T(reals[json.dumps(ref)], None, (st['e'], getattr(E, attr))))
                            mv = to_T_raw(dec(v)); RESOLVE[0] = None
                        else:
                            mv = to_T(newval, akind, False)
                        res.model_ops.append({'t': 'assign', 'v': mv})
                        res.snaps.append((len(res.model_ops) - 1, snap(None), idx))
                others_clean(idx)
                continue
            if o in ('flush', 'commit', 'query'):
                nupd = len(env.updates()); was_dirty = dirty() or st['e']._status_ in ('modified', 'created')
                saved = st['e']._status_ in ('modified', 'created')
                insess = canon(rootval()) if not op.get('quiet') else canon(st['mirror'])
                try:
                    if o == 'flush': flush()
                    elif o == 'query': E.select().first()        # any query: Pony saves the pending changes first
                    else: commit()
                except Exception as ex:
                    # the save itself failed: what the session saw is not written
                    res.losses.append({'at': idx, 'kind': 'raised', 'observed': '%s raised %s: %s' % (o, type(ex).__name__, str(ex)[:80]), 'expected': insess})
                    res.model_valid = False
                    try: ds.__exit__(type(ex), ex, ex.__traceback__)
                    except Exception: pass
                    return res
                if st['pk'] is None: st['pk'] = st['e'].id
                if not was_dirty and len(env.updates()) != nupd and not created:
                    res.read_dirty.append({'at': idx, 'read': 'UPDATE issued for a clean object', 'before': nupd, 'after': len(env.updates())})
                if op.get('quiet'):
                    res.model_valid = False      # no look at the attribute after this flush (a look would read a volatile value again)
                    st['quiet'] = True
                    continue
                check_persisted(idx, o)
                if o == 'commit': st['committed'] = canon(rootval())
                if res.model_valid:
                    res.model_ops.append({'t': 'commit' if o == 'commit' else 'flush'})
                if attr in env.volatile and saved:
                    # `_update_dbvals_` dropped the volatile value; the look above has read it again: wrappers taken before are
                    # no longer part of the value (mirror: a fresh copy; the old mirror objects stay with their variables)
                    if canon(st['mirror']) != canon(rootval()):
                        res.mirror_diffs.append({'at': idx, 'what': 'volatile value read again after the save', 'real': canon(rootval()), 'mirror': canon(st['mirror'])})
                    st['mirror'] = copy.deepcopy(plain(rootval()))
                    if res.model_valid: res.model_ops.append({'t': 'refresh', 'v': to_T(st['mirror'], akind, False)})
                if res.model_valid:
                    res.snaps.append((len(res.model_ops) - 1, snap(None, True), idx))
                continue
            if o == 'reload':
                insess = canon(rootval())
                try:
                    ds.__exit__(None, None, None)
                except Exception as ex:
                    res.losses.append({'at': idx, 'kind': 'raised', 'observed': 'commit raised %s: %s' % (type(ex).__name__, str(ex)[:80]), 'expected': insess})
                    res.model_valid = False
                    return res
                if st['pk'] is None: st['pk'] = st['e'].id
                ds.__enter__()
                st['e'] = E[st['pk']]; st['e2'] = E[st['pk2']]; st['vars'] = {}; st['mvars'] = {}
                loaded = canon(rootval())
                if loaded != insess: res.losses.append({'at': idx, 'kind': 'new session', 'observed': loaded, 'expected': insess})
                if canon(st['mirror']) != insess: res.mirror_diffs.append({'at': idx, 'what': 'value at end of session', 'real': insess, 'mirror': canon(st['mirror'])})
                st['mirror'] = copy.deepcopy(plain(rootval())); st['committed'] = canon(st['mirror'])
                if res.model_valid:
                    res.model_ops.append({'t': 'reload', 'v': to_T(st['mirror'], akind, False)}); res.snaps.append((len(res.model_ops) - 1, snap(None, True), idx))
                continue
            raise ValueError(o)
        # end of program = end of session
        if st.get('dead'):
            # nothing done to the dead object may reach the database: it holds what was committed last
            if st['dead'] != 'over':
                try: ds.__exit__(None, None, None)
                except Exception as ex:
                    res.losses.append({'at': len(prog), 'kind': 'raised', 'observed': 'commit raised %s' % type(ex).__name__, 'expected': st.get('committed')}); return res
            with db_session:
                obj = E.get(id=st['pk']) if st['pk'] is not None else None
                loaded = canon(getattr(obj, attr)) if obj is not None else None
            if st['dead'] == 'deleted':
                if obj is not None: res.mirror_diffs.append({'at': len(prog), 'what': 'deleted object is still in the database', 'real': loaded, 'mirror': None})
            elif loaded != st.get('committed'):
                res.losses.append({'at': len(prog), 'kind': 'dead object', 'observed': loaded, 'expected': st.get('committed')})
            return res
        others_clean(len(prog))
        quiet_before = any(p_.get('quiet') for p_ in prog)
        insess = canon(st['mirror']) if quiet_before else canon(rootval())
        try:
            ds.__exit__(None, None, None)
        except Exception as ex:
            res.losses.append({'at': len(prog), 'kind': 'raised', 'observed': 'commit raised %s: %s' % (type(ex).__name__, str(ex)[:80]), 'expected': insess})
            return res
        if st['pk'] is None: st['pk'] = st['e'].id
        with db_session:
            loaded = canon(getattr(E[st['pk']], attr))
        if loaded != insess: res.losses.append({'at': len(prog), 'kind': 'new session', 'observed': loaded, 'expected': insess})
    except BaseException as ex:
        import traceback
        frames = [f.name for f in traceback.extract_tb(ex.__traceback__)]
        try: ds.__exit__(*sys.exc_info())
        except Exception: pass
        RESOLVE[0] = None
        if isinstance(ex, Exception) and any(n in ('_save_', '_save_updated_', '_save_created_') for n in frames):
            # an implicit flush (before a query, e.g. the load of a lazy attribute) failed to write the object
            res.losses.append({'at': res.executed - 1, 'kind': 'raised', 'observed': 'saving the object raised %s: %s' % (type(ex).__name__, str(ex)[:80]),
                               'expected': canon(st.get('mirror'))})
            res.model_valid = False
            return res
        raise
    return res

# ---------------------------------------------------------------------------------------------------------------------
# random programs

ATOMS = [None, True, False, 0, 1, 2, -1, 7, 10**12, '', 'a', 'b', 'k', 'é"\\']
KEYS = ['a', 'b', 'c', 'k', 'l', '']

def rand_json(rng, depth, p_tuple=0.0):
    r = rng.random()
    if depth <= 0 or r < 0.45: return rng.choice(ATOMS)
    if p_tuple and rng.random() < p_tuple:
        return tuple(rand_json(rng, depth - 1, p_tuple) for _ in range(rng.choice([1, 1, 2])))
    if r < 0.75: return [rand_json(rng, depth - 1, p_tuple) for _ in range(rng.choice([0, 1, 2, 3]))]
    return {rng.choice(KEYS): rand_json(rng, depth - 1, p_tuple) for _ in range(rng.choice([0, 1, 2, 3]))}

def rand_doc(rng):
    d = {}
    for k in rng.sample(KEYS, rng.choice([1, 2, 3, 4])):
        d[k] = rand_json(rng, 3)
    if rng.random() < 0.8: d['l'] = [rand_json(rng, 2) for _ in range(rng.choice([0, 1, 2, 4]))]
    if rng.random() < 0.8: d['d'] = {k: rand_json(rng, 2) for k in rng.sample(KEYS, rng.choice([0, 1, 2]))}
    if rng.random() < 0.15: return [d, rand_json(rng, 2)]
    return d

def rand_index(rng, n):
    return rng.choice([-n - 1, -n, -1, 0, 0, 1, n - 1, n - 1, n, n + 1, rng.randint(-n - 1, n + 1)])

def rand_bound(rng, n):
    return rng.choice([None, None, -n - 1, -n, -1, 0, 1, n - 1, n, n + 2])

class Gen(object):
    """online generator: looks at the mirror to choose valid targets; the program it emits is self-contained"""
    def __init__(self, rng, attr, danger):
        self.rng = rng; self.attr = attr; self.danger = danger; self.nvar = 0
    refs = ()
    def value(self, depth=2):
        if self.refs and depth >= 2 and self.rng.random() < 0.10:
            r = {'$ref': self.rng.choice(self.refs)}            # a value taken from the session: alias / other attribute / other object
            return r if self.rng.random() < 0.7 else [r, self.rng.choice(ATOMS)]
        return enc(rand_json(self.rng, depth, 0.25 if self.rng.random() < self.danger else 0.0))
    def kind(self, choices):
        rng = self.rng
        if rng.random() < self.danger: return rng.choice(choices)
        return choices[0]
    def list_call(self, y, array=None):
        rng = self.rng; n = len(y)
        if array:
            good = (lambda: rng.choice([0, 1, 5, -3, True, 2**40])) if array == 'iarr' else (lambda: rng.choice(['', 'a', 'b', 'zz']))
            bad = lambda: rng.choice(['x', None, [1], {'$d': [['a', 1]]}]) if array == 'iarr' else rng.choice([1, None, ['a'], True])
            val = lambda: (bad() if rng.random() < 0.15 else good())
            vals = lambda: [val() for _ in range(rng.choice([0, 1, 2, 3]))]
        else:
            val = lambda: self.value(); vals = lambda: [self.value() for _ in range(rng.choice([0, 1, 2, 3]))]
        name = rng.choice(['setitem', 'setslice', 'delitem', 'delslice', 'append', 'append', 'extend', 'extend', 'insert', 'pop', 'remove',
                           'reverse', 'sort', 'clear', 'iadd', 'iadd', 'imul', 'setslice_step', 'delslice_step'])
        c = {'op': 'call', 't': 'lmut', 'n': name}
        if name == 'setitem': c.update(i=rand_index(rng, n), v=val())
        elif name == 'setslice': c.update(a=rand_bound(rng, n), b=rand_bound(rng, n), k=self.kind(['list', 'tuple', 'gen']), vs=vals())
        elif name == 'setslice_step':
            a, b, s = rand_bound(rng, n), rand_bound(rng, n), rng.choice([2, -1, 3, -2])
            cnt = len(range(*slice(a, b, s).indices(n)))
            c.update(a=a, b=b, s=s, k=self.kind(['list', 'tuple', 'gen']), vs=[val() for _ in range(cnt if rng.random() < 0.85 else cnt + 1)])
        elif name == 'delitem': c.update(i=rand_index(rng, n))
        elif name == 'delslice': c.update(a=rand_bound(rng, n), b=rand_bound(rng, n))
        elif name == 'delslice_step': c.update(a=rand_bound(rng, n), b=rand_bound(rng, n), s=rng.choice([2, -1, 3, -2]))
        elif name == 'append': c.update(v=val())
        elif name in ('extend', 'iadd'): c.update(k=self.kind(['list', 'tuple', 'gen']), vs=vals())
        elif name == 'insert': c.update(i=rand_index(rng, n), v=val())
        elif name == 'pop': c.update(i=rng.choice([None, None, rand_index(rng, n)]))
        elif name == 'remove': c.update(v=enc(plain(rng.choice(y))) if n and rng.random() < 0.75 else val())
        elif name == 'sort': c.update(key=rng.choice([None, 'json', 'json']), rev=rng.choice([False, True]))
        elif name == 'imul': c.update(c=rng.choice([-1, 0, 1, 2, 2, 3]) if n * 3 < 40 else rng.choice([0, 1]))
        if name in ('extend', 'iadd', 'setslice') and c['k'] == 'gen' and rng.random() < self.danger * 0.3:
            c['boom'] = rng.randint(0, len(c['vs']))
        return c
    def dict_call(self, y):
        rng = self.rng
        name = rng.choice(['setitem', 'setitem', 'delitem', 'update', 'update', 'setdefault', 'pop', 'popitem', 'clear', 'ior', 'ior'])
        key = lambda: (rng.choice(list(y)) if y and rng.random() < 0.6 else rng.choice(KEYS))
        pairs = lambda: [[key(), self.value()] for _ in range(rng.choice([0, 1, 2, 3]))]
        c = {'op': 'call', 't': 'dmut', 'n': name}
        if name in ('setitem', 'setdefault'): c.update(key=key(), v=self.value())
        elif name == 'delitem': c.update(key=key())
        elif name == 'update':
            k = rng.choice([None, 'dict', 'dict', self.kind(['dict', 'list', 'tuple', 'gen', 'view'])])
            ps = pairs()
            if k in ('dict', 'view'): ps = [[a, b] for a, b in dict((a, json.dumps(b)) for a, b in ps).items()]; ps = [[a, json.loads(b)] for a, b in ps]
            kw = [[a, self.value()] for a in rng.sample(['a', 'b', 'kwx'], rng.choice([0, 0, 1, 2]))]
            c.update(k=k, ps=ps if k is not None else [], kw=kw)
        elif name == 'pop': c.update(key=key(), d=rng.random() < 0.4)
        elif name == 'ior':
            k = self.kind(['dict', 'list', 'tuple', 'gen', 'view'])
            ps = pairs()
            if k in ('dict', 'view'): ps = [[a, json.loads(b)] for a, b in dict((a, json.dumps(b)) for a, b in ps).items()]
            c.update(k=k, ps=ps)
            if k in ('list', 'tuple') and ps and rng.random() < self.danger * 0.3: c['bad'] = rng.randint(1, len(ps))
        return c
    def read(self, y, array=None):
        rng = self.rng
        if isinstance(y, dict):
            n = rng.choice(['len', 'iter', 'repr', 'bool', 'copy', 'copy.copy', 'deepcopy', 'pickle', 'json', 'eq', 'contains', 'get', 'getitem',
                            'keys', 'values', 'items', 'or', 'dict'])
            r = {'op': 'read', 'r': n}
            if n in ('get', 'getitem'): r['key'] = rng.choice(list(y) + KEYS)
            if n == 'contains': r['v'] = rng.choice(list(y) + KEYS)
            if n == 'eq': r['v'] = enc(plain(y)) if rng.random() < 0.5 else self.value()
        else:
            n = rng.choice(['len', 'iter', 'repr', 'bool', 'copy', 'copy.copy', 'deepcopy', 'pickle', 'json', 'eq', 'contains', 'getitem', 'slice',
                            'index', 'count', 'add', 'mul', 'reversed', 'sorted'])
            r = {'op': 'read', 'r': n}
            if n == 'getitem': r['i'] = rand_index(rng, len(y))
            if n == 'slice': r.update(a=rand_bound(rng, len(y)), b=rand_bound(rng, len(y)))
            # (TrackedArray.__contains__ gives an iterable argument the meaning 'subset': only scalars are asked of arrays)
            if n in ('contains', 'index', 'count'): r['v'] = enc(plain(rng.choice(y))) if y and rng.random() < 0.7 else self.value(0 if array else 1)
            if n == 'eq': r['v'] = enc(plain(y)) if rng.random() < 0.5 else self.value()
        return r

def random_program(env, rng, attr, nops, danger, created=False):
    """generate AND run a random program (the generator looks at the current mirror); returns (init, prog, result)"""
    g = Gen(rng, attr, danger)
    akind = env.akind[attr]
    if akind is None: init = enc(rand_doc(rng))
    elif akind == 'iarr': init = [rng.choice([0, 1, 2, 5, -3]) for _ in range(rng.choice([0, 1, 3, 5]))]
    else: init = [rng.choice(['a', 'b', '', 'zz']) for _ in range(rng.choice([0, 1, 3, 5]))]
    if created and akind is None: init = enc(json.loads(json.dumps(plain(dec(init)))))     # (no tuples in rand_doc anyway)
    left = [nops]; dead = [None]
    stale = set()          # volatile attribute: variables bound before the last save no longer refer into the value
    def source(root, mvars):
        ops = source1(root, mvars)
        if ops and attr in env.volatile and any(o['op'] in ('flush', 'commit', 'query') for o in ops): stale.update(mvars)
        if ops and any(o['op'] == 'reload' for o in ops): stale.clear()
        return ops
    def source1(root, mvars):
        while left[0] > 0:
            left[0] -= 1
            r = rng.random()
            conts = containers(root)
            if dead[0]:
                # the object is dead (session over / deleted / rolled back): a few more calls through the wrappers the program still holds
                live_ = sorted(v for v in mvars if isinstance(mvars[v], (list, dict)))
                if dead[0] == 'end' and conts and (not live_ or rng.random() < 0.4):
                    path, y = rng.choice(conts); var = 'x%d' % g.nvar; g.nvar += 1
                    pre = [{'op': 'take', 'var': var, 'path': path}]
                elif live_:
                    var = rng.choice(live_); y = mvars[var]; pre = []
                else: return None
                if rng.random() < 0.15: return [{'op': rng.choice(['other', 'assign']), 'v': 1} if akind is None else {'op': 'other'}]
                g.refs = []
                op = g.list_call(y, akind) if isinstance(y, list) else g.dict_call(y)
                op['var'] = var
                return pre + [op]
            if r < 0.10 or not conts:
                o = rng.choice(['flush', 'flush', 'commit', 'query', 'reload', 'assign', 'assign', 'readattr', 'other', 'other'])
                if rng.random() < 0.12 and left[0] < nops - 1:
                    o = rng.choice(['end', 'end', 'delete', 'rollback'])
                    if not (o == 'rollback' and created):
                        dead[0] = o; left[0] = min(left[0], 4)
                        return [{'op': o}]
                if o == 'assign':
                    live_ = sorted(v for v in mvars if isinstance(mvars[v], (list, dict)) and v not in stale)
                    if akind is None:
                        cands = [['var', v] for v in live_] + [['attr', a, p_] for a in ('data', 'vdata', 'ldata') if a != attr for p_ in ([], ['l'], ['d'])] + \
                                [['obj2', a, p_] for a in ('data', 'vdata') for p_ in ([], ['l', 1])]
                        v = {'$ref': rng.choice(cands)} if rng.random() < 0.45 else enc(rand_doc(rng))
                    else:
                        same_kind = [a for a, k in env.akind.items() if k == akind]
                        good = (lambda: rng.choice([0, 1, 5, True])) if akind == 'iarr' else (lambda: rng.choice(['', 'a', 'zz']))
                        v = rng.choice([init, {'$t': [good(), good()]}, good(), [good(), None], None if False else [good()],
                                        {'$ref': ['attr', rng.choice(same_kind), []]}, {'$ref': ['obj2', rng.choice(same_kind), []]},
                                        {'$ref': ['var', live_[0]]} if live_ else [good()]])
                    return [{'op': 'assign', 'v': v, 'via': rng.choice(['setattr', 'set'])}]
                return [{'op': o}]
            ops = []
            live = sorted(v for v in mvars if isinstance(mvars[v], (list, dict)) and v not in stale)
            if akind is None:
                g.refs = [['var', v] for v in live] + [['attr', a, p_] for a in ('data', 'vdata', 'odata') if a != attr for p_ in ([], ['l'], ['l', 1], ['d', 'a'])] + \
                         [['obj2', 'data', p_] for p_ in ([], ['l'], ['l', 1])]
            if live and rng.random() < 0.4:
                var = rng.choice(live); y = mvars[var]
            else:
                deep = [c for c in conts if len(c[0]) >= 2]
                path, y = rng.choice(deep) if deep and rng.random() < 0.5 else rng.choice(conts)
                var = 'x%d' % g.nvar; g.nvar += 1
                ops.append({'op': 'take', 'var': var, 'path': path})
            if r < 0.30: op = g.read(y, akind)
            else: op = g.list_call(y, akind) if isinstance(y, list) else g.dict_call(y)
            op['var'] = var
            return ops + [op]
        return None
    prog = []
    res = execute(env, attr, init, prog, created=created, source=source)
    return init, prog, res

# ---------------------------------------------------------------------------------------------------------------------
# classification / shrinking of a loss

def classify(prog, unwrapped_pairs):
    """canonical key of a (minimal) losing program"""
    for op in prog:
        if op['op'] == 'call' and 'k' in op and op['k'] is not None:
            vals = [dec(v) for v in op.get('vs', [])] + [dec(v) for _, v in op.get('ps', [])]
            im = {'extend': 'extend', 'iadd': 'iadd', 'setslice': 'setslice', 'setslice_step': 'setslice', 'update': 'update', 'ior': 'ior'}.get(op['n'])
            # the known shape: the iterable is not a list / dict / keyword arguments (for |= : not a dict)
            odd = MODEL_KIND[op['k']] in ('tuple', 'gen') or (im == 'ior' and op['k'] == 'list')
            if im and odd and any(has_container(v) for v in vals) and [im, MODEL_KIND[op['k']]] in unwrapped_pairs: return KEY_ITER
    for op in prog:
        vals = []
        if op['op'] == 'call': vals = [dec(op[f]) for f in ('v',) if f in op] + [dec(v) for v in op.get('vs', [])] + [dec(v) for _, v in op.get('ps', [])] + [dec(v) for _, v in op.get('kw', [])]
        if op['op'] == 'assign': vals = [dec(op['v'])]
        if any(tuple_with_container(v) for v in vals): return KEY_TUPLE
    sig = []
    for op in prog:
        if op['op'] == 'call': sig.append('%s.%s%s' % (op['t'][0], op['n'], ('(%s)' % op['k']) if op.get('k') else ''))
        elif op['op'] != 'take': sig.append(op['op'])
    return 'lost:' + '>'.join(sig)

def shrink(env, attr, init, prog, created=False):
    budget = [150]      # executions per program
    def loses(p):
        if budget[0] <= 0: return False
        budget[0] -= 1
        try: return bool(execute(env, attr, init, p, created).losses)
        except Exception: return False
    cur = list(prog)
    changed = True
    while changed and budget[0] > 0:
        changed = False
        for i in range(len(cur) - 1, -1, -1):
            cand = cur[:i] + cur[i + 1:]
            if loses(cand): cur = cand; changed = True
    used = {op['var'] for op in cur if op['op'] in ('call', 'read')}
    cur = [op for op in cur if op['op'] != 'take' or op['var'] in used]
    return cur if loses(cur) else list(prog)

# ---------------------------------------------------------------------------------------------------------------------

def report_result(ctx, env, attr, init, prog, res, facts, created=False, label='random'):
    if res.losses and ctx.counters.get('loss:minimised', 0) >= 25 and ctx.violations:
        # 25 losing programs have been minimised and reported already: further ones are counted, not minimised (a check must end)
        ctx.count('loss:counted only (25 losing programs already minimised and reported)')
    elif res.losses:
        ctx.count('loss:minimised')
        small = shrink(env, attr, init, prog, created)
        r2 = execute(env, attr, init, small, created)
        loss = (r2.losses or res.losses)[0]
        stale = attr in env.volatile and any(o['op'] in ('flush', 'commit', 'query') for o in small) and (loss['kind'] == 'raised' or any(o.get('quiet') for o in small))
        key = KEY_VOLSTALE if stale else (KEY_PARTIAL if r2.partial else classify(small, facts['iterUnwrapped']))
        ctx.violation(WHAT.get(key, 'a change made in place to a Json/array value is missing after the commit'),
                      {'attr': attr, 'init': init, 'program': small, 'created_in_same_session': created, 'found_by': label},
                      observed=loss['observed'], expected=loss['expected'], key='C28:' + key)
        ctx.count('loss:' + key)
    for fd in res.foreign[:1]:
        ctx.violation('a change made to the value of one object marked ANOTHER object modified (the wrapper notifies the wrong object)',
                      {'attr': attr, 'init': init, 'program': prog[:fd['at'] + 1], 'created_in_same_session': created}, observed=fd['observed'], expected=['loaded', 0],
                      key='C28:wrapper-bound-to-another-object')
    for rd in res.read_dirty[:1]:
        ctx.violation('a read of a Json/array value marked the object modified (or caused an UPDATE)',
                      {'attr': attr, 'init': init, 'program': prog[:rd['at'] + 1]}, observed=rd['after'], expected=rd['before'],
                      key='C28:read-marks-modified:%s' % rd['read'])
    for md in res.mirror_diffs[:1]:
        ctx.divergence('in-session value / exception differs from the same operations on a plain Python copy (not the property; the mirror is what '
                       'the model is validated against)', {'attr': attr, 'init': init, 'program': prog[:md['at'] + 1]}, model=md['mirror'], impl=md['real'])

def search_after_divergence(ctx, env, facts, attr, init, prog):
    """the model and the code disagree after `prog`: look for a loss near it — flush, then change every container of the
    value in place through an alias, then end the session"""
    if ctx.counters.get('divergence-followed-up', 0) >= 6: return
    ctx.count('divergence-followed-up')
    try:
        probe = execute(env, attr, init, list(prog))
    except Exception:
        return
    if probe.losses:
        report_result(ctx, env, attr, init, list(prog), probe, facts, label='follow-up of a divergence'); return
    # the containers of the value after `prog` (paths from the plain mirror of a dry run)
    state = {}
    def source(root, mvars):
        if 'paths' not in state:
            state['paths'] = [p for p, c in containers(root)][:10]; state['kinds'] = {json.dumps(p): isinstance(c, list) for p, c in containers(root)}
        return None
    try: execute(env, attr, init, list(prog), source=source)
    except Exception: return
    for path in state.get('paths', []):
        is_list = state['kinds'][json.dumps(path)]
        call = {'op': 'call', 'var': 'zz', 't': 'lmut', 'n': 'append', 'v': 1} if is_list else {'op': 'call', 'var': 'zz', 't': 'dmut', 'n': 'setitem', 'key': 'zz', 'v': 1}
        if is_list and attr == 'sarr': call['v'] = 'q'
        cand = list(prog) + [{'op': 'flush'}, {'op': 'take', 'var': 'zz', 'path': path}, call]
        try: r = execute(env, attr, init, cand)
        except Exception: continue
        ctx.case(['follow-up', attr, path], kind='oracle:follow-up of a divergence')
        if r.losses or r.read_dirty:
            report_result(ctx, env, attr, init, cand, r, facts, label='follow-up of a divergence'); return

def compare_model(ctx, batch, env=None, facts=None):
    """batch: list of (attr, init, prog, res) with res.model_ops / res.snaps; one driver call"""
    if not ctx.driver.ok:
        ctx.note('driver unavailable: model correspondence skipped'); return
    reqs = [{'op': 'run', 'db': res.init_T, 'ops': res.model_ops, 'created': res.created, 'volatile': res.volatile} for _, _, _, res in batch]
    outs = ctx.driver('C28', reqs)
    for (attr, init, prog, res), out in zip(batch, outs):
        if 'driver_error' in out:
            ctx.divergence('driver rejected the program', {'attr': attr, 'init': init, 'program': prog}, model=out['driver_error']); continue
        states = out['states']
        for mo in res.model_ops:
            js = json.dumps(mo)
            if '"flist"' in js or '"fdict"' in js: ctx.count('model-op with a wrapper of another object / attribute (re-bound by the model)')
            elif mo['t'] in ('lmut', 'dmut', 'assign') and '"w": true' in js.split('"m"')[-1] and mo['t'] != 'assign': ctx.count('model-op with an alias of the same value as argument')
            ctx.count('model-op:%s%s' % (mo['t'], ('.' + mo['m']['n']) if 'm' in mo else ''))
        for mi, s, idx in res.snaps:
            m = states[mi]
            ctx.count('model-step-compared')
            if m['allW']: ctx.count('model:Inv_wrapped holds')
            else: ctx.count('model:Inv_wrapped broken (unwrapped container present)')
            if not out['argsW'][mi]: ctx.count('model:guard argsW false')
            got = {'err': s['err'], 'dirty': s['dirty'], 'status': s['status'], 'doc': s['doc']}
            exp = {'err': m['err'], 'dirty': m['dirty'], 'status': m['status'], 'doc': strip_keys(m['doc'])}
            if m['status'] in ('over', 'deleted'): exp['dirty'] = 'n/a'
            if got['doc'] is None: exp['doc'] = None
            if m['err']: ctx.count('model-err:' + m['err'])
            if 'db' in s:
                got['db'] = sort_T(s['db']); exp['db'] = sort_T(strip_keys(m['db']))
            if got != exp:
                which = [k for k in got if got[k] != exp[k]]
                ctx.divergence('model and real Pony disagree on %s after operation %d' % ('/'.join(which), idx),
                               {'attr': attr, 'init': init, 'program': prog[:idx + 1]}, model={k: exp[k] for k in which}, impl={k: got[k] for k in which})
                if env is not None: search_after_divergence(ctx, env, facts, attr, init, prog[:idx + 1])
                break

# ---------------------------------------------------------------------------------------------------------------------
# tables

LIST_BATTERY = [(), (0,), (1,), (0, 9), (slice(0, 1), [7]), ([9],), (2,), ('a',), (3,), ((8, 9),)]
DICT_BATTERY = [(), ('a',), ('a', 9), ('zz', 9), ({'zz': 1},), ([('zz', 1)],), ('zz',), (['q'],)]

def classify_methods(base, sample, battery):
    out = {}
    for name in dir(base):
        mutating = False
        for args in battery:
            x = copy.deepcopy(sample)
            before = list(x.items()) if isinstance(x, dict) else list(x)
            try:
                f = getattr(x, name)
                if not callable(f): break
                f(*args)
            except Exception:
                pass
            after = list(x.items()) if isinstance(x, dict) else list(x)
            if before != after: mutating = True; break
        out[name] = mutating
    return out

def check_tables(ctx):
    facts = gen_tracked.introspect()
    ctx.extra['tracked_table'] = {k: facts[k] for k in ('listOv', 'dictOv', 'arrOv', 'tupleMode', 'iterUnwrapped', 'notifyOnError', 'refusesFirst', 'rebinds', 'assignRebinds', 'volatileStale', 'other')}
    if facts['errors']:
        ctx.divergence('probing the Tracked classes raised', facts['errors'])
    if not ctx.driver.ok:
        ctx.note('driver unavailable: table checks skipped'); return facts, None
    t = ctx.driver('C28', [{'op': 'tables'}])[0]
    # (1) the table compiled into the Lean build is the table of the classes as they are now
    for k in ('listOv', 'dictOv', 'arrOv', 'listNotify', 'dictNotify', 'arrNotify', 'tupleMode', 'iterUnwrapped', 'notifyOnError', 'refusesFirst', 'rebinds', 'assignRebinds'):
        ctx.case(['table', k], kind='table:fresh-vs-compiled')
        if facts[k] != t[k]:
            ctx.divergence('Gen/TrackedTable.lean (compiled) differs from the classes as they are now: %s' % k, k, model=t[k], impl=facts[k])
    # (2) the reference table of mutating methods vs the running Python
    for base, sample, battery, ref, muts in ((list, [3, 1, 2], LIST_BATTERY, t['listDir'], t['listMutators']),
                                            (dict, {'a': 1, 'b': 2}, DICT_BATTERY, t['dictDir'], t['dictMutators'])):
        live = classify_methods(base, sample, battery)
        ref = {n: c for n, c in ref}
        for n, mut in sorted(live.items()):
            ctx.case(['reference', base.__name__, n, mut], kind='table:reference-vs-python')
            if n not in ref:
                ctx.divergence('%s.%s exists in the running Python but not in the reference table' % (base.__name__, n), n, model=None, impl=mut)
            elif (ref[n] in ('mut', 'ctor')) != mut:
                ctx.divergence('%s.%s: reference table says %s, introspection says mutating=%s' % (base.__name__, n, ref[n], mut), n, model=ref[n], impl=mut)
        for n in ref:
            if n not in live: ctx.note('reference table lists %s.%s which this Python does not have' % (base.__name__, n))
        if sorted(n for n, c in ref.items() if c == 'mut') != sorted(muts):
            ctx.divergence('reference table and method enumeration disagree', base.__name__, model=sorted(muts), impl=sorted(n for n, c in ref.items() if c == 'mut'))
    # (3) overridden <=> observed to notify
    for a, b in (('listOv', 'listNotify'), ('dictOv', 'dictNotify'), ('arrOv', 'arrNotify')):
        ctx.case(['notify', a], kind='table:overridden-vs-notifies')
        if facts[a] != facts[b]:
            ctx.divergence('overridden methods and methods observed to call _attr_changed_ differ (%s)' % a, a, model=facts[a], impl=facts[b])
    return facts, t

# ---------------------------------------------------------------------------------------------------------------------
# fixed programs

DOC = {'$d': [['d', {'$d': [['p', {'$d': [['k', []]]}]]}], ['l', [{'$d': [['k', []]]}, [1, [2]], 0]], ['n', 1]]}
ELEM = {'$d': [['k', []]]}

def witness_programs():
    """(name, attr, init, prog, created) — the replays named in the design: iterables that are not list/dict, tuples, partial failure"""
    out = []
    for n in ('extend', 'iadd', 'setslice'):
        for k in ('list', 'tuple', 'gen'):
            call = {'op': 'call', 't': 'lmut', 'n': n, 'var': 'x', 'k': k, 'vs': [ELEM]}
            if n == 'setslice': call.update(a=0, b=0)
            inner = ['l', 0, 'k'] if n == 'setslice' else ['l', 3, 'k']
            out.append(('%s(%s)' % (n, k), 'data', DOC, [{'op': 'take', 'var': 'x', 'path': ['l']}, call, {'op': 'flush'},
                        {'op': 'take', 'var': 'y', 'path': inner}, {'op': 'call', 't': 'lmut', 'n': 'append', 'var': 'y', 'v': 1}], False))
    for n in ('update', 'ior'):
        for k in ('dict', 'list', 'tuple', 'gen', 'view'):
            call = {'op': 'call', 't': 'dmut', 'n': n, 'var': 'x', 'k': k, 'ps': [['q', ELEM]]}
            if n == 'update': call['kw'] = []
            out.append(('%s(%s)' % (n, k), 'data', DOC, [{'op': 'take', 'var': 'x', 'path': ['d']}, call, {'op': 'commit'},
                        {'op': 'take', 'var': 'y', 'path': ['d', 'q', 'k']}, {'op': 'call', 't': 'lmut', 'n': 'append', 'var': 'y', 'v': 1}], False))
    out.append(('update(kw)', 'data', DOC, [{'op': 'take', 'var': 'x', 'path': ['d']}, {'op': 'call', 't': 'dmut', 'n': 'update', 'var': 'x', 'k': None, 'ps': [], 'kw': [['q', ELEM]]},
                {'op': 'flush'}, {'op': 'take', 'var': 'y', 'path': ['d', 'q', 'k']}, {'op': 'call', 't': 'lmut', 'n': 'append', 'var': 'y', 'v': 1}], False))
    tv = {'$t': [[]]}
    out.append(('append(tuple value)', 'data', DOC, [{'op': 'take', 'var': 'x', 'path': ['l']}, {'op': 'call', 't': 'lmut', 'n': 'append', 'var': 'x', 'v': tv}, {'op': 'flush'},
                {'op': 'take', 'var': 'y', 'path': ['l', 3, 0]}, {'op': 'call', 't': 'lmut', 'n': 'append', 'var': 'y', 'v': 1}], False))
    out.append(('assign(tuple inside)', 'data', DOC, [{'op': 'assign', 'v': {'$d': [['t', tv]]}}, {'op': 'flush'},
                {'op': 'take', 'var': 'y', 'path': ['t', 0]}, {'op': 'call', 't': 'lmut', 'n': 'append', 'var': 'y', 'v': 1}], False))
    out.append(('extend(gen raising)', 'data', DOC, [{'op': 'take', 'var': 'x', 'path': ['l']},
                {'op': 'call', 't': 'lmut', 'n': 'extend', 'var': 'x', 'k': 'gen', 'vs': [5, 6], 'boom': 1}], False))
    out.append(('ior(bad pair)', 'data', DOC, [{'op': 'take', 'var': 'x', 'path': ['d']},
                {'op': 'call', 't': 'dmut', 'n': 'ior', 'var': 'x', 'k': 'list', 'ps': [['z', 1]], 'bad': 1}], False))
    # assignment of a new value (list root, dict root), then changes in place after a flush
    out.append(('assign(list) then change', 'data', DOC, [{'op': 'assign', 'v': [[1], {'$d': [['k', []]]}]}, {'op': 'flush'}, {'op': 'take', 'var': 'r', 'path': []},
                {'op': 'call', 't': 'lmut', 'n': 'append', 'var': 'r', 'v': 2}, {'op': 'flush'}, {'op': 'take', 'var': 'y', 'path': [1, 'k']},
                {'op': 'call', 't': 'lmut', 'n': 'append', 'var': 'y', 'v': 3}], False))
    out.append(('assign(dict) then change', 'data', DOC, [{'op': 'assign', 'v': {'$d': [['k', [[]]]]}}, {'op': 'commit'}, {'op': 'take', 'var': 'y', 'path': ['k', 0]},
                {'op': 'call', 't': 'lmut', 'n': 'append', 'var': 'y', 'v': 3}, {'op': 'flush'}, {'op': 'take', 'var': 'r', 'path': []},
                {'op': 'call', 't': 'dmut', 'n': 'setitem', 'var': 'r', 'key': 'z', 'v': 1}], False))
    out.append(('obj.set(attr=...) then change', 'data', DOC, [{'op': 'assign', 'via': 'set', 'v': {'$d': [['k', [[]]]]}}, {'op': 'commit'}, {'op': 'take', 'var': 'y', 'path': ['k', 0]},
                {'op': 'call', 't': 'lmut', 'n': 'append', 'var': 'y', 'v': 3}], False))
    out.append(('obj.set(array=...) then change', 'arr', [1, 2], [{'op': 'assign', 'via': 'set', 'v': [5, 6]}, {'op': 'flush'}, {'op': 'take', 'var': 'r', 'path': []},
                {'op': 'call', 't': 'lmut', 'n': 'append', 'var': 'r', 'v': 7}], False))
    out.append(('assign(array) then change', 'arr', [1, 2], [{'op': 'assign', 'v': [5, 6]}, {'op': 'flush'}, {'op': 'take', 'var': 'r', 'path': []},
                {'op': 'call', 't': 'lmut', 'n': 'append', 'var': 'r', 'v': 7}], False))
    # values taken from the session: an alias, a value of another attribute, a value of ANOTHER OBJECT (Pony copies them into
    # wrappers bound to this object and attribute; `validate` keeps only a wrapper that is already bound to them)
    ap1 = {'op': 'call', 't': 'lmut', 'n': 'append', 'var': 'y', 'v': 1}
    out.append(('assign(value of another object)', 'data', DOC, [{'op': 'assign', 'v': {'$ref': ['obj2', 'data', []]}}, {'op': 'flush'},
                {'op': 'take', 'var': 'y', 'path': ['l', 1, 'k']}, ap1], False))
    out.append(('assign(part of the value of another object)', 'data', DOC, [{'op': 'assign', 'v': {'$ref': ['obj2', 'vdata', ['l']]}}, {'op': 'commit'},
                {'op': 'take', 'var': 'y', 'path': [0]}, ap1], False))
    out.append(('append(value of another object)', 'data', DOC, [{'op': 'take', 'var': 'x', 'path': ['l']},
                {'op': 'call', 't': 'lmut', 'n': 'append', 'var': 'x', 'v': {'$ref': ['obj2', 'data', ['l', 1]]}}, {'op': 'flush'}, {'op': 'take', 'var': 'y', 'path': ['l', 3, 'k']}, ap1], False))
    out.append(('update(values of another attribute and object)', 'data', DOC, [{'op': 'take', 'var': 'x', 'path': ['d']},
                {'op': 'call', 't': 'dmut', 'n': 'update', 'var': 'x', 'k': 'dict', 'ps': [['q', {'$ref': ['attr', 'odata', ['l']]}]], 'kw': [['r', {'$ref': ['obj2', 'data', ['d']]}]]},
                {'op': 'flush'}, {'op': 'take', 'var': 'y', 'path': ['d', 'q', 0]}, ap1, {'op': 'flush'}, {'op': 'take', 'var': 'z', 'path': ['d', 'r', 'a']},
                {'op': 'call', 't': 'lmut', 'n': 'append', 'var': 'z', 'v': 5}], False))
    out.append(('assign(value of another attribute)', 'data', DOC, [{'op': 'assign', 'v': {'$ref': ['attr', 'ldata', []]}}, {'op': 'flush'},
                {'op': 'take', 'var': 'y', 'path': ['l', 1, 'k']}, ap1], False))
    out.append(('extend([alias])', 'data', DOC, [{'op': 'take', 'var': 'x', 'path': ['l']}, {'op': 'take', 'var': 'a', 'path': ['l', 0]},
                {'op': 'call', 't': 'lmut', 'n': 'extend', 'var': 'x', 'k': 'list', 'vs': [{'$ref': ['var', 'a']}]}, {'op': 'flush'},
                {'op': 'take', 'var': 'y', 'path': ['l', 3, 'k']}, ap1, {'op': 'flush'}, {'op': 'take', 'var': 'y2', 'path': ['l', 0, 'k']},
                {'op': 'call', 't': 'lmut', 'n': 'append', 'var': 'y2', 'v': 2}], False))
    out.append(('assign(alias)', 'data', DOC, [{'op': 'take', 'var': 'a', 'path': ['l']}, {'op': 'assign', 'v': {'$ref': ['var', 'a']}}, {'op': 'flush'},
                {'op': 'call', 't': 'lmut', 'n': 'append', 'var': 'a', 'v': 9}], False))
    for aattr, vv in (('arr', 3), ('sarr', 'z')):
        out.append(('array: assign(value of another object)', aattr, [1, 2] if aattr == 'arr' else ['a'], [{'op': 'assign', 'v': {'$ref': ['obj2', aattr, []]}}, {'op': 'flush'},
                    {'op': 'take', 'var': 'y', 'path': []}, {'op': 'call', 't': 'lmut', 'n': 'append', 'var': 'y', 'v': vv}], False))
        out.append(('array: assign(tuple / scalar / bad item)', aattr, [1, 2] if aattr == 'arr' else ['a'], [{'op': 'assign', 'v': {'$t': [vv, vv]}}, {'op': 'flush'},
                    {'op': 'take', 'var': 'y', 'path': []}, {'op': 'call', 't': 'lmut', 'n': 'append', 'var': 'y', 'v': vv}, {'op': 'assign', 'v': vv}, {'op': 'assign', 'v': [vv, None]},
                    {'op': 'take', 'var': 'y2', 'path': []}, {'op': 'call', 't': 'lmut', 'n': 'append', 'var': 'y2', 'v': vv}], False))
    # the SAME container instance changed -> saved (flush / commit / a query) -> changed again -> end of session; also a new object
    # changed before and after its INSERT
    for save in ('flush', 'commit', 'query'):
        for nm, attr_, init_, path_, c1, c2 in (
                ('top-level dict', 'data', DOC, [], {'t': 'dmut', 'n': 'setitem', 'key': 'k1', 'v': 1}, {'t': 'dmut', 'n': 'setitem', 'key': 'k2', 'v': 2}),
                ('top-level list', 'data', [1, [2]], [], {'t': 'lmut', 'n': 'append', 'v': 3}, {'t': 'lmut', 'n': 'append', 'v': 4}),
                ('nested list', 'data', DOC, ['l', 1, 1], {'t': 'lmut', 'n': 'append', 'v': 3}, {'t': 'lmut', 'n': 'iadd', 'k': 'list', 'vs': [4]}),
                ('nested dict', 'data', DOC, ['d', 'p'], {'t': 'dmut', 'n': 'update', 'k': 'dict', 'ps': [['a', 1]], 'kw': []}, {'t': 'dmut', 'n': 'delitem', 'key': 'k'}),
                ('int array', 'arr', [1, 2], [], {'t': 'lmut', 'n': 'append', 'v': 3}, {'t': 'lmut', 'n': 'imul', 'c': 2}),
                ('str array', 'sarr', ['a'], [], {'t': 'lmut', 'n': 'append', 'v': 'b'}, {'t': 'lmut', 'n': 'reverse'})):
            for created_ in (False, True):
                out.append(('same %s changed, %s, changed again%s' % (nm, save, ' (new object)' if created_ else ''), attr_, init_,
                            [{'op': 'take', 'var': 'x', 'path': path_}, dict(c1, op='call', var='x'), {'op': save}, dict(c2, op='call', var='x')], created_))
    # wrappers that outlive their object's session / a deleted object / a rollback: the call changes the value in memory and raises,
    # the database keeps what was committed
    ap9 = {'op': 'call', 't': 'lmut', 'n': 'append', 'var': 'y', 'v': 9}
    for dead_op in ('end', 'delete', 'rollback'):
        out.append(('%s, then a change through a wrapper taken before' % dead_op, 'data', DOC, [{'op': 'take', 'var': 'y', 'path': ['l', 1, 1]}, dict(ap9, v=8), {'op': dead_op}, ap9,
                    {'op': 'take', 'var': 'z', 'path': ['d']}, {'op': 'call', 't': 'dmut', 'n': 'setitem', 'var': 'z', 'key': 'q', 'v': [1]}, {'op': 'other'},
                    {'op': 'assign', 'v': 5}], False))
    # a mutator that raises after it has already changed the container; the caller catches the exception; the value in a new
    # session must be the in-memory value
    HET = {'$d': [['items', [1, 3, 2, None]], ['d', {'$d': []}]]}
    out.append(('sort() of [1, 3, 2, None] (raises after reordering)', 'data', HET, [{'op': 'take', 'var': 'x', 'path': ['items']},
                {'op': 'call', 't': 'lmut', 'n': 'sort', 'var': 'x', 'key': None, 'rev': False}], False))
    out.append(('sort() raising, object already updated', 'data', HET, [{'op': 'take', 'var': 'x', 'path': ['items']}, {'op': 'call', 't': 'lmut', 'n': 'append', 'var': 'x', 'v': 0},
                {'op': 'flush'}, {'op': 'call', 't': 'lmut', 'n': 'sort', 'var': 'x', 'key': None, 'rev': True}, {'op': 'commit'}], False))
    out.append(('iadd(gen raising)', 'data', HET, [{'op': 'take', 'var': 'x', 'path': ['items']},
                {'op': 'call', 't': 'lmut', 'n': 'iadd', 'var': 'x', 'k': 'gen', 'vs': [5, 6], 'boom': 1}], False))
    out.append(('slice assignment from a raising iterable', 'data', HET, [{'op': 'take', 'var': 'x', 'path': ['items']},
                {'op': 'call', 't': 'lmut', 'n': 'setslice', 'var': 'x', 'a': 1, 'b': 2, 'k': 'gen', 'vs': [5, 6], 'boom': 2}], False))
    out.append(('update(bad pair)', 'data', HET, [{'op': 'take', 'var': 'x', 'path': ['d']},
                {'op': 'call', 't': 'dmut', 'n': 'update', 'var': 'x', 'k': 'list', 'ps': [['z', 1]], 'kw': [], 'bad': 1}], False))
    out.append(('ior(bad pair, tuple)', 'data', HET, [{'op': 'take', 'var': 'x', 'path': ['d']},
                {'op': 'call', 't': 'dmut', 'n': 'ior', 'var': 'x', 'k': 'tuple', 'ps': [['z', 1], ['y', [2]]], 'bad': 2}], False))
    # created in the same session, before and after the first flush
    for fl in (False, True):
        out.append(('created%s' % ('+flush' if fl else ''), 'data', DOC, ([{'op': 'flush'}] if fl else []) +
                    [{'op': 'take', 'var': 'y', 'path': ['l', 1, 1]}, {'op': 'call', 't': 'lmut', 'n': 'append', 'var': 'y', 'v': 3},
                     {'op': 'take', 'var': 'z', 'path': ['d', 'p']}, {'op': 'call', 't': 'dmut', 'n': 'ior', 'var': 'z', 'k': 'dict', 'ps': [['n', [1]]]}], True))
    # the augmented assignment written on the subscription (get, +=, set) and on an alias, shared items after *=
    out.append(('alias += ; *= ; shared item', 'data', DOC, [{'op': 'take', 'var': 'x', 'path': ['l']}, {'op': 'call', 't': 'lmut', 'n': 'imul', 'var': 'x', 'c': 2},
                {'op': 'flush'}, {'op': 'take', 'var': 'y', 'path': ['l', 3, 'k']}, {'op': 'call', 't': 'lmut', 'n': 'iadd', 'var': 'y', 'k': 'list', 'vs': [[1]]},
                {'op': 'commit'}, {'op': 'take', 'var': 'z', 'path': ['l', 0, 'k', 0]}, {'op': 'call', 't': 'lmut', 'n': 'imul', 'var': 'z', 'c': 3}], False))
    # detached wrapper
    out.append(('detached', 'data', DOC, [{'op': 'take', 'var': 'x', 'path': ['l', 1]}, {'op': 'take', 'var': 'r', 'path': ['l']},
                {'op': 'call', 't': 'lmut', 'n': 'delitem', 'var': 'r', 'i': 1}, {'op': 'flush'}, {'op': 'call', 't': 'lmut', 'n': 'append', 'var': 'x', 'v': 9}, {'op': 'flush'}], False))
    # the object is already modified through another attribute when the value is changed in place; and after that UPDATE
    out.append(('other attribute, then change', 'data', DOC, [{'op': 'other'}, {'op': 'take', 'var': 'y', 'path': ['l', 1, 1]}, {'op': 'call', 't': 'lmut', 'n': 'append', 'var': 'y', 'v': 3}], False))
    out.append(('other attribute, flush, then change', 'data', DOC, [{'op': 'take', 'var': 'y', 'path': ['l', 1, 1]}, {'op': 'other'}, {'op': 'flush'},
                {'op': 'call', 't': 'lmut', 'n': 'append', 'var': 'y', 'v': 3}, {'op': 'other'}, {'op': 'commit'}, {'op': 'take', 'var': 'z', 'path': ['d']},
                {'op': 'call', 't': 'dmut', 'n': 'delitem', 'var': 'z', 'key': 'p'}], False))
    # volatile attribute: an alias taken before a save, used after it, the attribute not looked at in between
    out.append(('volatile: alias from before the flush', 'vdata', DOC, [{'op': 'take', 'var': 'y', 'path': ['l', 1, 1]}, {'op': 'call', 't': 'lmut', 'n': 'append', 'var': 'y', 'v': 3},
                {'op': 'flush', 'quiet': True}, {'op': 'call', 't': 'lmut', 'n': 'append', 'var': 'y', 'v': 4}], False))
    # everything once more on the volatile attribute
    out += [(name + ' [volatile]', 'vdata', init, prog, created) for name, attr, init, prog, created in out if attr == 'data']
    return out

def sweep_programs():
    """every mutating method x depth 0/1/2 through an alias, each followed by the end of the session (systematic, not random)"""
    lcalls = [{'n': 'setitem', 'i': 0, 'v': {'$d': [['z', [1]]]}}, {'n': 'setslice', 'a': 0, 'b': 1, 'k': 'list', 'vs': [[7], 8]}, {'n': 'delitem', 'i': -1},
              {'n': 'delslice', 'a': 0, 'b': 1}, {'n': 'append', 'v': [1]}, {'n': 'extend', 'k': 'list', 'vs': [{'$d': [['z', 1]]}]}, {'n': 'insert', 'i': 0, 'v': 5},
              {'n': 'pop', 'i': None}, {'n': 'remove', 'v': 4}, {'n': 'reverse'}, {'n': 'sort', 'key': 'json', 'rev': False}, {'n': 'clear'},
              {'n': 'iadd', 'k': 'list', 'vs': [3]}, {'n': 'imul', 'c': 2}, {'n': 'setslice_step', 'a': None, 'b': None, 's': 2, 'k': 'list', 'vs': [0]},
              {'n': 'delslice_step', 'a': None, 'b': None, 's': 2}]
    dcalls = [{'n': 'setitem', 'key': 'z', 'v': [1]}, {'n': 'delitem', 'key': 'a'}, {'n': 'update', 'k': 'dict', 'ps': [['z', [1]]], 'kw': [['y', 2]]},
              {'n': 'setdefault', 'key': 'z', 'v': {'$d': []}}, {'n': 'pop', 'key': 'a', 'd': False}, {'n': 'popitem'}, {'n': 'clear'}, {'n': 'ior', 'k': 'dict', 'ps': [['z', 1]]}]
    L = [4, 9]
    D = {'$d': [['a', 1]]}
    out = []
    # the status of the object when the change is made: loaded / modified through another attribute / updated / created / inserted
    PRE = {'loaded': ([], False), 'modified': ([{'op': 'other'}], False), 'updated': ([{'op': 'other'}, {'op': 'flush'}], False),
           'created': ([], True), 'inserted': ([{'op': 'flush'}], True)}
    def variants(attr, plain_attr):
        yield 'loaded', (0, 1, 2)
        if attr in ('data', 'vdata', 'varr', 'arr'):
            for st in ('modified', 'updated', 'created', 'inserted'): yield st, (1,)
    for attr in ('data', 'vdata', 'odata', 'ldata'):
        for st, depths in variants(attr, 'data'):
            pre, created = PRE[st]
            for depth, wrap in ((0, lambda x: x), (1, lambda x: {'$d': [['w', x]]}), (2, lambda x: [0, {'$d': [['w', x]]}])):
                if depth not in depths: continue
                path = [[], ['w'], [1, 'w']][depth]
                for c in lcalls:
                    out.append(('%s[%s] list.%s@%d' % (attr, st, c['n'], depth), attr, wrap(L), pre + [{'op': 'take', 'var': 'x', 'path': path}, dict(c, op='call', t='lmut', var='x')], created))
                for c in dcalls:
                    out.append(('%s[%s] dict.%s@%d' % (attr, st, c['n'], depth), attr, wrap(D), pre + [{'op': 'take', 'var': 'x', 'path': path}, dict(c, op='call', t='dmut', var='x')], created))
    acalls = [{'n': 'setitem', 'i': 0, 'v': 7}, {'n': 'delitem', 'i': -1}, {'n': 'delslice', 'a': 0, 'b': 1}, {'n': 'append', 'v': 1}, {'n': 'extend', 'k': 'tuple', 'vs': [3, 4]},
              {'n': 'insert', 'i': 0, 'v': 5}, {'n': 'pop', 'i': 0}, {'n': 'remove', 'v': 4}, {'n': 'reverse'}, {'n': 'sort', 'key': None, 'rev': True}, {'n': 'clear'},
              {'n': 'iadd', 'k': 'gen', 'vs': [3]}, {'n': 'imul', 'c': 2}, {'n': 'delslice_step', 'a': None, 'b': None, 's': 2}, {'n': 'append', 'v': 'x'},
              {'n': 'setslice', 'a': 0, 'b': 1, 'k': 'list', 'vs': [1]}, {'n': 'iadd', 'k': 'list', 'vs': ['x']}]
    for attr in ('arr', 'varr', 'larr'):
        for st, depths in variants(attr, 'arr'):
            pre, created = PRE[st]
            for c in acalls:
                out.append(('%s[%s] IntArray.%s' % (attr, st, c['n']), attr, [4, 9, 4], pre + [{'op': 'take', 'var': 'x', 'path': []}, dict(c, op='call', t='lmut', var='x')], created))
    for attr in ('sarr', 'vsarr'):
        for c in acalls:
            c2 = dict(c)
            if 'v' in c2: c2['v'] = {7: 'q', 1: 'r', 5: 's', 4: 'a', 'x': 3}[c2['v']]
            if 'vs' in c2: c2['vs'] = [{3: 'c', 4: 'd', 1: 'e', 'x': 2}[v] for v in c2['vs']]
            out.append(('%s StrArray.%s' % (attr, c['n']), attr, ['a', 'b', 'a'], [{'op': 'take', 'var': 'x', 'path': []}, dict(c2, op='call', t='lmut', var='x')], False))
    return out

def read_sweep(ctx, env):
    """every non-mutating name of dir(list)/dir(dict) called on the real wrappers: status, wbits and UPDATE count must not move"""
    E = env.E
    with db_session:
        doc = {'l': [3, [1], {'a': 1}], 'd': {'a': 1, 'b': [2]}}
        e = E(data=doc, vdata=copy.deepcopy(doc), ldata=copy.deepcopy(doc), arr=[3, 1, 2], sarr=['b', 'a'], varr=[3, 1, 2]); commit(); pk = e.id
    for where, battery in (('list', LIST_BATTERY), ('dict', DICT_BATTERY), ('arr', LIST_BATTERY), ('sarr', LIST_BATTERY),
                           ('vlist', LIST_BATTERY), ('vdict', DICT_BATTERY), ('varr', LIST_BATTERY), ('llist', LIST_BATTERY)):
        base = dict if where in ('dict', 'vdict') else list
        live = classify_methods(base, {'a': 1, 'b': 2} if base is dict else [3, 1, 2], battery)
        for name, mut in sorted(live.items()):
            if mut or name in ('__init__', '__setattr__', '__delattr__', '__class__', '__new__', '__init_subclass__', '__subclasshook__'): continue
            with db_session:
                e = E[pk]
                x = {'list': lambda: e.data['l'], 'dict': lambda: e.data['d'], 'arr': lambda: e.arr, 'sarr': lambda: e.sarr,
                     'vlist': lambda: e.vdata['l'], 'vdict': lambda: e.vdata['d'], 'varr': lambda: e.varr, 'llist': lambda: e.ldata['l']}[where]()
                nupd = len(env.updates())
                for args in battery:
                    try:
                        f = getattr(x, name)
                        if not callable(f): break
                        r = f(*args)
                        if hasattr(r, '__next__'): list(r)
                    except Exception:
                        pass
                st = (e._status_, e._wbits_)
            ctx.case(['read-sweep', where, name], kind='oracle:read-sweep')
            if st != ('loaded', 0) or len(env.updates()) != nupd:
                ctx.violation('calling the non-mutating %s.%s on a tracked value marked the object modified' % (where, name), {'where': where, 'method': name},
                              observed=[st, len(env.updates()) - nupd], expected=[('loaded', 0), 0], key='C28:read-marks-modified:%s.%s' % (where, name))

# ---------------------------------------------------------------------------------------------------------------------

KEY_PICKLE = 'C28:unpickled-object-values-not-tracked'

def pickle_witness(ctx, env):
    """an entity that went through pickle: are its Json / array values wrappers again, is an in-place change written?
    (Entity.__reduce__ pickles the values as plain dict / list; unpickle_entity -> _db_set_(unpickling=True))"""
    E = env.E
    with db_session:
        e = E(**copy.deepcopy(env.others)); commit(); pk = e.id
    with db_session:
        blob = pickle.dumps(E[pk])
    with db_session:
        e = pickle.loads(blob)
        e.data['l'].append(5); e.arr.append(9)
        expected = [canon(e.data), canon(e.arr)]
    with db_session:
        got = [canon(E[pk].data), canon(E[pk].arr)]
    ctx.case(['pickle round trip, then changes in place'], kind='oracle:pickle')
    if got != expected:
        ctx.violation('after pickle.loads the Json / array values of an entity are plain dict / list (Entity.__reduce__ pickles the untracked values, '
                      '_db_set_(unpickling=True) must wrap them again): in-place changes made to them are not written at commit',
                      {'program': "blob = pickle.dumps(E[pk]); e = pickle.loads(blob); e.data['l'].append(5); e.arr.append(9); commit"},
                      observed=got, expected=expected, key=KEY_PICKLE)
        ctx.count('pickle round trip: in-place change lost')
    else:
        ctx.count('pickle round trip: in-place change written')

def run_fixed(ctx, env, facts, progs, label):
    batch = []
    for name, attr, init, prog, created in progs:
        res = execute(env, attr, init, prog, created)
        ctx.case([label, name], kind='%s' % label)
        ctx.count('%s:%s' % (label, 'lost' if res.losses else 'persisted'))
        report_result(ctx, env, attr, init, prog, res, facts, created, label='%s %s' % (label, name))
        if res.model_valid and res.model_ops: batch.append((attr, init, prog, res))
        if label == 'witness' and not created and not any(o.get('quiet') for o in prog):
            # the model's verdict for the witness must be the code's verdict
            ctx.extra.setdefault('witnesses', {})[name] = 'lost' if res.losses else 'persisted'
    compare_model(ctx, batch, env, facts)

def run(ctx):
    facts, tables = check_tables(ctx)
    FACTS.clear(); FACTS.update(facts)
    env = Env()
    read_sweep(ctx, env)
    pickle_witness(ctx, env)
    run_fixed(ctx, env, facts, witness_programs(), 'witness')
    run_fixed(ctx, env, facts, sweep_programs(), 'sweep')
    if tables is not None:
        lost = sorted(k for k, v in ctx.extra.get('witnesses', {}).items() if v == 'lost')
        ctx.note('table: covers=%s wrapsAll=%s; witnesses lost on the real code: %s' % (tables['covers'], tables['wrapsAll'], lost))
        if tables['wrapsAll'] and tables['covers'] and lost:
            ctx.divergence('the generated table says everything is wrapped (C28_full_of_wrapsAll applies) but a witness loses a change', lost)
        if not tables['wrapsAll'] and not lost:
            ctx.divergence('the generated table says some stored containers stay unwrapped but no witness loses a change on the real code', facts['iterUnwrapped'])
    rng = ctx.rng
    nprog = ctx.scale(260, 6000)
    batch = []
    for i in range(nprog):
        attr = rng.choice(['data'] * 4 + ['vdata'] * 4 + ['odata', 'ldata', 'arr', 'sarr', 'varr', 'vsarr', 'larr'])
        danger = rng.choice([0.0, 0.0, 0.15, 0.5])
        created = rng.random() < 0.12
        init, prog, res = random_program(env, rng, attr, rng.choice([4, 8, 14, 24]), danger, created)
        ctx.case([attr, created, init, [(o.get('n') or o.get('r') or o['op']) for o in prog]], kind='random:' + attr + (':created' if created else ''))
        for o in prog:
            if o['op'] == 'call': ctx.count('op:%s.%s%s' % (o['t'], o['n'], (':' + str(o['k'])) if 'k' in o else ''))
            elif o['op'] == 'read': ctx.count('read:' + o['r'])
            elif o['op'] != 'take': ctx.count('op:' + o['op'])
        for o in prog:
            for r_ in refs_of(o): ctx.count('ref:%s:%s' % (o['op'], r_[0]))
        if res.shared: ctx.count('program:call on an object that occurs at several paths (shared after *=)')
        if res.partial: ctx.count('program:partial-failure (outside the model)')
        if res.stopped: ctx.count('program:stopped after an exception with a different partial effect than plain Python')
        if not res.model_valid: ctx.count('program:model comparison stopped early')
        report_result(ctx, env, attr, init, prog, res, facts, created)
        if res.model_ops: batch.append((attr, init, prog, res))
        if len(batch) >= 400:
            compare_model(ctx, batch, env, facts); batch = []
    compare_model(ctx, batch, env, facts)
    ctx.extra['updates_seen'] = len(env.updates())
    env.db.disconnect()

def replay(ctx, data):
    inp = data.get('input') or {}
    if 'program' in inp:
        facts = gen_tracked.introspect()
        FACTS.clear(); FACTS.update(facts)
        env = Env()
        res = execute(env, inp['attr'], inp['init'], inp['program'], inp.get('created_in_same_session', False))
        ctx.case(['replay', inp['program']], kind='replay')
        report_result(ctx, env, inp['attr'], inp['init'], inp['program'], res, facts, inp.get('created_in_same_session', False), label='replay')
        if res.model_valid and res.model_ops: compare_model(ctx, [(inp['attr'], inp['init'], inp['program'], res)])
    else:
        run(ctx)
