"""C29 — JSON and array operations in queries match Python semantics.

Tie (model <-> code, through the Lean driver):
  * lits      : the literal list / regex / except-clause / slice flags the theorems are stated against are the ones of the current source
  * path      : `evalJsonPath`/`pgEvalJsonPath`/`parsePath` vs `SQLBuilder.eval_json_path`, `PGSQLBuilder.eval_json_path`, `sqlite._parse_path`
                (random key lists incl. keys needing quoting, plus a malformed-text stream for the scanner)
  * nav       : `traverse`, `py_json_extract` (1- and 2-path), `py_json_unwrap`, `py_json_contains`, `py_json_array_length`,
                `py_json_nonzero`, `JSON_NONZERO`'s NOT IN, `dumps` vs the real helper functions; the JSON1 backend model vs the real json_extract
  * array     : `_index` arithmetic vs the AST the real translator emits (SQLite and, offline, PostgreSQL), `py_array_index/slice`
Property oracle (real Pony on real SQLite, with JSON1 and with `provider.json1_available` forced off): every supported query operation
on random documents / arrays compared with the same operation on the decoded Python value.  The known defects are replayed every run.
"""
import json, math, re, sqlite3
from pony.orm import Database, Required, Optional, Json, IntArray, StrArray, db_session, select
from pony.orm.sqlbuilding import SQLBuilder
from pony.orm.dbproviders import sqlite as sq
import ponyutil

NONEXIST = '$.__non_existent_json_attr_name__'

IDENT_KEYS = ['a', 'b', 'k1', '_x', 'Key', 'aé', 'z']
QUOTED_KEYS = ['a b', 'a.b', 'a[0]', "a'b", '', '1a', '$', 'ü ü', 'é', 'a-b', '[', ']', '.', '-1', '0', ' ', '%s', '?', '$1', ':p']
QUOTE_KEYS = ['q"k', '"', 'a"', '"a']            # a double quote: not expressible in the path text (both back ends)
ESC_KEYS = ['a\\b', 'a\nb', 'x\ty', '\\', 'u\x1ev']          # written escaped by json.dumps: JSON1 (3.40) never matches them
ALL_KEYS = IDENT_KEYS + QUOTED_KEYS + QUOTE_KEYS + ESC_KEYS
INT_POOL = [0, 1, -1, 2, 5, 7, -3, 10 ** 12, 2 ** 62]
FLOAT_POOL = [0.0, -0.0, 1.5, -2.25, 0.1 + 0.2, 1e100, 5e-324]
STR_POOL = ['', 'abc', '5', 'a"b', 'é', 'b', 'a\\nb', 'x y', "it's", 'c\x01d\x1f']


# ----------------------------------------------------------------------------------------------- encoding for the driver

def enc(v):
    if v is None or isinstance(v, (bool, str)): return v
    if isinstance(v, int): return v
    if isinstance(v, float):
        if v == 0.0: return {'fz': math.copysign(1.0, v) < 0}
        return {'fl': json.dumps(v)}
    if isinstance(v, (list, tuple)): return [enc(x) for x in v]
    if isinstance(v, dict): return {'o': [[k, enc(v[k])] for k in sorted(v)]}
    raise TypeError(v)


def dec(t):
    if isinstance(t, list): return [dec(x) for x in t]
    if isinstance(t, dict):
        if 'fz' in t: return -0.0 if t['fz'] else 0.0
        if 'fl' in t: return json.loads(t['fl'])
        return {k: dec(v) for k, v in t['o']}
    return t


def same(a, b):
    """equality of decoded JSON values that does not identify True with 1 or 1 with 1.0"""
    if type(a) is not type(b): return False
    if isinstance(a, list): return len(a) == len(b) and all(same(x, y) for x, y in zip(a, b))
    if isinstance(a, dict): return sorted(a) == sorted(b) and all(same(a[k], b[k]) for k in a)
    if isinstance(a, float) and math.isnan(a): return math.isnan(b)
    return a == b


def word_extra(strings):
    return ''.join(sorted({c for s in strings if isinstance(s, str) for c in s if ord(c) > 127 and re.match(r'\w', c)}))


def walk_strings(v):
    if isinstance(v, str): yield v
    elif isinstance(v, list):
        for x in v: yield from walk_strings(x)
    elif isinstance(v, dict):
        for k, x in v.items():
            yield k
            yield from walk_strings(x)


# ----------------------------------------------------------------------------------------------- generators

def gen_scalar(rng):
    r = rng.random()
    if r < 0.12: return None
    if r < 0.24: return rng.choice([True, False])
    if r < 0.50: return rng.choice(INT_POOL)
    if r < 0.70: return rng.choice(FLOAT_POOL)
    return rng.choice(STR_POOL)


def gen_value(rng, depth):
    if depth <= 0 or rng.random() < 0.35: return gen_scalar(rng)
    r = rng.random()
    if r < 0.15:
        return [rng.choice(STR_POOL + IDENT_KEYS) for _ in range(rng.choice([1, 2, 3]))]
    if r < 0.5:
        return [gen_value(rng, depth - 1) for _ in range(rng.choice([0, 1, 2, 3, 4]))]
    return gen_obj(rng, depth - 1, rng.choice([0, 1, 2, 3, 5]))


def gen_key(rng):
    r = rng.random()
    if r < 0.45: return rng.choice(IDENT_KEYS)
    if r < 0.85: return rng.choice(QUOTED_KEYS)
    if r < 0.93: return rng.choice(QUOTE_KEYS)
    return rng.choice(ESC_KEYS)


def gen_obj(rng, depth, n):
    d = {}
    for _ in range(n):
        d[gen_key(rng)] = gen_value(rng, depth)
    return d


def gen_doc(rng):
    """top level: an object (mostly) or an array; nesting depth <= 4"""
    if rng.random() < 0.15:
        return [gen_value(rng, 3) for _ in range(rng.choice([1, 2, 3, 4]))]
    d = gen_obj(rng, 3, rng.choice([2, 3, 4, 6]))
    if not d: d['a'] = gen_value(rng, 3)
    return d


def gen_path(rng, doc, want_hit=True):
    """a path into `doc`: mostly existing keys / indexes (negative ones too); sometimes a miss, a wrong kind, or through a scalar"""
    path = []; v = doc
    for _ in range(rng.choice([1, 1, 2, 2, 3, 4])):
        miss = rng.random() < (0.06 if want_hit else 0.3)
        if isinstance(v, dict):
            if v and not miss: k = rng.choice(sorted(v))
            else: k = rng.choice([rng.choice(ALL_KEYS), 0, 'nokey'])
        elif isinstance(v, list):
            if v and not miss: k = rng.randrange(-len(v), len(v))
            else: k = rng.choice([len(v), -len(v) - 1, 'a', 99])
        else:
            if rng.random() < 0.8: break
            k = rng.choice([0, 'a', -1])
        path.append(k)
        try: v = v[k] if isinstance(v, (list, dict)) else None
        except (KeyError, IndexError, TypeError): v = None
    if not path: path.append(rng.choice(sorted(doc)) if isinstance(doc, dict) and doc else 0)
    return path


def py_navigate(doc, path):
    """('ok', value) or ('error', name); subscripting anything but a list/dict counts as TypeError (see Model: pyNavigate)"""
    v = doc
    for k in path:
        if not isinstance(v, (list, dict)): return ('error', 'TypeError')
        try: v = v[k]
        except KeyError: return ('error', 'KeyError')
        except IndexError: return ('error', 'IndexError')
        except TypeError: return ('error', 'TypeError')
    return ('ok', v)


# ----------------------------------------------------------------------------------------------- tie: flags and literal lists

def lits_tie(ctx):
    out = ctx.driver('C29', [{'op': 'lits'}])[0]
    real = re.findall(r"'((?:[^']|'')*)'", sq.SQLiteBuilder.JSON_NONZERO(lambda e: 'E', None)[1].split('NOT IN', 1)[1])
    ctx.case(['lits', real], kind='tie:lits')
    if out.get('sqlite') != real:
        ctx.divergence('JSON_NONZERO literal list read by gen_c29.py differs from the one the real builder emits', real, model=out.get('sqlite'), impl=real)
    try:
        sq._traverse([1], ('a',)); cte = True
    except TypeError:
        cte = False
    if out.get('cte') != cte:
        ctx.divergence('_traverse except clause: generated flag differs from the behaviour', 'cte', model=out.get('cte'), impl=cte)
    clamp = sq.py_array_slice('[1,2,3]', -2, 2) == '[1,2]'
    if out.get('clamp') != clamp:
        ctx.divergence('py_array_slice clamp flag differs from the behaviour', 'clamp', model=out.get('clamp'), impl=clamp)
    ctx.extra['source_flags'] = {'nonzero_literals': real, 'traverse_catches_TypeError': cte, 'array_slice_clamps_negative': clamp}
    return real, cte, clamp


# ----------------------------------------------------------------------------------------------- tie: path text

def real_parse(text):
    sq.path_cache.clear()
    r = sq._parse_path(text)
    return None if r is None else list(r)


def j1_builder():
    b = object.__new__(sq.SQLiteBuilder); b.json1_available = True
    return b


def path_tie(ctx):
    rng = ctx.rng
    ponyutil.add_stubs()
    from pony.orm.dbproviders.postgres import PGSQLBuilder
    reqs, reals, inputs = [], [], []
    n = ctx.scale(600, 6000)
    singles = [[k] for k in ALL_KEYS] + [[i] for i in (0, 1, -1, 10, -10, 123456789012345678901234567890, -7)]
    for i in range(n):
        if i < len(singles): keys = singles[i]
        else:
            keys = []
            for _ in range(rng.choice([1, 2, 2, 3, 4, 6])):
                keys.append(rng.choice(INT_POOL + [-2, 3, 12, 100, -100]) if rng.random() < 0.35 else gen_key(rng))
        reqs.append({'op': 'path', 'keys': keys, 'word': word_extra(keys)})
        path = SQLBuilder.eval_json_path(keys)
        j1path = j1_builder().eval_json_path(keys)          # what the SQLite builder writes when JSON1 is available
        reals.append({'path': path, 'pg': PGSQLBuilder.eval_json_path(None, keys), 'parsed': real_parse(path), 'j1path': j1path, 'j1parsed': real_parse(j1path)})
        inputs.append(keys)
    outs = ctx.driver('C29', reqs)
    for keys, real, out in zip(inputs, reals, outs):
        safe = not any(isinstance(k, str) and '"' in k for k in keys)
        ctx.case(['path', keys], kind='tie:path:' + ('safe' if safe else 'quote'))
        for k in keys:
            if isinstance(k, str): ctx.count('pathkey:' + ('ident' if re.match(r'^[A-Za-z_]\w*\Z', k) else 'quote' if '"' in k else 'quoted'))
            else: ctx.count('pathkey:' + ('negidx' if k < 0 else 'idx'))
        if out != real:
            ctx.divergence('path text / parsed path: model and real code disagree', keys, model=out, impl=real)
        elif safe and real['parsed'] != keys:
            ctx.divergence('round trip parse(eval(keys)) = keys fails for keys without a double quote (theorem C29_path_roundtrip does not describe the code)', keys,
                           model=out.get('parsed'), impl=real['parsed'])
    # malformed texts for the scanner
    alphabet = ['$', '.', '[', ']', '"', '-', '0', '7', 'a', '_', 'é', '\\', ' ', 'Z', '*']
    reqs, reals, inputs = [], [], []
    for i in range(ctx.scale(1500, 15000)):
        t = ''.join(rng.choice(alphabet) for _ in range(rng.choice([0, 1, 2, 3, 4, 5, 6, 8, 12])))
        if rng.random() < 0.8: t = '$' + t
        if rng.random() < 0.3: t = SQLBuilder.eval_json_path([gen_key(rng), rng.choice([0, -1, 3])]) + t
        reqs.append({'op': 'parse', 'text': t, 'word': word_extra([t])}); reals.append(real_parse(t)); inputs.append(t)
    outs = ctx.driver('C29', reqs)
    for t, real, out in zip(inputs, reals, outs):
        ctx.case(['parse', t], kind='tie:parse:' + ('none' if real is None else 'keys'))
        if out.get('parsed', 'missing') != real:
            ctx.divergence('_parse_path: scanner model and real regex loop disagree', t, model=out, impl=real)


# ----------------------------------------------------------------------------------------------- tie: several paths in one statement

def composite_tie(ctx):
    """`build_json_path` driven on a bare real builder for the paths of one statement (parameters + constants): the key of every composite
    parameter, which parameter object is reused, and the text each one evaluates to — against `paramKey` / `makeComposite` / `evalComposite`"""
    rng = ctx.rng
    reqs, reals, inputs = [], [], []
    for i in range(ctx.scale(300, 3000)):
        b = object.__new__(sq.SQLiteBuilder)
        b.keys = {}; b.paramstyle = 'qmark'; b.indent = 0; b.json1_available = True
        nparams = rng.choice([1, 1, 2, 3])
        values = {('v%d' % j,): rng.choice(['x', 'a b', 'k1', 0, 1, 2]) for j in range(nparams)}
        base = []
        for _ in range(rng.choice([1, 2, 3])):
            base.append(('p', rng.randrange(nparams)) if rng.random() < 0.6 else ('c', rng.choice([0, 1, 2, '0', '1', 'x', 'a b', 'k1', -1])))
        if not any(t == 'p' for t, _ in base): base[0] = ('p', 0)
        paths = [base]
        for _ in range(rng.choice([1, 1, 2, 3])):
            q = list(rng.choice(paths))
            r = rng.random()
            pos = rng.randrange(len(q))
            if r < 0.5 and q[pos][0] == 'c': q[pos] = ('c', rng.choice([0, 1, 2, '0', '1', 'x', 'k1']))        # differs in one constant only
            elif r < 0.7: q[pos] = ('p', rng.randrange(nparams))
            elif r < 0.85: q.append(('c', rng.choice([0, 1, 'x'])))
            paths.append(q)                                                                          # else: the same path again
        real_params = []
        asts = [[['PARAM', (('v%d' % v,), None, None), None] if t == 'p' else ['VALUE', v] for t, v in q] for q in paths]
        objs = [b.build_json_path(a)[0] for a in asts]
        first = {}
        for k, o in enumerate(objs):
            first.setdefault(id(o), k)
            key = [['p', int(e[0][0][1:])] if isinstance(e, tuple) else ['i', e] if isinstance(e, int) else ['s', e] if isinstance(e, str) else ['none'] for e in o.paramkey]
            real_params.append({'key': key, 'shared_with': first[id(o)], 'text': o.eval(values)})
        reqs.append({'op': 'paramkey', 'paths': [[[t, v] for t, v in q] for q in paths]})
        reals.append(real_params); inputs.append({'paths': paths, 'values': {k[0]: v for k, v in values.items()}})
    outs = ctx.driver('C29', reqs)
    for inp, real, out in zip(inputs, reals, outs):
        ctx.case(['composite', inp['paths']], kind='tie:composite:%d-paths' % len(inp['paths']))
        if 'driver_error' in out: ctx.divergence('driver error', inp, model=out, impl=None); continue
        for k, (r, m) in enumerate(zip(real, out['params'])):
            own = j1_builder().eval_json_path([inp['values']['v%d' % v] if t == 'p' else v for t, v in inp['paths'][k]])     # the function the composite parameter evaluates
            model_items = [[t, v] for t, v in m['items']]
            model_text = j1_builder().eval_json_path([inp['values']['v%d' % v] if t == 'p' else v for t, v in model_items])
            if r['key'] != m['key']:
                ctx.divergence('composite parameter key: model paramKey and the real paramkey disagree', [inp, k], model=m['key'], impl=r['key'])
            elif r['text'] != model_text:
                ctx.divergence('composite parameter: the parameter reused by the real builder evaluates to another path than in the model', [inp, k], model=model_text, impl=r['text'])
            if r['text'] != own:
                ctx.count('composite:path-bound-to-another-text')     # the property-level consequence is searched by the multi-path oracle


# ----------------------------------------------------------------------------------------------- tie: navigation helpers

def tagged_or_error(f):
    """the value, or the exception as a verdict (anything but the modelled TypeError shows up as a divergence with the input, never as an engine crash)"""
    try: return {'ok': enc(f())}
    except TypeError: return {'error': 'TypeError'}
    except Exception as e: return {'error': 'unexpected ' + type(e).__name__}


class Json1:
    """the real JSON1 library, asked the way JSON_QUERY asks it"""
    def __init__(self):
        self.con = sqlite3.connect(':memory:')
    def query(self, text, path):
        try:
            r = self.con.execute('select json_extract(?, ?, ?)', (text, NONEXIST, path)).fetchone()[0]
        except sqlite3.OperationalError as e:
            return {'error': 'pathError'}
        l = json.loads(r)
        return {'ok': l[1]} if l[0] is None else {'ok': l[1], 'first': l[0]}


def nav_tie(ctx, lits):
    rng = ctx.rng
    j1 = Json1()
    reqs, reals, inputs = [], [], []
    for i in range(ctx.scale(700, 8000)):
        doc = gen_doc(rng)
        path = gen_path(rng, doc, want_hit=rng.random() < 0.8)
        key = rng.choice(STR_POOL + IDENT_KEYS + QUOTED_KEYS[:4])
        reached = py_navigate(doc, path)
        if reached[0] == 'ok' and isinstance(reached[1], (list, dict)) and rng.random() < 0.6:
            cands = sorted(x for x in reached[1] if isinstance(x, str))
            if cands: key = rng.choice(cands)
        text = sq.dumps(doc)
        ptext = SQLBuilder.eval_json_path(path)
        j1text = j1_builder().eval_json_path(path)
        sq.path_cache.clear()
        real = {'dumps': text}
        real['traverse'] = tagged_or_error(lambda: sq._traverse(doc, tuple(path)))
        nav = py_navigate(doc, path)
        real['python'] = {'ok': enc(nav[1])} if nav[0] == 'ok' else {'error': nav[1]}
        try:
            q = sq.py_json_unwrap(sq.py_json_extract(text, NONEXIST, ptext)); real['query'] = {'ok': q}
        except TypeError:
            q = None; real['query'] = {'error': 'TypeError'}
        except Exception as e:
            q = None; real['query'] = {'error': 'unexpected ' + type(e).__name__}
        real['extract1'] = tagged_or_error(lambda: sq.py_json_extract(text, ptext))
        real['nonzero'] = (q not in lits) if q is not None else None
        real['udfNonzero'] = tagged_or_error(lambda: sq.py_json_nonzero(text, ptext))
        real['contains'] = tagged_or_error(lambda: sq.py_json_contains(text, ptext, key))
        tv = real['traverse']
        real['length'] = sq.py_json_array_length(json.dumps(dec(tv['ok']))) if 'ok' in tv else None
        real['truthy'] = bool(dec(tv['ok'])) if 'ok' in tv else None
        v = dec(tv['ok']) if 'ok' in tv else None
        real['pyIn'] = (key in v) if 'ok' in tv and isinstance(v, (list, dict)) else None
        if real['pyIn'] is not None: ctx.count('nav-contains:%s:%s' % (type(v).__name__, real['pyIn']))
        real['topOk'] = True if 'ok' in tv else None
        r1 = j1.query(text, j1text)
        real['json1'] = {'ok': enc(r1['ok'])} if 'ok' in r1 else r1
        reqs.append({'op': 'nav', 'doc': enc(doc), 'keys': path, 'key': key, 'lits': lits, 'word': word_extra(list(walk_strings(doc)) + path)})
        reals.append(real); inputs.append({'doc': doc, 'path': path, 'key': key})
    outs = ctx.driver('C29', reqs)
    for inp, real, out in zip(inputs, reals, outs):
        kind = 'hit' if 'ok' in real['python'] else real['python']['error']
        ctx.case(['nav', inp['doc'], inp['path'], inp['key']], kind='tie:nav:' + kind)
        if 'driver_error' in out:
            ctx.divergence('driver error', inp, model=out, impl=None); continue
        # JSON1 prints numbers its own way (1e100 -> 1.0e+100); compare by value
        m1, r1 = out.pop('json1'), real.pop('json1')
        if ('ok' in m1) != ('ok' in r1) or ('ok' in m1 and not same(dec(m1['ok']), dec(r1['ok']))):
            ctx.divergence('JSON1 backend model and the real json_extract disagree', inp, model=m1, impl=r1)
        if out != real:
            diff = {k: (out.get(k), real.get(k)) for k in set(out) | set(real) if out.get(k) != real.get(k)}
            ctx.divergence('navigation helpers: model and real functions disagree on ' + ','.join(sorted(diff)), inp,
                           model={k: d[0] for k, d in diff.items()}, impl={k: d[1] for k, d in diff.items()})
    # py_json_unwrap on arbitrary texts
    texts = [None, '', '[null,', '[null,]', '[null,1]', '[null,null]', '[1,2]', '[null, 1]', 'null', '[null,"a"]', ' [null,1]', '[null,[1,2]]', '[null,{"a":1}]']
    outs = ctx.driver('C29', [{'op': 'unwrap', 'text': t} for t in texts])
    for t, out in zip(texts, outs):
        ctx.case(['unwrap', t], kind='tie:unwrap')
        if out.get('ok') != sq.py_json_unwrap(t):
            ctx.divergence('py_json_unwrap: model and real function disagree', t, model=out, impl=sq.py_json_unwrap(t))


# ----------------------------------------------------------------------------------------------- tie: arrays

def eval_index_ast(ast, length, col):
    op = ast[0]
    if op == 'VALUE': return ast[1]
    if op == 'ARRAY_LENGTH': return length
    if op == 'COLUMN' or op == 'PARAM': return col
    if op == 'SUB': return eval_index_ast(ast[1], length, col) - eval_index_ast(ast[2], length, col)
    if op == 'ADD': return eval_index_ast(ast[1], length, col) + eval_index_ast(ast[2], length, col)
    if op == 'NEG': return -eval_index_ast(ast[1], length, col)
    if op == 'CASE':
        assert ast[1] is None
        import operator
        cmp = {'GE': operator.ge, 'GT': operator.gt, 'LE': operator.le, 'LT': operator.lt, 'EQ': operator.eq, 'NE': operator.ne}
        for cond, then in ast[2]:
            if cond[0] not in cmp: raise ValueError('unexpected condition %r in an array index expression' % (cond[0],))
            if cmp[cond[0]](eval_index_ast(cond[1], length, col), eval_index_ast(cond[2], length, col)): return eval_index_ast(then, length, col)
        return eval_index_ast(ast[3], length, col)
    raise ValueError('unexpected node %r in an array index expression' % (op,))


def offline_db(provider):
    from pony.orm.tests.testutils import TestDatabase
    db = TestDatabase()
    class D(db.Entity):
        ia = Optional(IntArray)
        k = Optional(int)
    db.bind(provider, ':memory:')
    db.generate_mapping()
    return db, D


def array_tie(ctx, clamp):
    rng = ctx.rng
    ponyutil.add_stubs()
    vals = [0, 1, 2, 3, 5, -1, -2, -3, -5, 7, -7]
    lens = [0, 1, 3, 4]
    cases = []
    for prov, from_one in (('sqlite', False), ('postgres', True)):
        try:
            db, D = offline_db(prov)
        except Exception as e:
            ctx.note('offline provider %s unavailable (%s): _index tie for it skipped' % (prov, type(e).__name__)); continue
        with db_session:
            for v in vals:
                for form in ('const', 'expr'):
                    src_i = repr(v) if form == 'const' else 'x.k'
                    ti = make_query(D, 'x.ia[%s] for x in D' % src_i, {}, gen=True)._translator.expr_columns[0]
                    ts = make_query(D, 'x.ia[%s:%s] for x in D' % (src_i, src_i), {}, gen=True)._translator.expr_columns[0]
                    ctx.count('index-ast:%s:%s' % (form, ti[2][0]))
                    assert ti[0] == 'ARRAY_INDEX' and ts[0] == 'ARRAY_SLICE', (ti, ts)
                    for n in lens:
                        try:
                            cases.append((prov, from_one, form, v, n, eval_index_ast(ti[2], n, v), eval_index_ast(ts[2], n, v), eval_index_ast(ts[3], n, v)))
                        except (ValueError, AssertionError, IndexError, TypeError) as e:
                            ctx.divergence('ArrayMixin._index emits an expression outside the modelled shape: %s' % e, [prov, form, v, n], model=None, impl=repr(ti[2])[:300])
    outs = ctx.driver('C29', [{'op': 'index', 'value': c[3], 'len': c[4]} for c in cases])
    for c, out in zip(cases, outs):
        prov, from_one, form, v, n, idx, start, stop = c
        ctx.case(['index', prov, form, v, n], kind='tie:index:%s:%s' % (prov, form))
        f = 't' if from_one else 'f'
        model = (out[f + 't'][form], out[f + 't'][form], out[f + 'f'][form])
        if model != (idx, start, stop):
            ctx.divergence('ArrayMixin._index: model and the AST of the real translator disagree', list(c[:5]), model=model, impl=(idx, start, stop))
    # UDFs and the Python reference
    reqs, reals, inputs = [], [], []
    grid = [None, 0, 1, 2, 3, 4, 6, -1, -2, -3, -4, -6]
    for i in range(ctx.scale(500, 5000)):
        xs = [rng.choice([0, 1, 5, -2, 9]) for _ in range(rng.choice([0, 1, 2, 3, 3, 4, 5]))]
        ix = rng.choice(grid[1:]); a = rng.choice(grid); b = rng.choice(grid)
        text = json.dumps(xs)
        def pyidx():
            try: return xs[ix]
            except IndexError: return None
        real = {'udfIndex': sq.py_array_index(text, ix), 'pyIndex': pyidx(), 'udfSlice': json.loads(sq.py_array_slice(text, a, b)), 'pySlice': xs[a:b]}
        reqs.append({'op': 'array', 'xs': xs, 'i': ix, 'a': a, 'b': b}); reals.append(real); inputs.append([xs, ix, a, b])
    outs = ctx.driver('C29', reqs)
    for inp, real, out in zip(inputs, reals, outs):
        ctx.case(['array-udf'] + inp, kind='tie:array-udf')
        got = {k: out.get(k) for k in real}
        if got != real:
            ctx.divergence('py_array_index / py_array_slice / Python reference: model disagrees', inp, model=got, impl=real)
        # C29_pg_slice / C29_pg_index (proved on the model of PostgreSQL subscripts) re-evaluated through the driver on the grid
        if out.get('pgSlice') != real['pySlice'] or out.get('pgIndex') != real['pyIndex']:
            ctx.count('pg-model-differs-from-python')
            ctx.note('PostgreSQL backend MODEL: emitted subscript differs from Python for %r (suspected, unconfirmable offline)' % (inp,))
        else: ctx.count('pg-model-agrees-with-python')
    return outs


# ----------------------------------------------------------------------------------------------- property oracle on real SQLite

def make_db(json1):
    db = Database()
    class D(db.Entity):
        data = Optional(Json)
        ia = Optional(IntArray)
        sa = Optional(StrArray)
        k = Optional(int)
    db.bind('sqlite', ':memory:')
    db.generate_mapping(create_tables=True)
    if not json1:
        # the flag SQLiteProvider.inspect_connection sets from check_json1(); SQLiteBuilder copies it for every statement
        db.provider.json1_available = False
    return db, D


def expr_src(path, as_params):
    if as_params: return 'x.data' + ''.join('[p%d]' % i for i in range(len(path))), {'p%d' % i: k for i, k in enumerate(path)}
    return 'x.data' + ''.join('[%r]' % (k,) for k in path), {}


def make_query(D, src, names, gen=False):
    """`gen`: the query is a real generator expression (compiled by CPython, decompiled by Pony), so that negative literals are constants;
    otherwise a string query (where `-1` is an outer expression, i.e. a parameter)"""
    env = dict(names); env['D'] = D
    if gen:
        env['select'] = select
        return eval('select(%s)' % src, env)
    return select(src, env)


def run_query(D, src, names, gen=False):
    try:
        return ('ok', make_query(D, src, names, gen)[:])
    except Exception as e:
        return ('raised', type(e).__name__)


def path_class(path, doc, json1, got):
    """the recorded defect classes a path access can fall into, judged by the symptom as well (None: the access must work)"""
    names = [k for k in path if isinstance(k, str)]
    if any('"' in k for k in names): return 'json-key-double-quote'
    if json1:
        if any(isinstance(k, int) and k < 0 for k in path) and got == ('raised', 'OperationalError'): return 'json1-negative-index'
        if any(c == '\\' or ord(c) < 32 for k in names for c in k): return 'json1-key-escaped-char'
    else:
        if isinstance(doc, list) and got == ('raised', 'TypeError'): return 'fallback-toplevel-array'
    return None


WHAT = {
    'json-key-double-quote': "path access through a key containing a double quote returns None instead of the value (the path text .\"q\\\"k\" is read back neither by JSON1 nor by the fallback parser)",
    'json1-negative-index': "negative list index in a JSON path raises OperationalError with JSON1 (json_extract has no [-1]); the Python fallback returns the item",
    'json1-key-escaped-char': "path access through a key containing a backslash or control character returns None with JSON1 (labels are compared in their escaped form)",
    'fallback-toplevel-array': "without JSON1 any path access into a document whose top level is an array raises TypeError (py_json_extract traverses '$.__non_existent_json_attr_name__' first; _traverse does not catch TypeError)",
    'json-truthy-float-zero': "a JSON value 0.0 (or -0.0) is truthy in SQL: JSON_NONZERO's literal list has '0' but not '0.0'",
    'json-cmp-str-vs-int': "x.data['s'] == 0 is true for s = 'abc' (CAST(text AS integer) = 0); Python: 'abc' == 0 is False",
    'json-cmp-int-vs-str': "x.data['i'] == '5' is true for i = 5 (CAST(5 AS text) = '5'); Python: 5 == '5' is False",
    'json-cmp-float-vs-int': "x.data['f'] == 1 is true for f = 1.5 (CAST(1.5 AS integer) = 1); Python: 1.5 == 1 is False",
    'json-cmp-null-ne': "x.data['n'] != 4 is not true for n = null (SQL NULL <> 4 is unknown); Python: None != 4 is True",
    'json-len-object': "len(x.data['d']) is 0 for an object (json_array_length); Python: number of keys",
    'json-len-string': "len(x.data['s']) is 0 for a string (json_array_length); Python: number of characters",
    'json-in-substring': "'a' in x.data['s'] is false for s = 'abc' (py_json_contains handles lists and dicts only); Python: substring test, True",
    'array-slice-negative-overflow': "x.arr[a:b] with a negative bound below -len(arr): SQLite receives len+bound (still negative) and py_array_slice counts it from the end again; [1,2,3][-5:2] gives [2] instead of [1,2]",
}


class Oracle:
    def __init__(self, ctx, lits):
        self.ctx = ctx; self.lits = lits
        self.dbs = {}
    def db(self, json1):
        if json1 not in self.dbs: self.dbs[json1] = make_db(json1)
        return self.dbs[json1]
    def store(self, json1, **kw):
        db, D = self.db(json1)
        with db_session:
            o = D(**kw); o.flush(); return o.id
    def violation(self, cls, what, inp, observed, expected):
        """`cls`: recorded defect class (its key) or None (an unclassified failure: keyed by its own input)"""
        self.ctx.count('oracle-fail:' + (cls or 'UNCLASSIFIED'))
        if cls: self.ctx.violation(WHAT[cls], inp, observed=observed, expected=expected, key=cls)
        else: self.ctx.violation(what, inp, observed=observed, expected=expected)

    # ---- one JSON operation on one stored document, on one back end
    def json_op(self, json1, rid, doc, path, op, arg=None, as_params=False, model=None, forced_class=None, gen=True):
        ctx = self.ctx
        db, D = self.db(json1)
        E, names = expr_src(path, as_params)
        names['rid'] = rid
        nav = py_navigate(doc, path)
        v = nav[1] if nav[0] == 'ok' else None
        if op == 'get':
            src = '%s for x in D if x.id == rid' % E
            expected = ('value', v) if nav[0] == 'ok' else ('n/a', nav[1])
        elif op in ('truthy', 'not'):
            src = 'x.id for x in D if x.id == rid and %s(%s)' % ('not ' if op == 'not' else '', E)
            expected = ('bool', bool(v) != (op == 'not')) if nav[0] == 'ok' else ('n/a', nav[1])
        elif op == 'cmp':
            cop, c, c_param = arg
            if c_param: names['c'] = c
            src = 'x.id for x in D if x.id == rid and %s %s %s' % (E, cop, 'c' if c_param else repr(c))
            expected = ('n/a', nav[1])
            if nav[0] == 'ok':
                try: expected = ('bool', bool(eval('v %s c' % cop, {'v': v, 'c': c})))
                except TypeError: expected = ('n/a', 'TypeError')
        elif op == 'in':
            key, k_param, neg = arg
            if k_param: names['kk'] = key
            src = 'x.id for x in D if x.id == rid and %s %s %s' % ('kk' if k_param else repr(key), 'not in' if neg else 'in', E)
            expected = ('n/a', nav[1])
            if nav[0] == 'ok':
                try: expected = ('bool', (key in v) != neg)
                except TypeError: expected = ('n/a', 'TypeError')
        elif op == 'len':
            src = 'len(%s) for x in D if x.id == rid' % E
            expected = ('n/a', nav[1])
            if nav[0] == 'ok':
                try: expected = ('value', len(v))
                except TypeError: expected = ('n/a', 'TypeError')
        else: raise ValueError(op)
        with db_session:
            res = run_query(D, src, names, gen)
        if res[0] == 'ok':
            rows = res[1]
            if op in ('get', 'len'): got = ('value', rows[0]) if len(rows) == 1 else ('rows', len(rows))
            else: got = ('bool', bool(rows))
        else: got = res
        inp = {'json1': json1, 'doc': doc, 'path': path, 'op': op, 'arg': arg, 'params': as_params, 'gen': gen, 'query': ('select(%s)' if gen else 'select(%r)') % src}
        ctx.case(['json', json1, op, doc, path, arg, as_params, gen], kind='oracle:json:%s:%s:%s' % ('json1' if json1 else 'fallback', op, expected[0] if expected[0] == 'n/a' else 'defined'))
        ok = True
        if expected[0] == 'n/a':
            ctx.count('oracle-na:' + str(expected[1]))
        else:
            ok = got[0] == expected[0] and same(got[1], expected[1])
            if not ok:
                cls = forced_class or path_class(path, doc, json1, got) or self.op_class(op, v, arg)
                self.violation(cls, 'JSON %s in a query differs from the operation on the decoded Python value' % op, inp, got, expected)
        return got, expected, ok

    # ---- several JSON path expressions in ONE query (projection and conditions), parameter and constant segments mixed
    def json_multi(self, json1, rid, doc, paths, flags, mode, gen):
        """paths: list of clean hit paths; flags[i][j]: segment j of path i is passed as an external variable (one variable per distinct value)"""
        ctx = self.ctx
        db, D = self.db(json1)
        names = {'rid': rid}; var = {}
        def seg(v, as_param):
            if not as_param: return repr(v)
            k = (type(v).__name__, v)
            if k not in var: var[k] = 'q%d' % len(var); names[var[k]] = v
            return var[k]
        exprs = ['x.data' + ''.join('[%s]' % seg(k, f) for k, f in zip(p, fl)) for p, fl in zip(paths, flags)]
        vals = [py_navigate(doc, p)[1] for p in paths]
        if mode == 'project':
            src = '(%s) for x in D if x.id == rid' % ', '.join(exprs)
            expected = ('value', tuple(vals))
        else:
            # conditions: every path compared with a constant of its own type; `want` says whether all of them hold
            consts, want = mode[1], mode[2]
            src = 'x.id for x in D if x.id == rid and ' + ' and '.join('%s == %r' % (e, c) for e, c in zip(exprs, consts))
            expected = ('bool', want)
        with db_session:
            res = run_query(D, src, names, gen)
        if res[0] == 'ok':
            rows = res[1]
            if mode == 'project': got = ('value', tuple(rows[0])) if len(rows) == 1 else ('rows', len(rows))
            else: got = ('bool', bool(rows))
        else: got = res
        inp = {'json1': json1, 'doc': doc, 'paths': paths, 'param_segments': flags, 'variables': {v: k[1] for k, v in var.items()}, 'gen': gen,
               'query': ('select(%s)' if gen else 'select(%r)') % src}
        ctx.case(['json-multi', json1, doc, paths, flags, mode if mode == 'project' else list(mode), gen],
                 kind='oracle:json-multi:%s:%s:%d-paths' % ('json1' if json1 else 'fallback', mode if mode == 'project' else 'conditions', len(paths)))
        ok = got[0] == expected[0] and (same(list(got[1]), list(expected[1])) if mode == 'project' else got[1] == expected[1])
        if not ok:
            self.violation(None, 'several JSON path expressions in one query: the result differs from the same expressions on the decoded Python value', inp,
                           list(got[1]) if isinstance(got[1], tuple) else got, list(expected[1]) if isinstance(expected[1], tuple) else expected)
        return ok

    def op_class(self, op, v, arg):
        if op in ('truthy', 'not') and isinstance(v, float) and v == 0.0: return 'json-truthy-float-zero'
        if op == 'len' and isinstance(v, dict): return 'json-len-object'
        if op == 'len' and isinstance(v, str): return 'json-len-string'
        if op == 'in' and isinstance(v, str): return 'json-in-substring'
        if op == 'cmp':
            cop, c, _ = arg
            if isinstance(v, str) and type(c) is int: return 'json-cmp-str-vs-int'
            if type(v) is int and isinstance(c, str): return 'json-cmp-int-vs-str'
            if isinstance(v, float) and type(c) is int: return 'json-cmp-float-vs-int'
            if v is None and c is not None and cop == '!=': return 'json-cmp-null-ne'
        return None

    # ---- array operations
    def array_op(self, rid, attr, xs, op, arg, k=None, forced_class=None, gen=True):
        ctx = self.ctx
        db, D = self.db(True)
        names = {'rid': rid}
        expected = None
        if op == 'index':
            form, i = arg
            src_i = {'const': repr(i), 'param': 'n', 'attr': 'x.k'}[form]; names['n'] = i
            src = 'x.%s[%s] for x in D if x.id == rid' % (attr, src_i)
            try: expected = ('value', xs[i])
            except IndexError: expected = ('n/a', 'IndexError')
        elif op == 'slice':
            (fa, a), (fb, b) = arg
            def part(f, v, nm):
                if v is None: return ''
                return {'const': repr(v), 'param': nm, 'attr': 'x.k'}[f]
            names['n'] = a; names['m'] = b
            src = 'x.%s[%s:%s] for x in D if x.id == rid' % (attr, part(fa, a, 'n'), part(fb, b, 'm'))
            expected = ('value', xs[a:b])
        elif op == 'contains':
            item, form, neg = arg
            names['it'] = item
            src = 'x.id for x in D if x.id == rid and %s %s x.%s' % (repr(item) if form == 'const' else 'it', 'not in' if neg else 'in', attr)
            expected = ('bool', (item in xs) != neg)
        elif op == 'subset':
            items, form, neg = arg
            names['its'] = items
            src = 'x.id for x in D if x.id == rid and %s %s x.%s' % (repr(items) if form == 'const' else 'its', 'not in' if neg else 'in', attr)
            expected = ('bool', set(items).issubset(set(xs)) != neg)       # Pony documents `[..] in array` as the subset test
        elif op == 'len':
            src = 'len(x.%s) for x in D if x.id == rid' % attr; expected = ('value', len(xs))
        elif op in ('truthy', 'not'):
            src = 'x.id for x in D if x.id == rid and %sx.%s' % ('not ' if op == 'not' else '', attr); expected = ('bool', bool(xs) != (op == 'not'))
        with db_session:
            res = run_query(D, src, names, gen)
        if res[0] == 'ok':
            rows = res[1]
            if op in ('index', 'slice', 'len'): got = ('value', list(rows[0]) if isinstance(rows[0], list) else rows[0]) if len(rows) == 1 else ('rows', len(rows))
            else: got = ('bool', bool(rows))
        else: got = res
        inp = {'array': xs, 'attr': attr, 'op': op, 'arg': arg, 'k': k, 'gen': gen, 'query': ('select(%s)' if gen else 'select(%r)') % src}
        ctx.case(['array', attr, op, xs, arg, k, gen], kind='oracle:array:%s:%s' % (op, expected[0] if expected[0] == 'n/a' else 'defined'))
        ok = True
        if expected[0] != 'n/a':
            ok = got[0] == expected[0] and same(got[1], expected[1])
            if not ok:
                cls = forced_class
                if cls is None and op == 'slice':
                    (fa, a), (fb, b) = arg
                    if (a is not None and a < -len(xs)) or (b is not None and b < -len(xs)): cls = 'array-slice-negative-overflow'
                self.violation(cls, 'array %s in a query differs from the operation on the Python list' % op, inp, got, expected)
        else: ctx.count('oracle-na:array-IndexError')
        return got, expected, ok


WITNESSES = [
    # (class, json1 settings, document, path, op, arg)
    ('json-truthy-float-zero', (True, False), {'z': 0.0}, ['z'], 'truthy', None),
    ('json-key-double-quote', (True, False), {'q"k': 5}, ['q"k'], 'get', None),
    ('json1-negative-index', (True,), {'neg': [1, 2, 3]}, ['neg', -1], 'get', None),
    ('json1-key-escaped-char', (True,), {'a\\b': 3}, ['a\\b'], 'get', None),
    ('fallback-toplevel-array', (False,), [1, 2, 3], [0], 'get', None),
    ('json-cmp-str-vs-int', (True, False), {'s': 'abc'}, ['s'], 'cmp', ('==', 0, False)),
    ('json-cmp-int-vs-str', (True, False), {'i': 5}, ['i'], 'cmp', ('==', '5', False)),
    ('json-cmp-float-vs-int', (True, False), {'f': 1.5}, ['f'], 'cmp', ('==', 1, False)),
    ('json-cmp-null-ne', (True, False), {'n': None}, ['n'], 'cmp', ('!=', 4, False)),
    ('json-len-object', (True, False), {'d': {'a': 1}}, ['d'], 'len', None),
    ('json-len-string', (True, False), {'s': 'abc'}, ['s'], 'len', None),
    ('json-in-substring', (True, False), {'s': 'abc'}, ['s'], 'in', ('a', False, False)),
]


def witnesses(ctx, orc):
    """the defects already shown on the unchanged tree, replayed on the real code on every run"""
    state = {}
    for cls, settings, doc, path, op, arg in WITNESSES:
        for json1 in settings:
            rid = orc.store(json1, data=doc)
            got, expected, ok = orc.json_op(json1, rid, doc, path, op, arg, forced_class=cls)
            state['%s/%s' % (cls, 'json1' if json1 else 'fallback')] = 'holds' if ok else 'reproduced: %r' % (got,)
    rid = orc.store(True, ia=[1, 2, 3])
    got, expected, ok = orc.array_op(rid, 'ia', [1, 2, 3], 'slice', (('const', -5), ('const', 2)), forced_class='array-slice-negative-overflow')
    state['array-slice-negative-overflow'] = 'holds' if ok else 'reproduced: %r' % (got,)
    ctx.extra['witnesses'] = state


FIXED_DOC = {'i': 5, 'n': -3, 'z': 0, 'big': 10 ** 12, 'f': 1.5, 'g': -2.25, 'h': 0.1 + 0.2, 's': 'abc', 'e': '', 't': True, 'u': False,
             'in': {'f': 2.5, 'i': 7, 's': 'b'}, 'li': [4, 3.5, 'x']}


def fixed_comparisons(ctx, orc):
    """every scalar type compared with constants of its own type (equal, slightly larger, slightly smaller), all six operators, constant and
    parameter, both back ends — the comparisons the translator casts for must hold on every run"""
    rng = ctx.rng
    rids = {j1: orc.store(j1, data=FIXED_DOC) for j1 in (True, False)}
    paths = [[k] for k in ('i', 'n', 'z', 'big', 'f', 'g', 'h', 's', 'e', 't', 'u')] + [['in', 'f'], ['in', 'i'], ['in', 's'], ['li', 0], ['li', 1], ['li', 2]]
    for path in paths:
        v = py_navigate(FIXED_DOC, path)[1]
        if isinstance(v, bool): consts = [True, False]; cops = ['==', '!=']
        elif isinstance(v, int): consts = [v, v + 1, v - 1, float(v)]; cops = ['==', '!=', '<', '<=', '>', '>=']
        elif isinstance(v, float): consts = [v, v + 0.5, v - 0.25]; cops = ['==', '!=', '<', '<=', '>', '>=']
        else: consts = [v, v + 'a', 'ab', '']; cops = ['==', '!=', '<', '<=', '>', '>=']
        for c in consts:
            for cop in (cops if ctx.thorough else rng.sample(cops, min(3, len(cops))) + ['==']):
                c_param = rng.random() < 0.5
                for j1 in (True, False):
                    orc.json_op(j1, rids[j1], FIXED_DOC, path, 'cmp', (cop, c, c_param), as_params=rng.random() < 0.3, gen=True)


# strings with every kind of character json.dumps writes escaped (and some it does not): as dict keys, list items and searched keys
ESCAPED_STRS = ['say "hi"', '"', 'back\\slash', '\\', 'line1\nline2', 'tab\there', 'cr\rx', 'bell\x07', 'nul\x00x', '\x1f', 'del\x7f', 'a/b', 'é', '\u20ac', '\U0001F600 face', 'q\\"z',
                "it's", 'plain', '', ' ', '\\n', 'u\\u0041']


def oracle_json_in(ctx, orc):
    """`k in x.data[...]` / `k not in x.data[...]` on dicts (keys) and lists (items), top level and under a path, where keys / items / the
    searched string contain characters JSON escapes; literal and parameter, generator and string query, JSON1 on and off: rows == Python"""
    rng = ctx.rng
    for _ in range(ctx.scale(10, 80)):
        keys = rng.sample(ESCAPED_STRS, rng.choice([3, 5, 7]))
        items = rng.sample(ESCAPED_STRS, rng.choice([2, 4, 6]))
        doc = {k: rng.choice([1, None, 'v', [k]]) for k in keys}              # top level: a dict with escaped keys
        doc['tags'] = items + [1, None]                                        # under a path: a list with escaped items
        doc['nested'] = {'d': {k: 0 for k in rng.sample(ESCAPED_STRS, 3)}, 'l': [rng.sample(ESCAPED_STRS, 2), 'x']}
        rids = {j1: orc.store(j1, data=doc) for j1 in (True, False)}
        targets = [[], ['tags'], ['nested', 'd'], ['nested', 'l', 0]]
        for path in targets:
            v = py_navigate(doc, path)[1]
            present = sorted(x for x in v if isinstance(x, str))
            absent = [s for s in ESCAPED_STRS if s not in v]
            probes = rng.sample(present, min(len(present), 3)) + rng.sample(absent, min(len(absent), 2))
            for key in probes:
                for neg in (False, True):
                    k_param = rng.random() < 0.5; gen = rng.random() < 0.6
                    # a NUL inside a string LITERAL is refused by sqlite3 for any query ("the query contains a null character": constant
                    # quoting, property C06, fix proposal fixes/C29-sqlite-literal-nul.diff): such a string is searched for as a parameter
                    if '\x00' in key: k_param = True
                    for j1 in (True, False):
                        orc.json_op(j1, rids[j1], doc, path, 'in', (key, k_param, neg), as_params=rng.random() < 0.3, gen=gen)
                        ctx.count('json-in:%s:%s' % ('top' if not path else 'path', 'present' if key in v else 'absent'))
    # a top-level LIST document, too
    doc = list(ESCAPED_STRS[:8]) + [3]
    rids = {j1: orc.store(j1, data=doc) for j1 in (True, False)}
    for key in ESCAPED_STRS[:10]:
        for neg in (False, True):
            for j1 in (True, False):
                orc.json_op(j1, rids[j1], doc, [], 'in', (key, rng.random() < 0.5 or '\x00' in key, neg), gen=True)


def scalar_like(rng, v):
    """a constant of the same type as v (so that the comparison is the type-matched one the translator casts for)"""
    if isinstance(v, bool): return rng.choice([True, False])
    if isinstance(v, int): return rng.choice([v, v, v + 1, v - 1, 0, 5])
    if isinstance(v, float): return rng.choice([v, v, 1.5, 0.0, -2.25, v + 1.0])
    if isinstance(v, str): return rng.choice([v, v, 'abc', '', 'b', v + 'x'])
    return None


def oracle_json(ctx, orc):
    rng = ctx.rng
    ndocs = ctx.scale(22, 300)
    for _ in range(ndocs):
        doc = gen_doc(rng)
        rids = {j1: orc.store(j1, data=doc) for j1 in (True, False)}
        for _ in range(ctx.scale(3, 5)):
            path = gen_path(rng, doc, want_hit=rng.random() < 0.9)
            nav = py_navigate(doc, path)
            v = nav[1] if nav[0] == 'ok' else None
            ops = [('get', None), (rng.choice(['truthy', 'not']), None)]
            if nav[0] == 'ok':
                if isinstance(v, (list, dict, str)):
                    key = rng.choice((sorted(x for x in v if isinstance(x, str)) if isinstance(v, (list, dict)) else []) + ['a', 'abc', 'nokey', ''])
                    ops.append(('in', (key, rng.random() < 0.5, rng.random() < 0.3)))
                    ops.append(('len', None))
                if v is None:
                    ops.append(('cmp', (rng.choice(['==', '!=']), None, False)))
                elif isinstance(v, (bool, int, float, str)):
                    if isinstance(v, int) and not isinstance(v, bool) and abs(v) < 2 ** 53 and rng.random() < 0.2: c = float(v)
                    else: c = scalar_like(rng, v)
                    if isinstance(c, float) and (c != c or c in (float('inf'), float('-inf'))): c = 1.5
                    cops = ['==', '!='] if isinstance(v, bool) else ['==', '!=', '<', '<=', '>', '>=']
                    ops.append(('cmp', (rng.choice(cops), c, rng.random() < 0.5)))
            else:
                ops.append(('len', None))
            for op, arg in ops:
                as_params = rng.random() < 0.4
                gen = rng.random() < 0.7
                for j1 in (True, False):
                    orc.json_op(j1, rids[j1], doc, path, op, arg, as_params=as_params, gen=gen)


def clean_key(k):
    """keys / indexes outside every recorded defect class (those are covered by the single-path stream)"""
    if isinstance(k, int): return k >= 0
    return not any(c in '"\\' or ord(c) < 32 for c in k)


def clean_paths(doc, limit=40):
    """every hit path of clean segments (depth <= 4)"""
    out = []
    def walk(v, p):
        if len(out) >= limit: return
        if p: out.append(list(p))
        if len(p) >= 4: return
        if isinstance(v, dict):
            for k in sorted(v):
                if clean_key(k): walk(v[k], p + [k])
        elif isinstance(v, list):
            for i, x in enumerate(v): walk(x, p + [i])
    walk(doc, [])
    return out


def oracle_json_multi(ctx, orc):
    rng = ctx.rng
    made = 0; target = ctx.scale(45, 500); guard = 0
    while made < target and guard < target * 10:
        guard += 1
        doc = gen_doc(rng)
        if rng.random() < 0.5:
            # siblings under one container, so that paths differ in ONE constant segment only
            doc = dict(doc) if isinstance(doc, dict) else {'w': doc}
            doc[rng.choice(['x', 'y', 'k1'])] = [gen_scalar(rng) for _ in range(rng.choice([2, 3]))]
            doc[rng.choice(['m', 'a b'])] = {'0': gen_scalar(rng), '1': gen_scalar(rng), 'x': [gen_scalar(rng), gen_scalar(rng)]}
        cands = clean_paths(doc)
        if len(cands) < 2: continue
        p0 = rng.choice([p for p in cands if len(p) >= 2] or cands)
        sibs = [p for p in cands if len(p) == len(p0) and p[:-1] == p0[:-1] and p != p0]
        paths = [p0]
        for _ in range(rng.choice([1, 1, 2])):
            paths.append(rng.choice(sibs) if sibs and rng.random() < 0.75 else rng.choice(cands))
        # which segments are external variables: the shared prefix mostly, the differing last segment mostly constant
        pat = [rng.random() < 0.6 for _ in range(4)]
        flags = []
        for p in paths:
            fl = [pat[j] for j in range(len(p))]
            if rng.random() < 0.7: fl[-1] = False
            if rng.random() < 0.15: fl = [rng.random() < 0.5 for _ in p]
            flags.append(fl)
        if not any(any(fl) for fl in flags): flags[0][0] = True
        rids = {j1: orc.store(j1, data=doc) for j1 in (True, False)}
        gen = rng.random() < 0.7
        vals = [py_navigate(doc, p)[1] for p in paths]
        modes = ['project']
        if all(type(v) in (int, str, bool) for v in vals):
            # the values themselves (all conditions hold), and with one constant replaced by the value of ANOTHER path (must not hold)
            modes.append(('cond', list(vals), True))
            for i in range(len(vals)):
                for j in range(len(vals)):
                    if i != j and type(vals[i]) is type(vals[j]) and vals[i] != vals[j]:
                        c = list(vals); c[i] = vals[j]
                        modes.append(('cond', c, False)); break
        for mode in modes[:3]:
            for j1 in (True, False):
                orc.json_multi(j1, rids[j1], doc, paths, flags, mode, gen)
        made += 1


def oracle_array(ctx, orc, clamp):
    rng = ctx.rng
    grid = [None, 0, 1, 2, 3, 5, -1, -2, -3, -4, -6]
    reqs, checks = [], []
    for _ in range(ctx.scale(25, 300)):
        n = rng.choice([0, 1, 2, 3, 3, 4, 5])
        if rng.random() < 0.6:
            attr = 'ia'; xs = [rng.choice([0, 1, 5, -2, 9, 2 ** 40]) for _ in range(n)]; pool = [0, 1, 5, 7, -2]
        else:
            attr = 'sa'; xs = [rng.choice(['', 'a', 'b', 'a"b', 'é', "x'y", 'null']) for _ in range(n)]; pool = ['a', '', 'zz', 'a"b', 'null']
        k = rng.choice(grid[1:])
        rid = orc.store(True, k=k, **{attr: xs})
        for _ in range(ctx.scale(3, 5)):
            form = rng.choice(['const', 'param', 'attr'])
            i = k if form == 'attr' else rng.choice(grid[1:])
            g = rng.random() < 0.75
            got, expected, ok = orc.array_op(rid, attr, xs, 'index', (form, i), k=k, gen=g)
            if attr == 'ia': reqs.append({'op': 'array', 'xs': xs, 'i': i, 'a': None, 'b': None}); checks.append(('index', xs, i, got))
            fa = rng.choice(['const', 'param', 'attr']); fb = rng.choice(['const', 'param', 'attr'])
            a = k if fa == 'attr' else rng.choice(grid); b = k if fb == 'attr' else rng.choice(grid)
            if a is None and b is None and rng.random() < 0.7: a = 0
            got, expected, ok = orc.array_op(rid, attr, xs, 'slice', ((fa, a), (fb, b)), k=k, gen=g)
            if attr == 'ia': reqs.append({'op': 'array', 'xs': xs, 'i': None, 'a': a, 'b': b}); checks.append(('slice', xs, (a, b), got))
            item = rng.choice(pool + xs)
            orc.array_op(rid, attr, xs, 'contains', (item, rng.choice(['const', 'param']), rng.random() < 0.3), k=k)
            items = [rng.choice(pool + xs) for _ in range(rng.choice([0, 1, 2, 3]))]
            orc.array_op(rid, attr, xs, 'subset', (items, 'const' if items else 'const', rng.random() < 0.3), k=k)
        orc.array_op(rid, attr, xs, 'len', None, k=k)
        orc.array_op(rid, attr, xs, rng.choice(['truthy', 'not']), None, k=k)
    # the composition `py_array_*(…, _index(…))` of the model predicts what real SQLite returned (also where Python raises IndexError)
    outs = ctx.driver('C29', reqs) if ctx.driver.ok else []
    for (op, xs, arg, got), out in zip(checks, outs):
        model = ('value', out['index'] if op == 'index' else out['slice'])
        if got != model:
            ctx.divergence('array %s: the model of the emitted SQL and real SQLite disagree' % op, [xs, arg], model=model, impl=got)


def run(ctx):
    if ctx.driver.ok:
        lits, cte, clamp = lits_tie(ctx)
        path_tie(ctx)
        composite_tie(ctx)
        nav_tie(ctx, lits)
        array_tie(ctx, clamp)
    else:
        ctx.note('driver unavailable: model correspondence skipped')
        lits = re.findall(r"'((?:[^']|'')*)'", sq.SQLiteBuilder.JSON_NONZERO(lambda e: 'E', None)[1].split('NOT IN', 1)[1]); clamp = False
    orc = Oracle(ctx, lits)
    witnesses(ctx, orc)
    fixed_comparisons(ctx, orc)
    oracle_json_in(ctx, orc)
    oracle_json(ctx, orc)
    oracle_json_multi(ctx, orc)
    oracle_array(ctx, orc, clamp)
    for db, D in orc.dbs.values(): db.disconnect()


def replay(ctx, data):
    """re-run the recorded failing input on the real code, then the normal run"""
    inp = data.get('input') or {}
    try:
        orc = Oracle(ctx, [])
        if isinstance(inp, dict) and 'paths' in inp:
            rid = orc.store(inp['json1'], data=inp['doc'])
            orc.json_multi(inp['json1'], rid, inp['doc'], inp['paths'], inp['param_segments'], 'project', inp.get('gen', True))
        elif isinstance(inp, dict) and 'doc' in inp:
            rid = orc.store(inp['json1'], data=inp['doc'])
            arg = inp.get('arg'); arg = tuple(arg) if isinstance(arg, list) else arg
            orc.json_op(inp['json1'], rid, inp['doc'], inp['path'], inp['op'], arg, as_params=inp.get('params', False), gen=inp.get('gen', True))
        elif isinstance(inp, dict) and 'array' in inp:
            rid = orc.store(True, k=inp.get('k'), **{inp['attr']: inp['array']})
            arg = inp.get('arg')
            if inp['op'] == 'slice': arg = tuple(tuple(x) for x in arg)
            elif isinstance(arg, list): arg = tuple(arg)
            orc.array_op(rid, inp['attr'], inp['array'], inp['op'], arg, k=inp.get('k'), gen=inp.get('gen', True))
    except Exception as e:
        ctx.note('replay of the recorded input failed to run: %s: %s' % (type(e).__name__, e))
    run(ctx)
