"""C23 — the loading strategy never changes the data a program observes.

Oracle (the property itself, on the real code): random schemas (scalar attributes, some lazy; one-to-one, many-to-one,
many-to-many, symmetric and self relations; single and composite primary keys) and random histories (observations of attribute
values, related objects, collection contents / count / is_empty / len / contains, queries, N+1 iteration patterns, interleaved
with creates, updates, collection changes, deletes, flush / commit / rollback) are executed on real Pony SIX times from the same
committed database file:
    default | every scalar attribute and collection lazy=True | ... and every reference attribute lazy=True too |
    prefetch() of every entity and relation on every query | nplus1_threshold=0 | nplus1_threshold=10**9
(the entity classes are rebuilt for each strategy).  The observation logs and the final table contents must be identical; only
the number of SELECT statements (counted through the tracing connection) may differ.  A difference is shrunk (ddmin over the
history) and reported with the minimal history.

Tie (model <-> code), on the read-only tail of every history, for every strategy:
  * before each read the real session state of the object / collection is snapshotted (`obj._vals_`, `SetData`), the read is
    executed on `Model.Loading.read` through the Lean driver with that snapshot and the raw database contents, and the model's
    answer, whether it had to load (real: a SELECT was issued), and the `SetData` afterwards are compared with the real ones;
  * after each read the invariant the proof rests on (`Coherent`: every loaded value / item / count / absent entry agrees with the
    database) is evaluated on the WHOLE real session.
"""
import itertools, json, os, random, shutil, sqlite3, traceback, zlib
from pony.orm import Database, Required, Optional, Set, PrimaryKey, Json, IntArray, db_session, select, commit, rollback, flush
from pony.orm import core
import ponyutil
from tracing import Tracer

STRATEGIES = ['default', 'lazy', 'lazyref', 'prefetch', 'n0', 'ninf']

# ------------------------------------------------------------------------------------------------ schema

def gen_schema(rng, simple=False):
    nent = rng.choice([1, 2, 2, 3, 3, 4])
    ents = []
    for e in range(nent):
        ents.append({'pk': 'comp' if rng.random() < 0.2 and not simple else 'int', 'lazy_s': rng.random() < 0.5, 'lazy_v': rng.random() < 0.2, 'lazy_j': rng.random() < 0.5, 'lazy_arr': rng.random() < 0.5,
                     'sub': rng.random() < 0.3 and not simple})
    rels = []
    for i in range(rng.choice([1, 2, 2, 3, 3, 4])):
        kind = rng.choice(['o2o', 'm2o', 'm2o', 'm2o', 'm2m', 'm2m', 'sym1', 'symm'])
        ea = rng.randrange(nent)
        eb = ea if rng.random() < 0.25 else rng.randrange(nent)
        if kind in ('sym1', 'symm'): eb = ea
        rels.append({'kind': kind, 'a': ea, 'b': eb, 'req': kind == 'm2o' and rng.random() < 0.3})
    return {'ents': ents, 'rels': rels}


class World(object):
    """real entity classes for one strategy, bound to one SQLite file"""
    def __init__(self, schema, strategy, path, create):
        self.schema = schema; self.strategy = strategy
        self.tracer = Tracer(); self._seen = 0; self._nsel = 0
        self.db = db = Database()
        lazy = strategy in ('lazy', 'lazyref')      # scalar attributes and collections lazy
        lazyref = strategy == 'lazyref'             # ... and the reference attributes too
        setkw = {}
        if strategy == 'n0': setkw['nplus1_threshold'] = 0
        if strategy == 'ninf': setkw['nplus1_threshold'] = 10 ** 9
        dicts = [dict() for _ in schema['ents']]
        self.relattrs = [[] for _ in schema['ents']]     # entity -> [(name, 'ref'|'coll', target entity, reverse name)]
        for e, spec in enumerate(schema['ents']):
            d = dicts[e]
            if spec['pk'] == 'int': d['id'] = PrimaryKey(int)
            else:
                d['a'] = Required(int); d['b'] = Required(int); d['_pk_'] = None
            d['tag'] = Required(int, lazy=lazy)
            d['v'] = Optional(int, lazy=lazy or spec['lazy_v'])
            d['s'] = Optional(str, nullable=True, autostrip=False, lazy=lazy or spec['lazy_s'])
            # container-valued attributes: the loaded value must be a tracked container bound to (obj, attr) however it was loaded
            d['j'] = Optional(Json, nullable=True, lazy=lazy or spec.get('lazy_j', False))
            d['arr'] = Optional(IntArray, nullable=True, lazy=lazy or spec.get('lazy_arr', False))
        for i, r in enumerate(schema['rels']):
            k = r['kind']; na = 'r%da' % i; nb = 'r%db' % i
            A = 'E%d' % r['a']; B = 'E%d' % r['b']
            rkw = {'lazy': True} if lazyref else {}
            skw = dict(setkw);
            if lazy: skw['lazy'] = True
            if k == 'o2o':
                dicts[r['a']][na] = Optional(B, reverse=nb, **rkw); dicts[r['b']][nb] = Optional(A, reverse=na, **rkw)
                self.relattrs[r['a']].append((na, 'ref', r['b'], nb)); self.relattrs[r['b']].append((nb, 'ref', r['a'], na))
            elif k == 'm2o':
                dicts[r['a']][na] = (Required if r['req'] else Optional)(B, reverse=nb, **rkw); dicts[r['b']][nb] = Set(A, reverse=na, **skw)
                self.relattrs[r['a']].append((na, 'ref', r['b'], nb)); self.relattrs[r['b']].append((nb, 'coll', r['a'], na))
            elif k == 'm2m':
                dicts[r['a']][na] = Set(B, reverse=nb, **skw); dicts[r['b']][nb] = Set(A, reverse=na, **skw)
                self.relattrs[r['a']].append((na, 'coll', r['b'], nb)); self.relattrs[r['b']].append((nb, 'coll', r['a'], na))
            elif k == 'sym1':
                dicts[r['a']][na] = Optional(A, reverse=na, **rkw)
                self.relattrs[r['a']].append((na, 'ref', r['a'], na))
            else:
                dicts[r['a']][na] = Set(A, reverse=na, **skw)
                self.relattrs[r['a']].append((na, 'coll', r['a'], na))
        self.classes = []
        for e, spec in enumerate(schema['ents']):
            d = dicts[e]
            if spec['pk'] == 'comp':
                d.pop('_pk_')
                attrs = (d['a'], d['b'])          # what `PrimaryKey(a, b)` in a class body does
                for i, at in enumerate(attrs):
                    at.is_part_of_unique_index = True
                    at.composite_keys.append((attrs, i))
                d['_indexes_'] = [core.Index(*attrs, is_pk=True)]
            self.classes.append(type('E%d' % e, (db.Entity,), d))
        # inheritance: a subclass with one more attribute (rows of both classes share the table; references and collections yield seeds of the BASE class
        # whose real class is learnt when the row is loaded: Attribute.get / Set.copy / _fetch_objects call _load_ / _load_many_ for that)
        self.subclasses = {}
        for e, spec in enumerate(schema['ents']):
            if spec.get('sub'): self.subclasses[e] = type('E%ds' % e, (self.classes[e],), {'x': Optional(int, lazy=lazy)})
        db.bind('sqlite', path, create_db=create, **self.tracer.bind_kwargs())
        db.generate_mapping(create_tables=create)
        self.pf = list(self.classes) + list(self.subclasses.values())
        for cls in self.classes + list(self.subclasses.values()):
            for a in cls._attrs_:
                if a.is_collection or (a.lazy and not a.is_pk): self.pf.append(a)

    def pkargs(self, e, pk):
        return {'id': pk} if self.schema['ents'][e]['pk'] == 'int' else {'a': pk // 100, 'b': pk % 100}
    def eidx(self, o):
        return self.classes.index(type(o)._root_)
    def pkof(self, o):
        if o is None: return None
        e = self.eidx(o)
        return o.id if self.schema['ents'][e]['pk'] == 'int' else o.a * 100 + o.b
    def fetch(self, e, pk):
        E = self.classes[e]
        if self.strategy == 'prefetch':
            for o in E.select().prefetch(*self.pf):
                if self.pkof(o) == pk: return o
            return None
        return E.get(**self.pkargs(e, pk))
    def q(self, query):
        return query.prefetch(*self.pf) if self.strategy == 'prefetch' else query
    def selects(self):
        ev = self.tracer.events
        while self._seen < len(ev):
            if ev[self._seen].get('kind') == 'select': self._nsel += 1
            self._seen += 1
        return self._nsel


def canon_val(w, v):
    if isinstance(v, core.Entity): return ['obj', w.eidx(v), w.pkof(v)]
    return v


def do_read(w, op, o, x=None):
    k = op[0]
    if k == 'attr': return ['ok', canon_val(w, getattr(o, op[3]))]
    if k == 'coll': return ['ok', sorted(w.pkof(i) for i in getattr(o, op[3]))]
    if k == 'count': return ['ok', getattr(o, op[3]).count()]
    if k == 'empty': return ['ok', getattr(o, op[3]).is_empty()]
    if k == 'len': return ['ok', len(getattr(o, op[3]))]
    if k == 'contains': return ['ok', x in getattr(o, op[3])]
    raise RuntimeError(k)


MERGES = []      # (driver request, real items after, description)

def merge_snapshot(w, owner, cname):
    """(link rows of the owner as the transaction sees them, items / added / removed the session holds) for a many-to-many collection"""
    try:
        attr = getattr(type(owner), cname)
        if not attr.reverse.is_collection or any(sp['pk'] != 'int' for sp in w.schema['ents']): return None
        sd = owner._vals_.get(attr)
        if sd is None or sd.is_fully_loaded: return None
        own = attr.reverse_columns[0] if attr.symmetric else attr.reverse.columns[0]
        other = attr.columns[0]
        con = w.db.get_connection()
        rows = [r[0] for r in con.execute('select "%s" from "%s" where "%s" = ?' % (other, attr.table, own), (owner.id,))]
        if attr.symmetric: rows += [r[0] for r in con.execute('select "%s" from "%s" where "%s" = ?' % (own, attr.table, other), (owner.id,))]
        return {'rows': sorted(set(rows)), 'items': sorted(x.id for x in sd), 'added': sorted(x.id for x in (sd.added or ())), 'removed': sorted(x.id for x in (sd.removed or ()))}
    except Exception:
        return None

def merge_compare(w, owner, cname, before, op):
    if before is None: return
    try:
        attr = getattr(type(owner), cname)
        sd = owner._vals_.get(attr)
        if sd is None or not sd.is_fully_loaded: return          # the sibling was not covered by a batch load
        MERGES.append((dict(before, op='merge'), sorted(x.id for x in sd), {'op': op, 'strategy': w.strategy, 'before': before}))
    except Exception: pass

def flush_merges(ctx):
    if not MERGES or not ctx.driver.ok:
        del MERGES[:]; return
    reqs = list(MERGES); del MERGES[:]
    outs = ctx.driver('C23', [r[0] for r in reqs])
    for (req, real, d), out in zip(reqs, outs):
        ctx.count('tie:merge')
        if 'ok' not in out or sorted(out['ok']) != real or sorted(out['expected']) != real:
            ctx.divergence('a sibling collection with pending changes after a many-to-many batch load: the real SetData differs from Model.Loading.mergeLinks / expectedItems',
                           d, model=out, impl=real)


def exec_op(w, op):
    """one op on the real code -> canonical observation (value or exception class)"""
    k = op[0]
    try:
        if k == 'get': return ['ok', w.fetch(op[1], op[2]) is not None]
        if k in ('attr', 'nav', 'coll', 'count', 'empty', 'len', 'contains', 'load', 'collload', 'set', 'setref', 'add', 'remove', 'delete'):
            o = w.fetch(op[1], op[2])
            if o is None: return ['absent']
            if k == 'attr': return ['ok', canon_val(w, getattr(o, op[3]))]
            if k == 'nav':
                t = getattr(o, op[3])
                return ['ok', None if t is None else canon_val(w, getattr(t, op[4]))]
            if k == 'coll': return ['ok', sorted(w.pkof(x) for x in getattr(o, op[3]))]
            if k == 'count': return ['ok', getattr(o, op[3]).count()]
            if k == 'empty': return ['ok', getattr(o, op[3]).is_empty()]
            if k == 'len': return ['ok', len(getattr(o, op[3]))]
            if k == 'contains':
                x = w.fetch(op[4], op[5])
                return ['absent'] if x is None else ['ok', x in getattr(o, op[3])]
            if k == 'load': o.load(); return ['ok', None]
            if k == 'collload': getattr(o, op[3]).load(); return ['ok', None]
            if k == 'set': setattr(o, op[3], op[4]); return ['ok', None]
            if k == 'setref':
                t = None if op[4] is None else w.fetch(op[4], op[5])
                if op[4] is not None and t is None: return ['absent']
                setattr(o, op[3], t); return ['ok', None]
            if k in ('add', 'remove'):
                x = w.fetch(op[4], op[5])
                if x is None: return ['absent']
                getattr(getattr(o, op[3]), k)(x); return ['ok', None]
            if k == 'delete': o.delete(); return ['ok', None]
        E = w.classes[op[1]] if len(op) > 1 and isinstance(op[1], int) else None
        if k == 'select':
            objs = w.q(select(o for o in E if o.tag >= op[2]))[:]
            return ['ok', sorted([w.pkof(o), canon_val(w, getattr(o, op[3]))] for o in objs)]
        if k == 'iterattr':
            return ['ok', sorted([w.pkof(o), canon_val(w, getattr(o, op[2]))] for o in w.q(E.select()))]
        if k == 'itercoll':
            return ['ok', sorted([w.pkof(o), sorted(w.pkof(x) for x in getattr(o, op[2]))] for o in w.q(E.select()))]
        if k == 'itercount':
            return ['ok', sorted([w.pkof(o), getattr(o, op[2]).count(), getattr(o, op[2]).is_empty()] for o in w.q(E.select()))]
        if k == 'selectrel':
            name = op[2]
            objs = w.q(select(getattr(o, name) for o in E))[:]
            return ['ok', sorted((w.pkof(x) for x in objs), key=lambda v: (v is None, v))]
        if k == 'navall':
            return ['ok', sorted([w.pkof(o), None if getattr(o, op[2]) is None else getattr(getattr(o, op[2]), 'tag')] for o in w.q(E.select()))]
        if k == 'create':
            kw = dict(w.pkargs(op[1], op[2])); kw.update(tag=op[3], v=op[4], s=op[5])
            kw['j'] = {'k': op[3], 'l': [op[2] % 7], 'd': {'x': 1}}; kw['arr'] = [op[2] % 5, op[3]]
            if len(op) > 8 and op[8] is not None and op[1] in w.subclasses: E = w.subclasses[op[1]]; kw['x'] = op[8]
            for name, t in op[6]:
                x = w.fetch(t[0], t[1])
                if x is not None: kw[name] = x
            for name, ts in op[7]:
                kw[name] = [x for x in (w.fetch(t[0], t[1]) for t in ts) if x is not None]
            E(**kw); return ['ok', None]
        if k in ('jread', 'jmut'):
            o = w.fetch(op[1], op[2])
            if o is None: return ['absent']
            def plain(v):
                v = v.get_untracked() if hasattr(v, 'get_untracked') else v
                return json.loads(json.dumps(v, sort_keys=True)) if v is not None else None
            if k == 'jmut':
                kind, val = op[3], op[4]
                if kind in ('setkey', 'append', 'nested', 'delkey') and o.j is None: return ['ok', 'no json']
                if kind in ('arrappend', 'arrset') and not o.arr: return ['ok', 'no array']
                if kind == 'setkey': o.j['k'] = val
                elif kind == 'append': o.j['l'].append(val)
                elif kind == 'nested': o.j['d']['x'] = val
                elif kind == 'delkey': o.j.pop('k', None)
                elif kind == 'assign': o.j = {'k': val, 'l': [], 'd': {'x': 0}}
                elif kind == 'arrappend': o.arr.append(val)
                elif kind == 'arrset': o.arr[0] = val
                elif kind == 'arrassign': o.arr = [val, val + 1]
            return ['ok', [plain(o.j), plain(o.arr)]]
        if k == 'jselect':
            E = w.classes[op[1]]
            if op[2] == 'attr': return ['ok', sorted(json.dumps(v, sort_keys=True) for v in w.q(select(o.j for o in E if o.tag >= 0)))]
            return ['ok', sorted([w.pkof(o), json.dumps(o.j.get_untracked() if hasattr(o.j, 'get_untracked') else o.j, sort_keys=True), list(o.arr) if o.arr is not None else None]
                                 for o in w.q(select(o for o in E if o.tag >= 0)))]
        if k == 'navcls':
            o = w.fetch(op[1], op[2])
            if o is None: return ['absent']
            t = getattr(o, op[3])
            return ['ok', None if t is None else [type(t).__name__, getattr(t, 'x', 'no x'), t.tag]]
        if k == 'collcls':
            o = w.fetch(op[1], op[2])
            if o is None: return ['absent']
            return ['ok', sorted([w.pkof(i), type(i).__name__, getattr(i, 'x', 'no x')] for i in getattr(o, op[3]))]
        if k == 'selcls':
            return ['ok', sorted([w.pkof(o), type(o).__name__, getattr(o, 'x', 'no x')] for o in w.q(w.classes[op[1]].select()))]
        if k == 'subsel':
            S = w.subclasses.get(op[1])
            if S is None: return ['ok', 'no subclass']
            return ['ok', sorted([w.pkof(o), o.x, o.tag] for o in w.q(select(o for o in S if o.tag >= op[2])))]
        if k == 'batchmod':
            # a many-to-many batch load triggered with flushing DISABLED while a sibling of the batch has pending changes:
            # arm the nplus1 heuristic (one full load) -> partial knowledge of one owner (contains) -> unflushed add / remove on a sibling ->
            # a modifying call on the first owner, which has to load its collection inside flush_disabled() -> observe everybody
            e, cname, t = op[1], op[2], op[3]
            g3, g1, g2 = op[4]; s1, s3, s4 = op[5]; sib_act, trig = op[6], op[7]
            objs = [w.fetch(e, pk) for pk in (g3, g1, g2)] + [w.fetch(t, pk) for pk in (s1, s3, s4)]     # everything is cached first: no query (no flush) later
            if any(x is None for x in objs): return ['absent']
            G3, G1, G2, S1, S3, S4 = objs
            out = []
            def obs(f):
                try: out.append(f())
                except Exception as ex: out.append('exc:' + type(ex).__name__)
            obs(lambda: sorted(w.pkof(x) for x in getattr(G3, cname)))
            obs(lambda: S1 in getattr(G1, cname))
            obs(lambda: getattr(getattr(G2, cname), sib_act)(S3))
            # the sibling's state right before the trigger; compared only when the trigger itself cannot change the sibling's collection
            symmetric = getattr(type(G1), cname).symmetric
            before = merge_snapshot(w, G2, cname) if (trig != 'delete' and G2 not in (S1, S4) and G1 is not S3 and not (symmetric and trig != 'add')) else None
            if trig == 'add': obs(lambda: getattr(G1, cname).add(S4))
            elif trig == 'remove': obs(lambda: getattr(G1, cname).remove(S1))
            elif trig == 'set': obs(lambda: setattr(G1, cname, [S4]))
            else: obs(lambda: G1.delete())
            merge_compare(w, G2, cname, before, op)
            if trig != 'delete': obs(lambda: sorted(w.pkof(x) for x in getattr(G1, cname)))
            obs(lambda: sorted(w.pkof(x) for x in getattr(G2, cname)))
            obs(lambda: S3 in getattr(G2, cname))
            obs(lambda: getattr(G2, cname).count())
            return ['ok', out]
        if k == 'seedwrite':
            # load-path variants x write-before-read: an object reached through a reference (an unloaded reference unless the strategy loaded it eagerly)
            # gets a plain attribute WRITTEN before anything of it is read; then something loads its row while flushing is disabled:
            # a relationship assignment on it / a collection change on it / its deletion / the batch load caused by another unloaded reference
            e, pk, refname, scalar, value, action = op[1:7]
            o = w.fetch(e, pk)
            if o is None: return ['absent']
            extra = [None if a is None else w.fetch(a[0], a[1]) for a in op[7]]     # everything the action needs is cached BEFORE the write: no query (hence no flush) later
            t = getattr(o, refname)
            if t is None: return ['ok', 'no target']
            setattr(t, scalar, value)
            if action == 'setref': setattr(t, op[8], extra[0])
            elif action in ('add', 'remove'):
                if extra[0] is None: return ['absent']
                getattr(getattr(t, op[8]), action)(extra[0])
            elif action == 'delete': t.delete(); return ['ok', 'deleted']
            elif action == 'other':
                if extra[0] is None: return ['absent']
                t2 = getattr(extra[0], refname)
                if t2 is not None and t2 is not t: setattr(t2, op[8], extra[1])
            elif action == 'read': pass
            return ['ok', [canon_val(w, getattr(t, scalar)), canon_val(w, getattr(t, 'tag')), canon_val(w, getattr(t, 'v')), canon_val(w, getattr(t, 's'))]]
        if k == 'navsetref':
            o = w.fetch(op[1], op[2])
            if o is None: return ['absent']
            t = getattr(o, op[3])                     # reached through a reference: possibly a seed (nothing but its key is loaded)
            if t is None: return ['ok', 'no target']
            x = None if op[5] is None else w.fetch(op[5], op[6])
            if op[5] is not None and x is None: return ['absent']
            setattr(t, op[4], x); return ['ok', None]
        if k == 'flush': flush(); return ['ok', None]
        if k == 'commit': commit(); return ['ok', None]
        if k == 'rollback': rollback(); return ['ok', None]
        raise RuntimeError('unknown op %r' % (op,))
    except Exception as e:
        return ['exc', type(e).__name__]


def dump(path):
    con = sqlite3.connect(path)
    try:
        out = []
        for (name,) in sorted(con.execute("select name from sqlite_master where type='table'")):
            rows = sorted(con.execute('select * from "%s"' % name).fetchall(), key=repr)
            out.append([name, [list(r) for r in rows]])
        return out
    finally: con.close()


def run_history(schema, population, hist, strategy, base, tie=None):
    """copy the committed database file, bind the strategy's classes to it, run; -> (log, selects)"""
    path = base + '.' + strategy
    shutil.copyfile(base, path)
    w = World(schema, strategy, path, create=False)
    log = []
    sess = None
    try:
        for idx, op in enumerate(hist):
            if op[0] in ('end', 'end_rollback'):
                if sess is not None:
                    try:
                        if op[0] == 'end_rollback': rollback()
                        sess.__exit__(None, None, None); log.append(['ok', None])
                    except Exception as e: log.append(['exc', type(e).__name__])
                    sess = None
                else: log.append(['ok', None])
                continue
            if sess is None:
                sess = db_session(); sess.__enter__()
                if tie is not None and idx >= tie['start']: tie['begin'](w, path)
            if tie is not None and idx >= tie['start']: log.append(tie['op'](w, op))
            else: log.append(exec_op(w, op))
        if sess is not None:
            try: sess.__exit__(None, None, None)
            except Exception as e: log.append(['exc-at-exit', type(e).__name__])
            sess = None
    finally:
        if sess is not None:
            try: rollback(); sess.__exit__(None, None, None)
            except Exception: pass
        n = w.selects()
        try: w.db.disconnect()
        except Exception: pass
    log.append(['final', dump(path)])
    os.remove(path)
    return log, n


def populate(schema, population, base):
    if os.path.exists(base): os.remove(base)
    w = World(schema, 'default', base, create=True)
    try:
        with db_session:
            for op in population:
                r = exec_op(w, op)
        return True
    except Exception:
        return False
    finally:
        w.db.disconnect()


# ------------------------------------------------------------------------------------------------ generators

def rel_names(schema):
    """entity -> refs [(name, target)], colls [(name, target)]"""
    refs = [[] for _ in schema['ents']]; colls = [[] for _ in schema['ents']]
    for i, r in enumerate(schema['rels']):
        k = r['kind']; na = 'r%da' % i; nb = 'r%db' % i
        if k == 'o2o': refs[r['a']].append((na, r['b'], False)); refs[r['b']].append((nb, r['a'], False))
        elif k == 'm2o': refs[r['a']].append((na, r['b'], r['req'])); colls[r['b']].append((nb, r['a']))
        elif k == 'm2m': colls[r['a']].append((na, r['b'])); colls[r['b']].append((nb, r['a']))
        elif k == 'sym1': refs[r['a']].append((na, r['a'], False))
        else: colls[r['a']].append((na, r['a']))
    return refs, colls

def pks_of(schema, e):
    return [1, 2, 3, 4, 5, 6] if schema['ents'][e]['pk'] == 'int' else [101, 102, 201, 202, 301]

def gen_population(rng, schema):
    refs, colls = rel_names(schema)
    pop = []
    made = [[] for _ in schema['ents']]
    for rnd in range(2):
        for e in range(len(schema['ents'])):
            for pk in pks_of(schema, e):
                if pk in made[e] or rng.random() < 0.45: continue
                rv = []
                ok = True
                for name, t, req in refs[e]:
                    if made[t] and (req or rng.random() < 0.6): rv.append([name, [t, rng.choice(made[t])]])
                    elif req: ok = False
                if not ok: continue
                cv = [[name, [[t, x] for x in rng.sample(made[t], min(len(made[t]), rng.choice([0, 1, 2, 3])))]] for name, t in colls[e] if made[t]]
                pop.append(['create', e, pk, rng.choice([0, 1, 2, 3]), rng.choice([None, 5, 7]), rng.choice([None, 'x', 'yy']), rv, cv,
                            rng.choice([None, 41, 42]) if schema['ents'][e].get('sub') else None])
                made[e].append(pk)
    return pop

def gen_obs(rng, schema):
    refs, colls = rel_names(schema)
    e = rng.randrange(len(schema['ents']))
    pk = rng.choice(pks_of(schema, e) + [9])
    scal = rng.choice(['tag', 'v', 's'])
    kinds = ['get', 'attr', 'attr', 'select', 'iterattr', 'load', 'selcls', 'jread', 'jread', 'jselect']
    if schema['ents'][e].get('sub'): kinds += ['subsel', 'selcls']
    if refs[e]: kinds += ['attrref', 'nav', 'selectrel', 'navall', 'attrref', 'navcls', 'navcls']
    if colls[e]: kinds += ['collcls', 'collcls']
    if colls[e]: kinds += ['coll', 'count', 'empty', 'len', 'contains', 'contains', 'itercoll', 'itercount', 'collload', 'coll', 'empty', 'count']
    k = rng.choice(kinds)
    if k == 'jread': return ['jread', e, pk]
    if k == 'jselect': return ['jselect', e, rng.choice(['attr', 'obj'])]
    if k == 'selcls': return ['selcls', e]
    if k == 'subsel': return ['subsel', e, rng.choice([0, 1, 2])]
    if k == 'navcls': return ['navcls', e, pk, rng.choice(refs[e])[0]]
    if k == 'collcls': return ['collcls', e, pk, rng.choice(colls[e])[0]]
    if k == 'get': return ['get', e, pk]
    if k == 'attr': return ['attr', e, pk, scal]
    if k == 'attrref': return ['attr', e, pk, rng.choice(refs[e])[0]]
    if k == 'nav': return ['nav', e, pk, rng.choice(refs[e])[0], rng.choice(['tag', 'v', 's'])]
    if k == 'select': return ['select', e, rng.choice([0, 1, 2]), rng.choice(['tag', 'v', 's'] + [r[0] for r in refs[e]])]
    if k == 'iterattr': return ['iterattr', e, rng.choice(['tag', 'v', 's'] + [r[0] for r in refs[e]])]
    if k == 'load': return ['load', e, pk]
    if k == 'selectrel': return ['selectrel', e, rng.choice(refs[e])[0]]
    if k == 'navall': return ['navall', e, rng.choice(refs[e])[0]]
    name, t = rng.choice(colls[e])
    if k in ('coll', 'count', 'empty', 'len', 'collload'): return [k, e, pk, name]
    if k == 'contains': return ['contains', e, pk, name, t, rng.choice(pks_of(schema, t))]
    return [k, e, name]

def gen_mod(rng, schema):
    refs, colls = rel_names(schema)
    e = rng.randrange(len(schema['ents']))
    pk = rng.choice(pks_of(schema, e))
    kinds = ['set', 'set', 'create', 'delete', 'flush', 'commit', 'rollback', 'jmut', 'jmut', 'jmut']
    if refs[e]: kinds += ['setref', 'setref', 'navsetref', 'seedwrite', 'seedwrite', 'seedwrite']
    if colls[e]: kinds += ['add', 'add', 'remove']
    m2m = [(name, t) for name, t in colls[e] if any(r['kind'] in ('m2m', 'symm') and name in ('r%da' % i, 'r%db' % i) for i, r in enumerate(schema['rels']))]
    if m2m: kinds += ['batchmod', 'batchmod', 'batchmod']
    k = rng.choice(kinds)
    if k == 'batchmod':
        name, t = rng.choice(m2m)
        owners = rng.sample(pks_of(schema, e), 3); items = [rng.choice(pks_of(schema, t)) for _ in range(3)]
        made = POPULATED.get('made', set())
        eo = [pk_ for pk_ in pks_of(schema, e) if (e, pk_) in made]; et = [pk_ for pk_ in pks_of(schema, t) if (t, pk_) in made]
        nonempty = [pk_ for pk_ in eo if POPULATED.get((e, pk_, name))]
        if len(eo) >= 3 and nonempty and et and rng.random() < 0.8:
            # aimed: g1 has items (so `s1 in g1` leaves a non-empty partial set), s3 is not yet in g2, s4 not yet in g1
            g1 = rng.choice(nonempty); rest = [x for x in eo if x != g1]; g2, g3 = rng.sample(rest, 2)
            s1 = rng.choice(sorted(POPULATED[(e, g1, name)]))
            out2 = [x for x in et if x not in POPULATED.get((e, g2, name), ())] or et
            out1 = [x for x in et if x not in POPULATED.get((e, g1, name), ())] or et
            owners = [g3, g1, g2]; items = [s1, rng.choice(out2), rng.choice(out1)]
        return ['batchmod', e, name, t, owners, items, rng.choice(['add', 'add', 'remove']), rng.choice(['add', 'add', 'remove', 'set', 'delete'])]
    if k == 'jmut':
        return ['jmut', e, pk, rng.choice(['setkey', 'append', 'nested', 'delkey', 'assign', 'arrappend', 'arrset', 'arrassign']), rng.choice([11, 12, 13])]
    if k == 'seedwrite':
        name, t, req = rng.choice(refs[e])
        scalar = rng.choice(['tag', 'v', 's'])
        value = {'tag': rng.choice([7, 8]), 'v': rng.choice([None, 9, 6]), 's': rng.choice(['w1', 'w2', None])}[scalar]
        acts = ['read', 'delete']
        if refs[t]: acts += ['setref', 'setref', 'other']
        if colls[t]: acts += ['add', 'remove']
        action = rng.choice(acts)
        if action in ('setref', 'other'):
            n2, t2, req2 = rng.choice(refs[t])
            tgt = [t2, rng.choice(pks_of(schema, t2))]
            extra = [tgt] if action == 'setref' else [[e, rng.choice(pks_of(schema, e))], tgt]
            return ['seedwrite', e, pk, name, scalar, value, action, extra, n2]
        if action in ('add', 'remove'):
            n2, t2 = rng.choice(colls[t])
            return ['seedwrite', e, pk, name, scalar, value, action, [[t2, rng.choice(pks_of(schema, t2))]], n2]
        return ['seedwrite', e, pk, name, scalar, value, action, [], None]
    if k == 'navsetref':
        name, t, req = rng.choice(refs[e])
        if not refs[t]: k = 'setref'
        else:
            n2, t2, req2 = rng.choice(refs[t])
            return ['navsetref', e, pk, name, n2, t2, rng.choice(pks_of(schema, t2))]
    if k == 'set':
        name = rng.choice(['tag', 'v', 's'])
        return ['set', e, pk, name, {'tag': rng.choice([0, 1, 2, 3]), 'v': rng.choice([None, 5, 8]), 's': rng.choice([None, 'x', 'zz'])}[name]]
    if k == 'create':
        FRESH[0] += 1
        pk = (10 + FRESH[0]) if schema['ents'][e]['pk'] == 'int' else (400 + FRESH[0])     # never an existing row: a duplicate key is detected at different moments
        rv = [[name, [t, rng.choice(pks_of(schema, t))]] for name, t, req in refs[e] if req or rng.random() < 0.5]
        cv = [[name, [[t, rng.choice(pks_of(schema, t))]]] for name, t in colls[e] if rng.random() < 0.4]
        return ['create', e, pk, rng.choice([0, 1, 2]), rng.choice([None, 5]), rng.choice([None, 'n']), rv, cv, rng.choice([None, 43]) if schema['ents'][e].get('sub') else None]
    if k == 'setref':
        name, t, req = rng.choice(refs[e])
        if rng.random() < 0.25 and not req: return ['setref', e, pk, name, None, None]
        return ['setref', e, pk, name, t, rng.choice(pks_of(schema, t))]
    if k in ('add', 'remove'):
        name, t = rng.choice(colls[e])
        return [k, e, pk, name, t, rng.choice(pks_of(schema, t))]
    if k == 'delete': return ['delete', e, pk]
    return [k]

FRESH = [0]
POPULATED = {}      # (entity, pk, collection name) -> pks the population put there (what the generator aims its directed ops with)

def note_population(schema, population):
    POPULATED.clear()
    rev = {}
    for i, r in enumerate(schema['rels']):
        if r['kind'] == 'm2m': rev['r%da' % i] = (r['b'], 'r%db' % i); rev['r%db' % i] = (r['a'], 'r%da' % i)
        elif r['kind'] == 'symm': rev['r%da' % i] = (r['a'], 'r%da' % i)
    made = set()
    for op in population:
        made.add((op[1], op[2]))
        for name, ts in op[7]:
            if name not in rev: continue
            te, rname = rev[name]
            for t in ts:
                if (t[0], t[1]) not in made and (t[0], t[1]) != (op[1], op[2]): continue      # the target did not exist yet: the population skipped it
                POPULATED.setdefault((op[1], op[2], name), set()).add(t[1])
                POPULATED.setdefault((te, t[1], rname), set()).add(op[2])
    POPULATED['made'] = made

def gen_history(rng, schema, n):
    FRESH[0] = 0
    hist = []
    for _ in range(n):
        r = rng.random()
        if r < 0.66:
            hist.append(gen_obs(rng, schema))
            if hist[-1][0] in ('contains', 'empty', 'count') and rng.random() < 0.5: hist.append(list(hist[-1]))     # the cached shortcut of the second call
        elif r < 0.92: hist.append(gen_mod(rng, schema))
        else: hist.append([rng.choice(['end', 'end', 'end_rollback'])])
    hist.append(['end'])
    tail = len(hist)
    for _ in range(rng.choice([4, 8, 12])):                                        # read-only tail (the model tie runs here)
        hist.append(gen_obs(rng, schema))
        if hist[-1][0] in ('contains', 'empty', 'count') and rng.random() < 0.5: hist.append(list(hist[-1]))
    hist.append(['end'])
    return hist, tail


# ------------------------------------------------------------------------------------------------ model tie
DECISIONS = {}      # (what, sorted args) -> Bool, filled from the driver at the start of a run

def load_decisions(ctx):
    DECISIONS.clear()
    if not ctx.driver.ok: return
    reqs = []
    for what, names in (('prefetching', ('lazy', 'thresholdSet', 'counterReached')), ('batchSkips', ('same', 'createdOrDeleted', 'hasSd', 'full')),
                        ('partialLoad', ('hasItems', 'lazy', 'sdNonEmpty'))):
        for vals in itertools.product([False, True], repeat=len(names)):
            reqs.append(dict(zip(names, vals), op='decide', what=what))
    outs = ctx.driver('C23', reqs)
    for r, o in zip(reqs, outs):
        if 'r' in o: DECISIONS[(r['what'],) + tuple(sorted((k, v) for k, v in r.items() if k not in ('op', 'what')))] = o['r']

def decision(what, **kw):
    key = (what,) + tuple(sorted(kw.items()))
    if key in DECISIONS: return DECISIONS[key]
    # driver unavailable: the rule as read from Set.load (the tie is not evaluated in that case anyway)
    if what == 'prefetching': return (not kw['lazy']) and kw['thresholdSet'] and kw['counterReached']
    if what == 'batchSkips': return kw['same'] or kw['createdOrDeleted'] or (kw['hasSd'] and kw['full'])
    return kw['hasItems'] and (kw['lazy'] or not kw['sdNonEmpty'])

CONTAINER = {'seen': 0, 'untracked': []}      # container values found loaded in real sessions / those that are NOT tracked wrappers
PENDING = []
LOADERS = []        # (driver request, real vals after, real sets after, description)
LAZYREF_KEY = 'lazy-reference:one-to-many-collection-loads-empty'
LAZYREF_WHAT = ('a one-to-many collection whose reverse reference attribute is declared lazy=True loads as EMPTY (and is_empty() is True, count() 0): the batch-load / is_empty SELECT '
                'leaves the lazy reference column out, so _db_set_ never links the fetched rows to the collection, which is then marked fully loaded')
COUNT_KEY = 'm2m-flush:added-removed-not-reset-on-second-side'
COUNT_WHAT = ('after a FLUSH of a changed many-to-many collection the second side keeps its setdata.added / removed (_calc_modified_m2m resets them only for the side it processes '
              'first: `if reverse in modified_m2m: continue`): SetInstance.count() then subtracts / adds them AGAIN (e.g. -1 after the only item was removed, while a prefetched / fully '
              'loaded collection says 0), and a later batch load of that side can raise UnrepeatableReadError')

class Tie(object):
    """snapshot / driver requests / coherence check for the read-only tail of one run"""
    def __init__(self, ctx, schema, strategy, population=None, hist=None, tail=0):
        self.ctx = ctx; self.schema = schema; self.strategy = strategy
        self.population = population; self.hist = hist; self.tail = tail; self.done = []; self.probes = 0      # the reads of the tail executed so far
        self.requests = []        # (request, real answer, real how, real set after, description)
        self.ok = all(e['pk'] == 'int' and not e.get('sub') for e in schema['ents'])
    def oid(self, e, pk): return e * 1000 + pk
    def begin(self, w, path):
        self.world_classes = w.classes
        if not self.ok: return
        # raw database contents -> model Db
        self.attr_index = {}
        con = sqlite3.connect(path)
        try:
            self.objs = []; self.dbvals = {}; self.dbcolls = {}
            for e, cls in enumerate(w.classes):
                names = [a for a in cls._attrs_ if not a.is_collection and a.columns and not a.is_pk]
                cols = ', '.join('"%s"' % a.columns[0] for a in names)
                for row in con.execute('select "id"%s from "%s"' % (', ' + cols if cols else '', cls._table_)):
                    o = self.oid(e, row[0]); self.objs.append(o)
                    for a, v in zip(names, row[1:]):
                        if a.reverse: v = None if v is None else self.oid(w.classes.index(a.py_type), v)
                        elif a.name in ('j', 'arr'): v = None if v is None else zlib.crc32(json.dumps(json.loads(v), sort_keys=True).encode()) % 100000
                        elif isinstance(v, str): v = {'x': 101, 'yy': 102, 'zz': 103, 'n': 104}.get(v, 199)
                        self.dbvals[(o, self.aidx(cls, a))] = v
            self.objs.sort()
            for e, cls in enumerate(w.classes):
                for a in cls._attrs_:
                    rev = a.reverse
                    if rev is None: continue
                    te = w.classes.index(a.py_type)
                    if a.is_collection and not rev.is_collection:
                        col = rev.columns[0]
                        for tid, oid_ in con.execute('select "id", "%s" from "%s" where "%s" is not null' % (col, a.py_type._table_, col)):
                            self.dbcolls.setdefault((self.oid(e, oid_), self.aidx(cls, a)), []).append(self.oid(te, tid))
                    elif a.is_collection and rev.is_collection:
                        own = a.reverse_columns[0] if a.symmetric else rev.columns[0]
                        other = a.columns[0]
                        for x, y in con.execute('select "%s", "%s" from "%s"' % (own, other, a.table)):
                            self.dbcolls.setdefault((self.oid(e, x), self.aidx(cls, a)), []).append(self.oid(te, y))
                            if a.symmetric: self.dbcolls.setdefault((self.oid(e, y), self.aidx(cls, a)), []).append(self.oid(te, x))
                    elif not a.is_collection and not a.columns:
                        # one-to-one side without a column: the value is the row that points here
                        col = rev.columns[0]
                        for tid, oid_ in con.execute('select "id", "%s" from "%s" where "%s" is not null' % (col, a.py_type._table_, col)):
                            self.dbvals[(self.oid(e, oid_), self.aidx(cls, a))] = self.oid(te, tid)
        finally: con.close()
    def aidx(self, cls, a):
        # globally unique attribute number: entity * 100 + position in the entity's attribute list
        return 100 * (1 + self.world_classes.index(cls._root_)) + [x.name for x in cls._root_._attrs_].index(a.name)
    def session_snapshot(self, w):
        vals = []; sets = []
        for obj in w.db._get_cache().objects:
            if obj._status_ not in ('loaded', 'inserted', 'updated'): continue
            cls = type(obj); o = self.oid(w.classes.index(cls), obj.id)
            for a, v in obj._vals_.items():
                if a.is_pk: continue
                if a.is_collection:
                    if v is None: continue
                    sets.append([o, self.aidx(cls, a), sorted(self.oid(w.classes.index(type(x)), x.id) for x in v), bool(v.is_fully_loaded), v.count,
                                 sorted(self.oid(w.classes.index(type(x)), x.id) for x in (v.absent or ()))])
                else:
                    if isinstance(v, core.Entity): v = self.oid(w.classes.index(type(v)), v.id)
                    elif a.name in ('j', 'arr'):
                        if v is not None:
                            CONTAINER['seen'] += 1
                            if not hasattr(v, 'get_untracked'): CONTAINER['untracked'].append((self.strategy, o, a.name))
                            v = zlib.crc32(json.dumps(v.get_untracked() if hasattr(v, 'get_untracked') else v, sort_keys=True).encode()) % 100000
                    elif isinstance(v, str): v = {'x': 101, 'yy': 102, 'zz': 103, 'n': 104}.get(v, 199)
                    vals.append([o, self.aidx(cls, a), v])
        return vals, sets
    def coherent(self, w, op):
        vals, sets = self.session_snapshot(w)
        for o, a, v in vals:
            self.ctx.count('coherent:value')
            if self.dbvals.get((o, a)) != v:
                self.ctx.divergence('the real session holds a value that is not the database\'s (model invariant Coherent)', {'schema': self.schema, 'strategy': self.strategy, 'after': op, 'obj': o, 'attr': a},
                                    model=self.dbvals.get((o, a)), impl=v)
        for o, c, items, full, count, absent in sets:
            self.ctx.count('coherent:set-full' if full else 'coherent:set-partial')
            truth = sorted(set(self.dbcolls.get((o, c), [])))
            bad = (not set(items) <= set(truth)) or (full and items != truth) or (count is not None and count != len(truth)) or (set(absent) & set(truth))
            if bad:
                cls = w.classes[o // 1000]; attr = [a for a in cls._attrs_ if self.aidx(cls, a) == c][0]
                if full and not items and truth and not attr.reverse.is_collection and attr.reverse.lazy:
                    self.ctx.violation(LAZYREF_WHAT, {'schema': self.schema, 'strategy': self.strategy, 'after': op, 'owner': o, 'collection': attr.name, 'database': truth},
                                       observed=[items, full, count], expected=truth, key=LAZYREF_KEY)
                else:
                    self.ctx.divergence('the real SetData disagrees with the database (model invariant Coherent)', {'schema': self.schema, 'strategy': self.strategy, 'after': op, 'obj': o, 'attr': c},
                                        model=truth, impl=[items, full, count, absent])
                    if self.probes < 3:
                        self.probes += 1
                        self.probe(w, op, o, attr, truth, None)
    def probe(self, w, op, o, attr, truth, kind_hint):
        """a coherence failure of the real session is turned into what a program OBSERVES: the public read of the offending collection in this
        read-only session over an unchanged database, against the database"""
        cls = w.classes[o // 1000]
        try:
            obj = cls.get(id=o % 1000)
            wrapper = getattr(obj, attr.name)
            seen = {'count': wrapper.count(), 'is_empty': wrapper.is_empty(), 'items': sorted(self.oid(w.classes.index(type(x)), x.id) for x in wrapper)}
        except Exception as e:
            seen = {'raised': type(e).__name__}
        exp = {'count': len(truth), 'is_empty': not truth, 'items': truth}
        if seen != exp:
            e = w.classes.index(cls)
            reads = [['count', e, o % 1000, attr.name], ['empty', e, o % 1000, attr.name], ['coll', e, o % 1000, attr.name]]
            relkind = 'm2m' if attr.reverse.is_collection else 'o2m'
            self.ctx.violation('in a read-only session over an unchanged database a collection read through the public API disagrees with the database after the loading '
                               'actions of this strategy (count / is_empty / contents): the data observed depends on what was loaded before',
                               {'schema': self.schema, 'population': self.population, 'history': (self.hist or [])[:self.tail] + self.done + reads, 'strategy': self.strategy,
                                'owner': o, 'collection': attr.name}, observed=seen, expected=exp,
                               key='coherence:%s:%s:%s' % (self.strategy, relkind, '+'.join(k for k in exp if seen.get(k) != exp[k]) or 'raised'))
            return True
        return False
    def op(self, w, op):
        """execute one read with the model request prepared from the state before it"""
        self.done.append(list(op))
        k = op[0]
        if self.ok and k == 'nav':
            try:
                o0 = w.fetch(op[1], op[2])
                t = None if o0 is None else getattr(o0, op[3])
            except Exception: t = None
            if t is None: return exec_op(w, op)
            self.done.pop()
            r = self.op(w, ['attr', w.eidx(t), w.pkof(t), op[4]])        # the target is in the identity map: fetch() finds it without a query
            self.done[-1] = list(op)
            return ['ok', r[1]] if r[0] == 'ok' else r
        if not self.ok or k not in ('attr', 'coll', 'count', 'empty', 'len', 'contains'):
            r = exec_op(w, op)
            if self.ok: self.coherent(w, op)
            return r
        try:
            o = w.fetch(op[1], op[2])
            x = w.fetch(op[4], op[5]) if k == 'contains' else None
        except Exception:
            return exec_op(w, op)
        if o is None or (k == 'contains' and x is None): return exec_op(w, op)
        cls = type(o); attr = getattr(cls, op[3])
        oid = self.oid(op[1], op[2]); ai = self.aidx(cls, attr)
        vals, sets = self.session_snapshot(w)
        t = {'attr': 'attr', 'coll': 'items', 'count': 'count', 'empty': 'isEmpty', 'len': 'len', 'contains': 'contains'}[k]
        read = {'t': t, 'o': oid, 'a': ai}
        via_reverse = False
        if k == 'contains':
            xi = self.oid(op[4], op[5])
            if not attr.reverse.is_collection:
                read = {'t': 'attr', 'o': xi, 'a': self.aidx(type(x), attr.reverse)}     # `item._vals_[reverse]` / `reverse.load(item)`
            else:
                read['i'] = xi
                sd = o._vals_.get(attr); rsd = x._vals_.get(attr.reverse)
                via_reverse = sd is None and rsd is not None and rsd.is_fully_loaded
        loader = self.predict_loader(w, k, o, attr, oid, ai)
        n0 = w.selects()
        try: r = do_read(w, op, o, x)
        except Exception as e: r = ['exc', type(e).__name__]
        loaded = w.selects() > n0
        if loader is not None and r[0] == 'ok':
            vals2, sets2 = self.session_snapshot(w)
            lreq = {'op': 'loader', 'objs': self.objs, 'dbvals': [[o_, a_, v] for (o_, a_), v in self.dbvals.items()],
                    'dbcolls': [[o_, c_, sorted(set(l))] for (o_, c_), l in self.dbcolls.items()], 'vals': vals, 'sets': sets,
                    'rowAttrs': loader.pop('rowAttrs'), 'revColl': self.rev_coll(w), 'revOne': self.rev_one(w), 'revM2M': self.rev_m2m(w), 'loader': loader,
                    'setkeys': sorted(set((s_[0], s_[1]) for s_ in sets2) | set((s_[0], s_[1]) for s_ in sets))}
            LOADERS.append((lreq, vals2, sets2, {'op': op, 'strategy': self.strategy, 'loader': dict(loader), 'schema': self.schema}))
        sd = o._vals_.get(attr) if attr.is_collection else None
        after = None if sd is None else [sorted(self.oid(w.classes.index(type(i)), i.id) for i in sd), bool(sd.is_fully_loaded), sd.count]
        req = {'op': 'read', 'objs': self.objs, 'dbvals': [[o_, a_, v] for (o_, a_), v in self.dbvals.items()],
               'dbcolls': [[o_, c_, sorted(set(l))] for (o_, c_), l in self.dbcolls.items()], 'vals': vals, 'sets': sets, 'read': read}
        self.requests.append((req, r, loaded, after, {'op': op, 'strategy': self.strategy, 'kind': k, 'via_reverse': via_reverse,
                                                      'ref_contains': k == 'contains' and not attr.reverse.is_collection, 'owner': oid}))
        self.coherent(w, op)
        return r
    def rev_coll(self, w):
        out = []
        for cls in w.classes:
            for a in cls._attrs_:
                if a.reverse is not None and not a.is_collection and a.reverse.is_collection and a.columns:
                    out.append([self.aidx(cls, a), self.aidx(a.reverse.entity, a.reverse)])
        return out
    def rev_one(self, w):
        return [[self.aidx(cls, a), self.aidx(a.reverse.entity, a.reverse)] for cls in w.classes for a in cls._attrs_
                if a.reverse is not None and not a.is_collection and not a.reverse.is_collection and a.columns]
    def rev_m2m(self, w):
        return [[self.aidx(cls, a), self.aidx(a.reverse.entity, a.reverse)] for cls in w.classes for a in cls._attrs_
                if a.is_collection and a.reverse.is_collection]
    def row_attrs(self, w, extra=None):
        """object -> the column attributes a full row fetch brings: the non-lazy ones (plus the reference the rows are selected by)"""
        out = []
        for o in self.objs:
            cls = w.classes[o // 1000]
            out.append([o, [self.aidx(cls, a) for a in cls._attrs_ if not a.is_collection and a.columns and not a.is_pk and (not a.lazy or a is extra)]])
        return out
    def predict_loader(self, w, k, o, attr, oid, ai):
        """which concrete loader the read is going to run (None: it is answered from the session, or the path is not modelled)"""
        cache = w.db._get_cache()
        cls = type(o)
        if k == 'attr':
            if attr in o._vals_ or attr.is_collection or not attr.columns: return None
            if attr.lazy: return {'t': 'lazy', 'o': oid, 'a': ai, 'rowAttrs': self.row_attrs(w)}
            seeds = sorted(self.oid(w.classes.index(type(x)), x.id) for x in cache.seeds[cls._pk_attrs_] if x is not o)
            return {'t': 'rows', 'os': [oid] + seeds, 'rowAttrs': self.row_attrs(w)}
        if k in ('coll', 'len'):
            sd = o._vals_.get(attr)
            if sd is not None and sd.is_fully_loaded: return None
            counter = cache.collection_statistics.get(attr, 0)
            th = attr.nplus1_threshold
            owners = [oid]
            # the two decisions are taken by the functions REGENERATED from Set.load (Gen.LoadDecisions, through the driver)
            if decision('prefetching', lazy=bool(attr.lazy), thresholdSet=th is not None, counterReached=th is not None and counter >= th):
                for obj2 in cache.indexes[cls._pk_attrs_].values():
                    sd2 = obj2._vals_.get(attr)
                    if decision('batchSkips', same=obj2 is o, createdOrDeleted=obj2._status_ in core.created_or_deleted_statuses,
                                hasSd=sd2 is not None, full=bool(sd2 is not None and sd2.is_fully_loaded)): continue
                    owners.append(self.oid(w.classes.index(type(obj2)), obj2.id))
            rev = attr.reverse
            if rev.is_collection: return {'t': 'collLinks', 'owners': owners, 'c': ai, 'rowAttrs': self.row_attrs(w)}
            return {'t': 'collRows', 'owners': owners, 'c': ai, 'rowAttrs': self.row_attrs(w, extra=rev)}
        return None
    def check(self):
        PENDING.extend(self.requests); self.requests = []
    @staticmethod
    def flush_loaders(ctx):
        """the whole real session after a loading read = Model.Loading.applyLoader on the snapshot before it"""
        if not LOADERS or not ctx.driver.ok:
            del LOADERS[:]; return
        reqs = list(LOADERS); del LOADERS[:]
        outs = ctx.driver('C23', [r[0] for r in reqs])
        for (req, vals2, sets2, d), out in zip(reqs, outs):
            if 'driver_error' in out:
                ctx.divergence('driver error (loader)', d, model=out, impl=None); continue
            ctx.count('tie:loader:' + d['loader']['t'])
            keys = set((x[0], x[1]) for x in req['dbvals'])
            real_vals = sorted([o_, a_, v] for o_, a_, v in vals2 if (o_, a_) in keys)
            model_vals = sorted(out['vals'])
            real_sets = sorted([o_, c_, items, full, count] for o_, c_, items, full, count, absent in sets2)
            model_sets = sorted(out['sets'])
            if d['loader']['t'] in ('collRows', 'collLinks') and len(d['loader']['owners']) > 1: ctx.count('tie:loader:batch-of-owners')
            if real_vals != model_vals:
                dv = [x for x in real_vals if x not in model_vals][:4]; dm = [x for x in model_vals if x not in real_vals][:4]
                ctx.divergence('loaded column values after a loading read: the real session and Model.Loading.applyLoader differ', d, model=dm, impl=dv)
            elif real_sets != model_sets:
                ds = [x for x in real_sets if x not in model_sets][:4]; dm = [x for x in model_sets if x not in real_sets][:4]
                ctx.divergence('collections after a loading read: the real session and Model.Loading.applyLoader differ', d, model=dm, impl=ds)
    @staticmethod
    def flush_pending(ctx):
        Tie.flush_loaders(ctx)
        if not PENDING or not ctx.driver.ok:
            del PENDING[:]; return
        outs = ctx.driver('C23', [r[0] for r in PENDING])
        reqs = list(PENDING); del PENDING[:]
        for (req, real, loaded, after, d), out in zip(reqs, outs):
            if 'driver_error' in out:
                ctx.divergence('driver error', d, model=out, impl=real); continue
            ans = out['ans']; k = d['kind']
            m = ans.get('val') if 'val' in ans else ans.get('bool') if 'bool' in ans else ans.get('nat') if 'nat' in ans else ans.get('rows')
            rv = real[1] if real[0] == 'ok' else real
            if isinstance(rv, list) and rv and rv[0] == 'obj': rv = rv[1] * 1000 + rv[2]
            elif isinstance(rv, str): rv = {'x': 101, 'yy': 102, 'zz': 103, 'n': 104}.get(rv, 199)
            if d['ref_contains']: m = (m == d['owner'])
            if k == 'coll' and isinstance(m, list): m = sorted(x % 1000 for x in m)
            ctx.count('tie:%s:%s' % (k, out['how']))
            if m != rv:
                ctx.divergence('a read on the real session and Model.Loading.read on its snapshot give different answers', d, model=m, impl=rv); continue
            if d['via_reverse']:
                ctx.count('tie:contains-via-reverse-shortcut(not modelled)'); continue
            if (out['how'] == 'loaded') != loaded:
                ctx.divergence('model and code disagree on whether the read had to load', d, model=out['how'], impl='loaded' if loaded else 'cached'); continue
            if k in ('coll', 'len', 'count', 'empty') and out.get('set') is not None and after is not None:
                ms = out['set']
                same = (ms['full'] == after[1] and ms['count'] == after[2] and len(ms['items']) == len(after[0]) and (ms['items'] == after[0] or k == 'empty'))
                if not same:
                    ctx.divergence('SetData after the read differs between model and code', d, model=ms, impl=after)


# ------------------------------------------------------------------------------------------------ the oracle

def run_all(ctx, schema, population, hist, tail, base, with_tie=True):
    logs = {}; sel = {}; ties = []
    for st in STRATEGIES:
        if st == 'lazyref' and (DEFECT['lazyref'] or DEFECT['reassign']) and any(r['kind'] == 'm2o' for r in schema['rels']):
            # every one-to-many collection loads empty under this strategy (reported by the witness on every run): nothing below it can be compared
            ctx.count('lazyref-not-compared:lazy-reference-defect-present'); continue
        tie = None
        if with_tie:
            t = Tie(ctx, schema, st, population, hist, tail); ties.append(t)
            tie = {'start': tail, 'begin': t.begin, 'op': t.op}
        logs[st], sel[st] = run_history(schema, population, hist, st, base, tie)
    return logs, sel, ties

def first_diff(logs):
    ref = logs['default']
    for st in STRATEGIES[1:]:
        if st in logs and logs[st] != ref:
            i = next((i for i, (a, b) in enumerate(zip(ref, logs[st])) if a != b), min(len(ref), len(logs[st])))
            return st, i
    return None

def ddmin(items, test):
    n = 2
    while len(items) >= 2:
        chunk = max(1, len(items) // n)
        subsets = [items[i:i + chunk] for i in range(0, len(items), chunk)]
        reduced = False
        for i in range(len(subsets)):
            comp = [s for j, sub in enumerate(subsets) if j != i for s in sub]
            if comp and test(comp):
                items = comp; n = max(n - 1, 2); reduced = True; break
        if not reduced:
            if chunk == 1: break
            n = min(n * 2, len(items))
    return items

def op_key(op):
    return op[0]

def report(ctx, schema, population, hist, base, d):
    st0 = d[0]
    def fails(pop, h):
        if not populate(schema, pop, base): return False
        lg = {}
        for st in ('default', st0): lg[st], _ = run_history(schema, pop, h, st, base)
        return lg['default'] != lg[st0]
    h = ddmin(hist, lambda hh: fails(population, hh))
    pop = ddmin(population, lambda pp: fails(pp, h)) if len(population) > 1 else population
    h = ddmin(h, lambda hh: fails(pop, hh))
    populate(schema, pop, base)
    lg = {}
    for st in ('default', st0): lg[st], _ = run_history(schema, pop, h, st, base)
    i = next((i for i, (a, b) in enumerate(zip(lg['default'], lg[st0])) if a != b), -1)
    kinds = sorted(set(schema['rels'][int(o[3][1:-1])]['kind'] for o in h if len(o) > 3 and isinstance(o[3], str) and o[3].startswith('r') and o[3][1:-1].isdigit()))
    key = 'loading:%s:%s:%s' % (st0, '>'.join(op_key(o) for o in h if o[0] != 'end'), '+'.join(kinds))
    what = 'the %s loading strategy changes what the program observes (step %d of the minimal history)' % (st0, i)
    last = h[i] if 0 <= i < len(h) else ['?']
    if st0 == 'lazyref' and last[0] in ('coll', 'count', 'empty', 'len', 'contains', 'itercoll', 'itercount', 'collload') and 'm2o' in kinds + ['m2o' if any(r['kind'] == 'm2o' for r in schema['rels']) else '']:
        key, what = LAZYREF_KEY, LAZYREF_WHAT
    elif DEFECT['selflink'] and any(r['kind'] == 'symm' for r in schema['rels']) and any(o[0] == 'add' and o[1] == o[4] and o[2] == o[5] for o in h[:i + 1]):
        key, what = SELFLINK_KEY, SELFLINK_WHAT      # a minimal history that adds an object to its own symmetric collection
    elif DEFECT['reassign'] and any(o[0] in ('setref', 'navsetref') for o in h[:i + 1]) and any(r['kind'] == 'm2o' for r in schema['rels']) and (st0 == 'lazyref' or any(o[0] == 'navsetref' for o in h)):
        key, what = REASSIGN_KEY, REASSIGN_WHAT
    elif DEFECT['count'] and any(o[0] in ('delete', 'remove', 'add', 'create') for o in h[:i + 1]) and any(r['kind'] in ('m2m', 'symm') for r in schema['rels']):
        key, what = COUNT_KEY, COUNT_WHAT      # every step of the minimal history is needed: a many-to-many change, a flush, a read of the other side
    ctx.violation(what,
                  {'schema': schema, 'population': pop, 'history': h, 'strategy': st0},
                  observed={st0: lg[st0][i] if 0 <= i < len(lg[st0]) else None}, expected={'default': lg['default'][i] if 0 <= i < len(lg['default']) else None}, key=key)


DEFECT = {'lazyref': False, 'count': False, 'reassign': False, 'selflink': False}
SELFLINK_KEY = 'symmetric-self-link:count-double-counted'
SELFLINK_WHAT = ('adding an object to its OWN symmetric collection counts it twice: SetInstance.add lets reverse_add() put the item into this very collection (count += 1) and then adds '
                 'len(new_items) again, so count() says 2 for a collection with one item — until the collection is loaded again (prefetch, a new session)')
REASSIGN_KEY = 'unloaded-reference-reassign:old-owner-collection-stale'
REASSIGN_WHAT = ('assigning a many-to-one reference whose current value is NOT LOADED (the object is a seed known by its primary key only, or the attribute is lazy) does not load the old '
                 'value (Attribute.__set__ loads it only when the reverse is not a collection), so the previous owner\'s collection is not updated: its cached count() / is_empty() / '
                 'fully loaded items still include the object, although the same program with the reference loaded sees it removed')

def witnesses(ctx):
    """the two defects confirmed while building the check, replayed on every run on fixed minimal programs"""
    db = Database()
    class G(db.Entity):
        ps = Set('P')
    class P(db.Entity):
        g = Optional(G, lazy=True)
    db.bind('sqlite', ':memory:'); db.generate_mapping(create_tables=True)
    with db_session:
        g = G(); P(g=g); P(g=g)
    with db_session: items = sorted(p.id for p in G[1].ps)
    with db_session: empty = G[1].ps.is_empty()
    db.disconnect()
    ctx.case(['witness', 'lazy-reference'], kind='witness:lazy-reference')
    DEFECT['lazyref'] = (items != [1, 2] or empty)
    if DEFECT['lazyref']:
        ctx.violation(LAZYREF_WHAT, {'program': "class G: ps = Set('P'); class P: g = Optional(G, lazy=True); g = G(); P(g=g); P(g=g); commit; new session: G[1].ps ; G[1].ps.is_empty()"},
                      observed={'items': items, 'is_empty': empty}, expected={'items': [1, 2], 'is_empty': False}, key=LAZYREF_KEY)
    db = Database()
    class A(db.Entity):
        bs = Set('B')
    class B(db.Entity):
        as_ = Set(A)
    db.bind('sqlite', ':memory:'); db.generate_mapping(create_tables=True)
    with db_session:
        a = A(); b = B(as_=[a])
    with db_session:
        a = A[1]; b = B[1]; b.as_.remove(a); flush(); cnt = b.as_.count(); n = len(b.as_)
        rollback()
    db.disconnect()
    ctx.case(['witness', 'm2m-count'], kind='witness:m2m-count-after-flush')
    DEFECT['count'] = cnt != n
    if DEFECT['count']:
        ctx.violation(COUNT_WHAT, {'program': "class A: bs = Set('B'); class B: as_ = Set(A); a = A(); b = B(as_=[a]); commit; new session: B[1].as_.remove(A[1]); flush(); B[1].as_.count()"},
                      observed={'count': cnt}, expected={'count': n}, key=COUNT_KEY)


def witness_reassign(ctx):
    db = Database()
    class G(db.Entity):
        ps = Set('P')
    class P(db.Entity):
        g = Optional(G)
        q = Optional('Q')
    class Q(db.Entity):
        p = Required(P)
    db.bind('sqlite', ':memory:'); db.generate_mapping(create_tables=True)
    with db_session:
        g1 = G(); g2 = G(); p = P(g=g1); q = Q(p=p)
    out = {}
    for loaded in (True, False):
        with db_session:
            g1 = G[1]; n0 = g1.ps.count()
            p = Q[1].p                      # a seed: P[1] known by its primary key only
            if loaded: p.load()
            p.g = G[2]
            out[loaded] = [n0, g1.ps.count(), g1.ps.is_empty()]
            rollback()
    db.disconnect()
    ctx.case(['witness', 'reassign-unloaded-reference'], kind='witness:reassign-unloaded-reference')
    DEFECT['reassign'] = out[True] != out[False]
    if DEFECT['reassign']:
        ctx.violation(REASSIGN_WHAT, {'program': "G: ps = Set('P'); P: g = Optional(G), q = Optional('Q'); Q: p = Required(P); g1.ps.count(); p = Q[1].p [; p.load()]; p.g = G[2]; g1.ps.count(), g1.ps.is_empty()"},
                      observed={'reference not loaded': out[False]}, expected={'reference loaded first': out[True]}, key=REASSIGN_KEY)


def witness_selflink(ctx):
    db = Database()
    class N(db.Entity):
        friends = Set('N', reverse='friends')
    db.bind('sqlite', ':memory:'); db.generate_mapping(create_tables=True)
    with db_session:
        N()
    with db_session:
        n = N[1]; c0 = n.friends.count(); n.friends.add(n)
        got = [c0, n.friends.count(), len(n.friends)]
        rollback()
    db.disconnect()
    ctx.case(['witness', 'symmetric-self-link'], kind='witness:symmetric-self-link')
    DEFECT['selflink'] = got != [0, 1, 1]
    if DEFECT['selflink']:
        ctx.violation(SELFLINK_WHAT, {'program': "class N: friends = Set('N', reverse='friends'); n = N[1]; n.friends.count(); n.friends.add(n); n.friends.count(); len(n.friends)"},
                      observed=got, expected=[0, 1, 1], key=SELFLINK_KEY)


def corpus(ctx, base):
    """minimised past failures (harness/corpus/C23/*.json), replayed first on every run under all strategies"""
    d = os.path.join(ponyutil.ROOT, 'harness', 'corpus', 'C23')
    if not os.path.isdir(d): return
    for name in sorted(os.listdir(d)):
        if not name.endswith('.json'): continue
        c = json.load(open(os.path.join(d, name)))
        ctx.case(['corpus', name], kind='corpus')
        if not populate(c['schema'], c['population'], base):
            ctx.divergence('a corpus entry can no longer be populated', {'entry': name}, model='populates', impl='rejected'); continue
        logs, sel, _ = run_all(ctx, c['schema'], c['population'], c['history'], len(c['history']), base, with_tie=False)
        diff = first_diff(logs)
        if diff is not None:
            st0, i = diff
            ctx.violation('regression of a recorded failure (%s): the %s strategy observes something else than the default one' % (c.get('what', name), st0),
                          {'schema': c['schema'], 'population': c['population'], 'history': c['history'], 'strategy': st0, 'corpus': name},
                          observed={st0: logs[st0][i] if i < len(logs[st0]) else None}, expected={'default': logs['default'][i] if i < len(logs['default']) else None},
                          key=c.get('key') or 'corpus:' + name)


def run(ctx):
    rng = ctx.rng
    for wfn in (witnesses, witness_reassign, witness_selflink):
        try: wfn(ctx)
        except Exception as e:
            ctx.violation('a fixed minimal program of the check (%s) raised %s on this tree: %s' % (wfn.__name__, type(e).__name__, str(e)[:160]),
                          {'program': wfn.__name__}, observed=type(e).__name__, expected='completes', key='witness-raised:%s:%s' % (wfn.__name__, type(e).__name__))
    load_decisions(ctx)
    ctx.count('decisions-from-source', len(DECISIONS))
    work = ponyutil.workdir('c23')
    base = os.path.join(work, 'base.sqlite')
    try:
        try: corpus(ctx, base)
        except Exception as e:
            ctx.divergence('the corpus replay raised %s: %s' % (type(e).__name__, str(e)[:200]), {'where': 'corpus'}, model='completes', impl=traceback.format_exc()[-500:])
        n = ctx.scale(180, 1500)
        found = 0
        base_keys = len(ctx.violations) + len(ctx.known_hits)
        for it in range(n):
            for attempt in range(20):
                schema = gen_schema(rng, simple=(it % 2 == 0))       # every other schema is one the model tie covers (single int keys, no inheritance)
                population = gen_population(rng, schema)
                if populate(schema, population, base): break
                ctx.count('population-rejected')
            else: continue
            note_population(schema, population)
            hist, tail = gen_history(rng, schema, rng.choice([6, 12, 20]))
            try:
                logs, sel, ties = run_all(ctx, schema, population, hist, tail, base)
            except Exception as e:
                # the harness itself could not finish this history on this tree (an exception escaped Pony in a place the harness reads internal state)
                ctx.count('history-aborted')
                ctx.divergence('the harness could not complete a history: %s: %s' % (type(e).__name__, str(e)[:200]), {'schema': schema, 'population': population, 'history': hist},
                               model='history completes', impl=traceback.format_exc()[-600:])
                continue
            ctx.case({'schema': schema, 'history': hist[:5], 'len': len(hist)}, kind='oracle:five-strategies')
            for op, r in zip(hist, logs['default']):
                ctx.count('op:' + op[0]); ctx.count('outcome:' + r[0])
            for r in schema['rels']: ctx.count('rel:' + r['kind'])
            for st in sel: ctx.count('selects:' + st, sel[st])
            for t in ties: t.check()
            if len(PENDING) > 1500: Tie.flush_pending(ctx)
            d = first_diff(logs)
            if d is not None:
                found += 1
                if found <= 30 and len(ctx.violations) + len(ctx.known_hits) - base_keys < 5: report(ctx, schema, population, hist, base, d)
        ctx.count('histories', n)
        Tie.flush_pending(ctx)
        flush_merges(ctx)
        ctx.count('tie:container-values-loaded', CONTAINER['seen'])
        for strategy, o, name in CONTAINER['untracked'][:5]:
            ctx.divergence('a Json / array value loaded into the real session is a plain container, not a tracked one bound to its object (model: every loading path binds)',
                           {'strategy': strategy, 'object': o, 'attr': name}, model='tracked container', impl='plain dict / list')
        CONTAINER['seen'] = 0; del CONTAINER['untracked'][:]
    finally:
        ponyutil.rmtree(work)


def replay(ctx, data):
    inp = data.get('input') or {}
    if 'history' in inp and 'schema' in inp:
        work = ponyutil.workdir('c23r'); base = os.path.join(work, 'base.sqlite')
        try:
            populate(inp['schema'], inp['population'], base)
            logs, sel, _ = run_all(ctx, inp['schema'], inp['population'], inp['history'], len(inp['history']), base, with_tie=False)
            d = first_diff(logs)
            if d is not None:
                ctx.violation('a loading strategy changes what the program observes', inp, observed={d[0]: logs[d[0]][d[1]]}, expected={'default': logs['default'][d[1]]}, key=data.get('key'))
        finally: ponyutil.rmtree(work)
        return
    run(ctx)
