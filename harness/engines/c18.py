"""C18 — a db_session commits exactly when its body succeeds.

One program language (JSON, see lean/PonyVerif/Drive/C18.lean) is interpreted twice:
  * by the Lean model `PonyVerif.Model.DbSession.exec` (through the driver), and
  * by `Real.run` below against the REAL `db_session` decorator / context manager / generator wrapper, the real
    `pony.flask._enter_session/_exit_session` (flask import stub) and the real `PonyPlugin.apply` (bottle import stub),
    on an in-memory SQLite database opened through the tracing connection factory (commit faults are injected there).
Observed and compared: propagated exception (canonical name), database contents read by a fresh session, the trace of
body executions (`mark`) and of what each execution saw (`observe`), `local.db_context_counter`, `local.db_session`,
`local.db2cache`, number of executions of a decorated function.

Tie (ctx.divergence): model vs real on (a) the option grid of scripted bodies, (b) random nested programs.
Property oracle (ctx.violation): for the scripted scenarios the statement of C18 is evaluated directly on what the real
code did (see `oracle`), independent of the Lean model.
"""
import itertools, json, os, random, signal, sqlite3, sys, warnings

import ponyutil
ponyutil.add_stubs()
from tracing import Tracer

from pony.orm import Database, Required, PrimaryKey, Set, db_session, select, commit, rollback, flush
from pony.orm import core
from pony.orm.core import TransactionError, CommitException, PonyRuntimeWarning
import flask as flask_stub
import bottle as bottle_stub
import pony.flask as pony_flask
from pony.orm.integration import bottle_plugin

warnings.simplefilter('ignore', PonyRuntimeWarning)
warnings.filterwarnings('ignore', category=RuntimeWarning, message='coroutine .* was never awaited')


# ---------------------------------------------------------------------------------------------------------------------
# exception universe: name in the model <-> class in Python
# ---------------------------------------------------------------------------------------------------------------------
class U0(Exception): pass
class U1(U0): pass
class U2(Exception): pass
class U3(TransactionError): pass
class U4(BaseException): pass
class U5(Exception):
    should_retry = True                      # what `wrap_dbapi_exceptions` sets on a PostgreSQL serialization failure
class U9(Exception): pass                    # raised by a predicate callable

USER = {'u0': U0, 'u1': U1, 'u2': U2, 'u3': U3, 'u4': U4, 'u5': U5,
        'u6': bottle_stub.HTTPResponse, 'u7': bottle_stub.HTTPError, 'u9': U9, 'u100': CommitException}
PONY = {'retryInCM': TypeError, 'genBadOption': TypeError, 'ddlInsideNonDdl': TransactionError, 'serInsideNonSer': TransactionError,
        'ddlDecoratedInside': TransactionError, 'genInsideSession': TransactionError, 'genSuspendDirty': TransactionError,
        'noSession': TransactionError, 'generatorExit': GeneratorExit, 'assertion': AssertionError}
CLASS = dict(USER); CLASS.update(PONY)
UNIVERSE = sorted(CLASS)
RAISABLE = ['u0', 'u1', 'u2', 'u3', 'u4', 'u5', 'u6', 'u7']          # what scripted bodies raise
LISTABLE = {'U0': U0, 'U1': U1, 'U2': U2, 'U3': U3, 'U4': U4, 'U5': U5, 'HTTPResponse': bottle_stub.HTTPResponse,
            'HTTPError': bottle_stub.HTTPError, 'TransactionError': TransactionError, 'Exception': Exception,
            'CommitException': CommitException, 'TypeError': TypeError, 'BaseException': BaseException}
MESSAGES = [("only when used as decorator and not as context manager", 'retryInCM'),
            ("cannot be applied to generator function", 'genBadOption'),
            ("Cannot start ddl transaction inside non-ddl transaction", 'ddlInsideNonDdl'),
            ("Cannot start serializable transaction inside non-serializable transaction", 'serInsideNonSer'),
            ("cannot be called inside of another db_session", 'ddlDecoratedInside'),
            ("generator cannot be used inside another db_session", 'genInsideSession'),
            ("manually commit() changes before suspending the generator", 'genSuspendDirty'),
            ("db_session is required when working with the database", 'noSession')]


def canon_exc(e):
    """canonical model name of a real exception"""
    t = type(e)
    for name, cls in USER.items():
        if t is cls: return name
    if t is GeneratorExit: return 'generatorExit'
    if t is AssertionError: return 'assertion'
    if t in (TypeError, TransactionError):
        msg = str(e)
        for frag, name in MESSAGES:
            if frag in msg: return name
    return 'other:%s:%s' % (t.__name__, str(e)[:80])


def make_exc(name):
    cls = CLASS[name]
    if cls is CommitException: return CommitException('scripted', [])
    return cls('scripted ' + name)


def table_of_classes(names):
    classes = tuple(LISTABLE[n] for n in names)
    return {'yes': [x for x in UNIVERSE if issubclass(CLASS[x], classes)], 'raises': []}


TX = [x for x in UNIVERSE if issubclass(CLASS[x], TransactionError)]
SHOULD_RETRY = [x for x in UNIVERSE if getattr(CLASS[x], 'should_retry', False)]
REDIRECT = None     # what the real is_allowed_exception answers on the universe (evidence only)
RESP = [x for x in UNIVERSE if issubclass(CLASS[x], bottle_stub.HTTPResponse)]     # isinstance(e, HTTPResponse)
ERR = [x for x in UNIVERSE if issubclass(CLASS[x], bottle_stub.HTTPError)]         # isinstance(e, HTTPError)


class Suspend(object):
    """awaitable that suspends the coroutine once (what a Future does)"""
    def __init__(self, v): self.v = v
    def __await__(self):
        yield self.v


def pred_result(table, name):
    for a, b in table.get('raises', []):
        if a == name: return ('raises', b)
    return ('yes',) if name in table.get('yes', []) else ('no',)


FEATURES = {}


def feature(name):
    FEATURES[name] = FEATURES.get(name, 0) + 1


def callable_of_table(table, field='pred'):
    def pred(exc):
        r = pred_result(table, canon_exc(exc))
        if r[0] == 'raises':
            feature('branch:%s-callable-raised' % field)
            raise make_exc(r[1])
        feature('branch:%s-callable-%s' % (field, r[0]))
        return r[0] == 'yes'
    return pred


# ---------------------------------------------------------------------------------------------------------------------
# the real interpreter
# ---------------------------------------------------------------------------------------------------------------------
class Blocked(BaseException):
    """the watchdog fired: the program under test (or the cleanup after it) blocked — e.g. on the provider's
    transaction lock still held by a transaction an earlier session left open"""


class watchdog(object):
    """SIGALRM guard around a piece of real code (lock.acquire is interruptible in the main thread)"""
    def __init__(self, seconds): self.seconds = seconds
    def _fire(self, signum, frame): raise Blocked('blocked for more than %d s' % self.seconds)
    def __enter__(self):
        try:
            self.old = signal.signal(signal.SIGALRM, self._fire); signal.alarm(self.seconds); self.armed = True
        except ValueError: self.armed = False          # not in the main thread
    def __exit__(self, *a):
        if self.armed:
            signal.alarm(0); signal.signal(signal.SIGALRM, self.old)


class InvalidConfig(Exception):
    """db_session(**options) itself refused the options (constructor validation is not part of the model)"""


# writes of the second kind: changes of many-to-many links between EXISTING objects (no entity row is saved: at flush
# `cache.objects_to_save` is empty and only Attribute.add_m2m / remove_m2m statements run).  Encoded as write tags:
#   LINK_ADD + k     add the k-th initially absent (student, course) pair;   LINK_REMOVE + k   remove the k-th initial pair
LINK_ADD, LINK_REMOVE, NOBJ = 10000000, 20000000, 4
INITIAL_PAIRS = [(i, i) for i in range(1, NOBJ + 1)]
ABSENT_PAIRS = [(i, j) for i in range(1, NOBJ + 1) for j in range(1, NOBJ + 1) if i != j]


# writes of the third kind: UPDATE / DELETE of an EXISTING row (entity X, ids 1..NX, val 0 initially), and — for every kind
# of row write — an optional per-object `obj.flush()` right after it (`Entity.flush` saves just that object: it does not go
# through SessionCache.flush, so whether the statement runs inside the session's transaction depends on the
# `_exec_sql(..., start_transaction=True)` of `_save_created_` / `_save_updated_` / `_save_deleted_` alone)
X_UPDATE, X_DELETE, NX = 30000000, 40000000, 8


def x_tags(rows):
    """the X table (id, val) as the write tags that lead to it from the initial table"""
    have = dict(rows)
    return sorted([X_UPDATE + k for k in range(NX) if have.get(k + 1, 0) != 0] + [X_DELETE + k for k in range(NX) if (k + 1) not in have])


def link_tags(pairs):
    """the set of (student, course) links as the write tags that lead to it from the initial link table"""
    pairs = set(pairs)
    return sorted([LINK_ADD + k for k, pr in enumerate(ABSENT_PAIRS) if pr in pairs] +
                  [LINK_REMOVE + k for k, pr in enumerate(INITIAL_PAIRS) if pr not in pairs])


class Real(object):
    def __init__(self):
        self.tr = Tracer()
        self.dir = ponyutil.workdir('c18')
        self.path = os.path.join(self.dir, 'c18.sqlite')
        self.db = Database()
        @self.db.on_connect(provider='sqlite')
        def fast(db, connection):                       # file database without fsync: only speed, not semantics
            connection.execute('PRAGMA synchronous = OFF')
        self.db.bind('sqlite', self.path, create_db=True, **self.tr.bind_kwargs())
        class W(self.db.Entity):
            tag = Required(int)
        class Student(self.db.Entity):
            id = PrimaryKey(int)
            courses = Set('Course')
        class Course(self.db.Entity):
            id = PrimaryKey(int)
            students = Set(Student)
        class X(self.db.Entity):
            id = PrimaryKey(int)
            val = Required(int)
        self.W = W; self.Student = Student; self.Course = Course; self.X = X
        self.db.generate_mapping(create_tables=True)
        with db_session:
            for i in range(1, NOBJ + 1): Student(id=i); Course(id=i)
            for i in range(1, NX + 1): X(id=i, val=0)
        con = sqlite3.connect(self.path)
        try:
            self.link_table = [n for (n,) in con.execute("select name from sqlite_master where type='table'")
                               if n.lower() not in ('w', 'x', 'student', 'course')][0]
            cols = [r[1] for r in con.execute('pragma table_info("%s")' % self.link_table)]
            self.link_cols = (next(c for c in cols if 'student' in c.lower()), next(c for c in cols if 'course' in c.lower()))
        finally: con.close()
        self.app = flask_stub.Flask('c18')
        pony_flask.Pony(self.app)
        self.plugin = bottle_plugin.PonyPlugin()
        self.tr.before_call.append(self._hook)
        self.dirty = False; self.ncommit = 0; self.fail = []
        self.trace = []; self.keep = []; self.inner_exit_events = []

    # commit faults: the n-th connection commit that follows an INSERT fails (== the model's n-th real commit)
    def _hook(self, ev):
        if ev['call'] in ('execute', 'executemany') and ev['kind'] in ('insert', 'update', 'delete'): self.dirty = True
        elif ev['call'] == 'rollback': self.dirty = False
        elif ev['call'] == 'commit':
            if self.dirty:
                n = self.ncommit; self.ncommit += 1; self.dirty = False
                if n < len(self.fail) and self.fail[n] is not None:
                    ev['c18_injected'] = True
                    feature('branch:commit-fault-injected')
                    raise sqlite3.OperationalError('injected commit fault')

    def rows(self):
        """the database as a fresh db_session sees it (write tags)"""
        with db_session:
            r = sorted(t for _, t in select((w.id, w.tag) for w in self.W)[:])
            pairs = select((s.id, c.id) for s in self.Student for c in s.courses)[:]
            xs = select((x.id, x.val) for x in self.X)[:]
        return sorted(r + link_tags(pairs) + x_tags(xs))

    def independent_rows(self):
        """the committed state read through an independent connection (nothing of Pony involved)"""
        con = sqlite3.connect(self.path)
        try:
            tags = [r[0] for r in con.execute('select tag from W')]
            pairs = [tuple(r) for r in con.execute('select "%s", "%s" from "%s"' % (self.link_cols + (self.link_table,)))]
            xs = [tuple(r) for r in con.execute('select id, val from X')]
        finally: con.close()
        return sorted(tags + link_tags(pairs) + x_tags(xs))

    def close(self):
        try: self.db.disconnect()
        except Exception: pass
        ponyutil.rmtree(self.dir)

    def force_clean(self):
        """bring the thread and the connection back to a clean state WITHOUT relying on the code under test:
        close leaked caches, roll the pooled connection back, release a transaction lock left held"""
        core.local.db_context_counter = 0
        core.local.db_session = None
        for cache in list(core.local.db2cache.values()):
            try: cache.rollback()
            except BaseException: pass
        core.local.db2cache.clear()
        prov = self.db.provider
        con = getattr(prov.pool, 'con', None)
        if con is not None:
            try: sqlite3.Connection.rollback(con)
            except BaseException: pass
        lock = getattr(prov, 'transaction_lock', None)
        if lock is not None and lock.locked():
            try: lock.release()
            except BaseException: pass

    def reset(self):
        self.force_clean()
        self.fail = []                      # the cleanup below writes: no injected faults there
        with db_session:
            self.db.execute('delete from W')
            self.db.execute('delete from "%s"' % self.link_table)
            self.db.execute('delete from X')
            for i in range(1, NX + 1): self.db.execute('insert into X (id, val) values (%d, 0)' % i)
            for a, b in INITIAL_PAIRS:
                self.db.execute('insert into "%s" ("%s", "%s") values (%d, %d)' % ((self.link_table,) + self.link_cols + (a, b)))
        self.tr.events[:] = []
        self.dirty = False; self.ncommit = 0; self.fail = []
        self.trace = []; self.keep = []; self.inner_exit_events = []

    def opts(self, o):
        kw = {}
        if o.get('retry'): kw['retry'] = o['retry']
        if o.get('ddl'): kw['ddl'] = True
        if o.get('ser'): kw['serializable'] = True
        for key in ('strict', 'immediate'):
            if o.get('_' + key): kw[key] = True
        if o.get('_optimistic') is False: kw['optimistic'] = False
        for field, kwname in (('allowed', 'allowed_exceptions'), ('retryable', 'retry_exceptions')):
            form = o.get('_%s_form' % field, 'default')
            if form == 'list': kw[kwname] = [LISTABLE[n] for n in o['_%s_classes' % field]]
            elif form == 'tuple': kw[kwname] = tuple(LISTABLE[n] for n in o['_%s_classes' % field])
            elif form == 'callable': kw[kwname] = callable_of_table(o[field], field)
        try: return db_session(**kw)
        except TypeError as e: raise InvalidConfig(str(e))

    def run(self, p):
        k = p['k']
        if k == 'skip': return
        if k == 'write':
            w = p['w']; obj = None
            if w >= X_DELETE:
                obj = self.X[w - X_DELETE + 1]; feature('branch:write-row-delete'); obj.delete()
            elif w >= X_UPDATE:
                obj = self.X[w - X_UPDATE + 1]; feature('branch:write-row-update'); obj.val = 1
            elif w >= LINK_REMOVE:
                a, b = INITIAL_PAIRS[w - LINK_REMOVE]; feature('branch:write-link-remove')
                self.Student[a].courses.remove(self.Course[b])
            elif w >= LINK_ADD:
                a, b = ABSENT_PAIRS[w - LINK_ADD]; feature('branch:write-link-add')
                self.Student[a].courses.add(self.Course[b])
            else: obj = self.W(tag=w)
            if p.get('oflush') and obj is not None:
                feature('branch:per-object-flush'); obj.flush()          # Entity.flush(): saves this object only
            return
        if k == 'flush': flush(); feature('branch:explicit-flush'); return
        if k == 'commit': feature('branch:body-commit'); commit(); return
        if k == 'rollback': feature('branch:body-rollback'); rollback(); return
        if k == 'mark': self.trace.append(p['n']); return
        if k == 'observe':
            r = sorted(t for _, t in select((w.id, w.tag) for w in self.W)[:])       # a query: flushes whatever is pending (id kept: a one-attribute projection is DISTINCT)
            pairs = select((s.id, c.id) for s in self.Student for c in s.courses)[:]
            xs = select((x.id, x.val) for x in self.X)[:]
            self.trace.append(sorted(r + link_tags(pairs) + x_tags(xs))); return
        if k == 'raise': raise make_exc(p['e'])
        if k == 'seq':
            for q in p['ps']: self.run(q)
            return
        if k == 'try':
            try: self.run(p['p'])
            except BaseException as x:
                if isinstance(x, InvalidConfig) or canon_exc(x) not in p['catch']: raise
                self.run(p['h'])
            return
        if k == 'with':
            session = self.opts(p['o'])
            nested = core.local.db_context_counter > 0
            feature('branch:with-nested' if nested else 'branch:with-top')
            with session:
                try: self.run(p['p'])
                finally: m = self.tr.mark()
            if nested: self.inner_exit_events += [e['call'] for e in self.tr.since(m) if e['call'] in ('commit', 'rollback')]
            return
        if k in ('call', 'bottle'):
            bodies = p['bodies']; n = [0]
            def body():
                i = n[0]; n[0] += 1
                self.run(bodies[min(i, len(bodies) - 1)])
            p['_executions'] = n
            feature('branch:%s-%s' % (k, 'nested' if core.local.db_context_counter > 0 else 'top'))
            if k == 'call': f = self.opts(p['o'])(body)
            else: f = self.plugin.apply(body, None)
            f()
            return
        if k == 'iter':
            steps = p['steps']
            def g():
                for i, st in enumerate(steps):
                    for w in st.get('writes', []): self.W(tag=w)
                    if st.get('commit'): commit()
                    for w in st.get('late', []): self.W(tag=w)
                    if st.get('flush'): flush()          # engine-only: the pending writes reach the open transaction
                    fin = st.get('fin', 'yield')
                    if fin == 'yield': yield i
                    elif fin == 'ret': return
                    else: raise make_exc(fin['raise'])
            async def co():
                for i, st in enumerate(steps):
                    for w in st.get('writes', []): self.W(tag=w)
                    if st.get('commit'): commit()
                    for w in st.get('late', []): self.W(tag=w)
                    if st.get('flush'): flush()          # engine-only: the pending writes reach the open transaction
                    fin = st.get('fin', 'yield')
                    if fin == 'yield': await Suspend(i)
                    elif fin == 'ret': return
                    else: raise make_exc(fin['raise'])
            if p.get('async'):
                g = co; feature('branch:iter-coroutine')
            try: wrapped = self.opts(p['o'])(g)
            except TypeError as e:
                if canon_exc(e) == 'genBadOption': raise
                raise InvalidConfig(str(e))
            it = wrapped(); self.keep.append(it)
            feature('branch:iter-%s' % ('nested' if core.local.db_context_counter > 0 else 'top'))
            for st in steps:
                b = st.get('before')
                if b is not None:                 # the consumer's own session on this thread while the generator is suspended
                    feature('branch:gen-consumer-session-%s' % ('read' if b == 'read' else 'write'))
                    with db_session:
                        if b == 'read': self.run({'k': 'observe'})
                        else: self.W(tag=b['write'])
                r = st.get('resume', 'next')
                feature('branch:gen-resume-%s' % (r if isinstance(r, str) else 'throw'))
                try:
                    if r == 'next': it.send(None)
                    elif r == 'close':
                        it.close()
                        raise GeneratorExit()          # what left new_gen_func (Python swallows it in close())
                    else: it.throw(make_exc(r['throw']))
                except StopIteration:
                    return
            return
        if k == 'flask':
            token = flask_stub.request.push()           # a new request context
            feature('branch:flask-%s-%s' % ('hooked' if p.get('hooked', True) else 'unhooked', 'nested' if core.local.db_context_counter > 0 else 'top'))
            try:
                exc = None
                try:
                    if p.get('hooked', True):
                        for f in self.app.before_request_funcs: f()
                    self.run(p['view'])
                except InvalidConfig: raise
                except BaseException as e: exc = e
                m = self.tr.mark(); nested = core.local.db_context_counter > 1
                for f in self.app.teardown_request_funcs: f(exc)
            finally:
                flask_stub.request.pop(token)
            if nested: self.inner_exit_events += [e['call'] for e in self.tr.since(m) if e['call'] in ('commit', 'rollback')]
            if exc is not None: raise exc
            return
        raise ValueError(k)

    def prevalidate(self, p):
        """construct every db_session(**options) of the program up front: option sets the constructor refuses
        (same class in both lists, ddl with retry) are not part of the model and the case is skipped"""
        if isinstance(p, dict):
            if 'o' in p and p.get('k') in ('with', 'call', 'iter'): self.opts(p['o'])
            for v in p.values(): self.prevalidate(v)
        elif isinstance(p, list):
            for v in p: self.prevalidate(v)

    def execute(self, case):
        """run one top-level program from the clean state; returns the observation dict (same shape as the model's reply)"""
        self.reset()
        try: self.prevalidate(case['prog'])
        except InvalidConfig: return None
        self.fail = [x for x in case.get('env', {}).get('commit_fail', [])]
        out = 'ret'
        try:
            with watchdog(6):
                self.run(case['prog'])
        except InvalidConfig:
            for it in self.keep:
                try: it.close()
                except BaseException: pass
            return None
        except BaseException as e:
            out = {'raise': canon_exc(e)}
        obs = {'out': out, 'counter': core.local.db_context_counter, 'session': core.local.db_session is not None,
               'pending_caches': len(core.local.db2cache), 'trace': list(self.trace), 'ncommit': self.ncommit,
               'inner_exit_events': list(self.inner_exit_events)}
        if case['prog']['k'] in ('call', 'bottle'):
            obs['attempts'] = case['prog']['_executions'][0]
        lock = getattr(self.db.provider, 'transaction_lock', None)
        obs['lock_held'] = bool(lock is not None and lock.locked())      # a transaction was left open behind the session
        obs['raw_rows'] = self.independent_rows()        # first: what is really committed, through an independent connection
        # what a NEXT session would make of what this one left behind: commit whatever is still attached to the thread
        if obs['pending_caches'] or obs['lock_held']:
            try:
                with watchdog(10):
                    core.local.db_context_counter = 0; core.local.db_session = None
                    with db_session: pass
            except BaseException: pass
            obs['after_next_session'] = self.independent_rows()
        self.force_clean()
        try:
            with watchdog(10): obs['committed'] = self.rows()
        except Blocked: obs['committed'] = ['blocked']
        for it in self.keep:
            try: it.close()
            except BaseException: pass
        return obs


def strip(p):
    """the program as sent to the driver / stored in replays (no engine-private run-time fields)"""
    if isinstance(p, dict): return {k: strip(v) for k, v in p.items() if k != '_executions'}
    if isinstance(p, list): return [strip(x) for x in p]
    return p


# ---------------------------------------------------------------------------------------------------------------------
# generators of options and programs
# ---------------------------------------------------------------------------------------------------------------------
SID = itertools.count(1)


def mk_pred(rng, field, form, classes=None, table=None):
    """returns the option fragment for one predicate; form in default/list/tuple/callable"""
    flag = 'allowed_callable' if field == 'allowed' else 'retry_callable'      # which branch of the code asks the predicate
    if form == 'default':
        t = {'yes': list(TX), 'raises': []} if field == 'retryable' else {'yes': [], 'raises': []}
        return {field: t, '_%s_form' % field: 'default', flag: False}
    if form in ('list', 'tuple'):
        return {field: table_of_classes(classes), '_%s_form' % field: form, '_%s_classes' % field: list(classes), flag: False}
    return {field: table, '_%s_form' % field: 'callable', flag: True}


def rand_table(rng, allow_raise=True):
    yes = [x for x in UNIVERSE if rng.random() < 0.35]
    raises = []
    if allow_raise and rng.random() < 0.2:
        raises = [[rng.choice(RAISABLE), 'u9']]
    return {'yes': yes, 'raises': raises}


def rand_opts(rng, retry_ok=True, plain=False):
    o = {'sid': next(SID)}
    if retry_ok and rng.random() < 0.6: o['retry'] = rng.choice([1, 2, 1, 2, 3])
    if not plain:
        if rng.random() < 0.12 and not o.get('retry'): o['ddl'] = True
        if rng.random() < 0.15: o['ser'] = True
        if rng.random() < 0.2: o['_strict'] = True
        if rng.random() < 0.2: o['_immediate'] = True
        if rng.random() < 0.1: o['_optimistic'] = False
    names = sorted(LISTABLE)
    for field in ('allowed', 'retryable'):
        form = rng.choice(['default', 'list', 'tuple', 'callable', 'callable'])
        if form in ('list', 'tuple'):
            o.update(mk_pred(rng, field, form, classes=rng.sample(names, rng.choice([0, 1, 1, 2, 3]))))
        elif form == 'callable':
            o.update(mk_pred(rng, field, form, table=rand_table(rng)))
        else:
            o.update(mk_pred(rng, field, form))
    if o['_allowed_form'] in ('list', 'tuple') and o['_retryable_form'] in ('list', 'tuple'):
        both = set(o['_allowed_classes']) & set(o['_retryable_classes'])
        if both:
            o.update(mk_pred(rng, 'allowed', o['_allowed_form'], classes=[c for c in o['_allowed_classes'] if c not in both]))
    return o


MARK = itertools.count(1)


def seq(*ps):
    return {'k': 'seq', 'ps': list(ps)}


LINK_POOL = []
MODE = ['plain']


def reset_link_pool(rng):
    """every (student, course) pair is touched at most once per program (an add of a present link would be a no-op)"""
    LINK_POOL[:] = [LINK_ADD + k for k in range(len(ABSENT_PAIRS))] + [LINK_REMOVE + k for k in range(len(INITIAL_PAIRS))] + \
                   [rng.choice([X_UPDATE, X_DELETE]) + k for k in range(NX)]
    rng.shuffle(LINK_POOL)
    # a body that commits itself and is then retried would repeat a link change that is already committed (a no-op on
    # the real side): a program has either link writes or its own commit()/rollback() calls
    MODE[0] = rng.choice(['links', 'manual', 'manual', 'plain'])
    if MODE[0] != 'links': LINK_POOL[:] = []


def rand_leafs(rng, base):
    """a short straight-line body: marks, writes (rows or m2m links), maybe observe / flush; returns list of nodes"""
    ps = [{'k': 'mark', 'n': next(MARK)}]
    if rng.random() < 0.5: ps.append({'k': 'observe'})
    if rng.random() < 0.75:
        for j in range(rng.choice([0, 1, 1, 2])):
            ps.append(dict({'k': 'write', 'w': base + j}, **({'oflush': True} if rng.random() < 0.2 else {})))
    if LINK_POOL and rng.random() < 0.3:
        for j in range(rng.choice([1, 1, 2])):
            if LINK_POOL: ps.append(dict({'k': 'write', 'w': LINK_POOL.pop()}, **({'oflush': True} if rng.random() < 0.4 else {})))
    if rng.random() < 0.25: ps.append({'k': rng.choice(['flush', 'observe'])})
    if MODE[0] == 'manual' and rng.random() < 0.3: ps.append({'k': rng.choice(['commit', 'commit', 'rollback'])})     # the body commits / rolls back itself
    return ps


def rand_prog(rng, depth, in_session=False, base=[0]):
    """random program; `depth` bounds the nesting; outside a session mostly session constructs are generated"""
    base[0] += 10
    b = base[0]
    if in_session or rng.random() < 0.04: ps = rand_leafs(rng, b)
    else: ps = [{'k': 'mark', 'n': next(MARK)}]
    kinds = ['raise', 'none', 'none'] if in_session else []
    if depth > 0: kinds += ['with', 'with', 'call', 'call', 'try', 'iter', 'flask', 'bottle', 'seq2']
    if not kinds: kinds = ['none', 'raise']
    k = rng.choice(kinds)
    if k == 'raise': ps.append({'k': 'raise', 'e': rng.choice(RAISABLE)})
    elif k == 'with': ps.append({'k': 'with', 'o': rand_opts(rng, retry_ok=rng.random() < 0.1), 'p': rand_prog(rng, depth - 1, True)})
    elif k == 'call':
        ps.append({'k': 'call', 'o': rand_opts(rng), 'bodies': [rand_prog(rng, depth - 1, True) for _ in range(rng.choice([1, 2, 3]))]})
    elif k == 'bottle':
        ps.append({'k': 'bottle', 'resp': RESP, 'err': ERR, 'bodies': [rand_prog(rng, depth - 1, True) for _ in range(rng.choice([1, 2]))]})
    elif k == 'try':
        ps.append({'k': 'try', 'p': rand_prog(rng, depth - 1, in_session), 'catch': [x for x in UNIVERSE if rng.random() < 0.5],
                   'h': rand_prog(rng, depth - 1, in_session)})
    elif k == 'iter': ps.append(rand_iter(rng, b))
    elif k == 'flask':
        hooked = rng.random() < 0.9
        ps.append({'k': 'flask', 'hooked': hooked, 'view': rand_prog(rng, depth - 1, hooked or in_session)})
    elif k == 'seq2': ps += [rand_prog(rng, depth - 1, in_session), rand_prog(rng, depth - 1, in_session)]
    if in_session and rng.random() < 0.3:
        ps += rand_leafs(rng, b + 5)
        if rng.random() < 0.3: ps.append({'k': 'raise', 'e': rng.choice(RAISABLE)})
    return seq(*ps)


def rand_iter(rng, base):
    o = rand_opts(rng, retry_ok=rng.random() < 0.1, plain=rng.random() < 0.8)
    steps = []
    n = rng.choice([1, 2, 3, 4])
    for i in range(n):
        st = {'writes': [base + 3 * i + j for j in range(rng.choice([0, 1, 1, 2]))]}
        st['commit'] = rng.random() < 0.6
        st['late'] = [base + 3 * i + 2] if rng.random() < 0.25 else []
        last = i == n - 1
        r = rng.random()
        st['fin'] = 'yield' if (not last and r < 0.8) or (last and r < 0.2) else ('ret' if r < 0.9 else {'raise': rng.choice(RAISABLE)})
        rr = rng.random()
        st['resume'] = 'next' if i == 0 or rr < 0.85 else ('close' if rr < 0.92 else {'throw': rng.choice(RAISABLE)})
        if i > 0 and rng.random() < 0.3: st['before'] = rng.choice(['read', {'write': base + 3 * i + 1}])
        steps.append(st)
        if st['fin'] != 'yield': break
    return {'k': 'iter', 'o': o, 'steps': steps, 'async': rng.random() < 0.4}


def rand_env(rng, p_fail):
    cf = []
    if rng.random() < p_fail:
        cf = [('u100' if rng.random() < 0.5 else None) for _ in range(rng.choice([1, 2, 3]))]
    return {'should_retry': SHOULD_RETRY, 'tx': TX, 'commit_fail': cf}


# ---------------------------------------------------------------------------------------------------------------------
# scripted scenarios (the grid of the property's quantifier) + the property oracle
# ---------------------------------------------------------------------------------------------------------------------
def scripted(kind, o, depth, inner_kinds, outcomes, commit_fail=()):
    """kind: decorator | cm | generator | flask | bottle;  outcomes: per execution 'ret' or an exception name.
    The body of execution i observes the rows it sees, writes 100*(i+1), 100*(i+1)+1 through `depth-1` inner sessions
    (a write before, inside and after the inner sessions) and finishes with outcomes[i]."""
    bodies = []
    spec_bodies = []
    for i, out in enumerate(outcomes):
        ws = [100 * (i + 1), 100 * (i + 1) + 1, 100 * (i + 1) + 2]
        inner = seq({'k': 'write', 'w': ws[1]}) if out == 'ret' else seq({'k': 'write', 'w': ws[1]}, {'k': 'raise', 'e': out})
        for ik in inner_kinds[:depth - 1]:
            io = {'sid': next(SID)}
            io.update(mk_pred(None, 'allowed', 'default')); io.update(mk_pred(None, 'retryable', 'default'))
            if ik == 'cm': inner = {'k': 'with', 'o': io, 'p': inner}
            elif ik == 'cm_allow_all':
                io.update(mk_pred(None, 'allowed', 'list', classes=['BaseException']))
                inner = {'k': 'with', 'o': io, 'p': inner}
            elif ik == 'dec_retry':
                io['retry'] = 2
                inner = {'k': 'call', 'o': io, 'bodies': [inner]}
            else: inner = {'k': 'call', 'o': io, 'bodies': [inner]}
        tail = [{'k': 'write', 'w': ws[2]}] if out == 'ret' else []
        if kind == 'generator':
            # inner sessions cannot live in a generator segment of the model: flat body
            bodies.append(None)
        else:
            bodies.append(seq({'k': 'mark', 'n': i}, {'k': 'observe'}, {'k': 'write', 'w': ws[0]}, inner, *tail))
        spec_bodies.append({'writes': ws if out == 'ret' else ws[:2], 'out': out})
    env = {'should_retry': SHOULD_RETRY, 'tx': TX, 'commit_fail': list(commit_fail)}
    if kind == 'decorator': prog = {'k': 'call', 'o': o, 'bodies': bodies}
    elif kind == 'bottle': prog = {'k': 'bottle', 'resp': RESP, 'err': ERR, 'bodies': bodies}
    elif kind == 'cm': prog = {'k': 'with', 'o': o, 'p': bodies[0]}
    elif kind == 'flask': prog = {'k': 'flask', 'hooked': True, 'view': bodies[0]}
    else:
        out = outcomes[0]
        ws = spec_bodies[0]['writes']
        steps = [{'writes': [], 'commit': False, 'late': [], 'fin': 'yield', 'resume': 'next'},
                 {'writes': ws, 'commit': False, 'late': [], 'flush': True, 'fin': 'ret' if out == 'ret' else {'raise': out}, 'resume': 'next'}]
        prog = {'k': 'iter', 'o': o, 'steps': steps}
    spec = {'kind': kind, 'depth': depth, 'inner': list(inner_kinds[:depth - 1]), 'bodies': spec_bodies,
            'retry': o.get('retry', 0) if kind in ('decorator',) else 0,
            'allowed': o['allowed'] if kind in ('decorator', 'cm') else
                       ({'yes': ['u6'], 'raises': []} if kind == 'bottle' else {'yes': [], 'raises': []}),   # Bottle: only a non-error HTTPResponse counts as success
            'retryable': o['retryable'] if kind == 'decorator' else {'yes': list(TX), 'raises': []},
            'commit_fail': list(commit_fail)}
    return {'prog': prog, 'env': env, 'spec': spec}


class Pending(object):
    """violations found by the oracle; per key the smallest failing input is reported (flush())"""
    def __init__(self, ctx):
        self.ctx = ctx; self.best = {}
    def violation(self, what, inp, observed=None, expected=None, key=None):
        size = len(json.dumps(inp, sort_keys=True, default=repr))
        if key not in self.best or size < self.best[key][0]:
            self.best[key] = (size, what, inp, observed, expected)
    def flush(self):
        for key in sorted(self.best):
            size, what, inp, observed, expected = self.best[key]
            self.ctx.violation(what, inp, observed=observed, expected=expected, key=key)
        self.best = {}


def scripted_links(kind, o, ops, flush_kind, outcomes, inner=False):
    """bodies whose only changes are many-to-many link additions / removals between existing objects, flushed explicitly
    (`flush()`), implicitly (a query) or not at all before the body ends with outcomes[i]; execution i uses its own pairs"""
    bodies = []; spec_bodies = []
    for i, out in enumerate(outcomes):
        ws = []
        if 'add' in ops: ws.append(LINK_ADD + 2 * i)
        if 'remove' in ops: ws.append(LINK_REMOVE + i)
        if 'add2' in ops: ws.append(LINK_ADD + 2 * i + 1)
        if 'create' in ops: ws.append(500 + i)
        if 'update' in ops: ws.append(X_UPDATE + 2 * i)
        if 'delete' in ops: ws.append(X_DELETE + 2 * i + 1)
        head = [{'k': 'mark', 'n': i}] + ([{'k': 'observe'}] if 'noread' not in ops else [])
        ps = head + [dict({'k': 'write', 'w': w}, **({'oflush': True} if flush_kind == 'object' else {})) for w in ws]
        if flush_kind == 'explicit': ps.append({'k': 'flush'})
        elif flush_kind == 'query': ps.append({'k': 'observe'})
        if out != 'ret': ps.append({'k': 'raise', 'e': out})
        body = seq(*ps)
        if inner:
            io = {'sid': next(SID)}; io.update(mk_pred(None, 'allowed', 'default')); io.update(mk_pred(None, 'retryable', 'default'))
            body = {'k': 'with', 'o': io, 'p': body}
        bodies.append(body)
        spec_bodies.append({'writes': ws, 'out': out})
    env = {'should_retry': SHOULD_RETRY, 'tx': TX, 'commit_fail': []}
    if kind == 'decorator': prog = {'k': 'call', 'o': o, 'bodies': bodies}
    elif kind == 'bottle': prog = {'k': 'bottle', 'resp': RESP, 'err': ERR, 'bodies': bodies}
    elif kind == 'cm': prog = {'k': 'with', 'o': o, 'p': bodies[0]}
    else: prog = {'k': 'flask', 'hooked': True, 'view': bodies[0]}
    spec = {'kind': kind, 'depth': 2 if inner else 1, 'inner': ['cm'] if inner else [], 'bodies': spec_bodies,
            'retry': o.get('retry', 0) if kind == 'decorator' else 0,
            'allowed': o['allowed'] if kind in ('decorator', 'cm') else
                       ({'yes': ['u6'], 'raises': []} if kind == 'bottle' else {'yes': [], 'raises': []}),
            'retryable': o['retryable'] if kind == 'decorator' else {'yes': list(TX), 'raises': []},
            'commit_fail': [], 'links': True, 'noread': 'noread' in ops}
    return {'prog': prog, 'env': env, 'spec': spec}


def scripted_manual(kind, o, variant, outcomes, commit_fail=()):
    """bodies that call commit() (and rollback()) themselves: execution i writes A_i, commits, writes B_i
    [variant 'rollback': rolls back, writes C_i] and ends with outcomes[i].  A_i = 100(i+1), B_i = A_i+1, C_i = A_i+2."""
    bodies = []; spec_bodies = []
    for i, out in enumerate(outcomes):
        A = 100 * (i + 1)
        ps = [{'k': 'mark', 'n': i}, {'k': 'observe'}, {'k': 'write', 'w': A}, {'k': 'commit'}, {'k': 'write', 'w': A + 1}]
        tail = [A + 1]
        if variant == 'rollback':
            ps += [{'k': 'rollback'}, {'k': 'write', 'w': A + 2}]; tail = [A + 2]
        elif variant == 'commit2':
            ps += [{'k': 'commit'}, {'k': 'write', 'w': A + 2}]; tail = [A + 2]
        if out != 'ret': ps.append({'k': 'raise', 'e': out})
        bodies.append(seq(*ps))
        spec_bodies.append({'own': [A] + ([A + 1] if variant == 'commit2' else []), 'tail': tail, 'out': out})
    env = {'should_retry': SHOULD_RETRY, 'tx': TX, 'commit_fail': list(commit_fail)}
    if kind == 'decorator': prog = {'k': 'call', 'o': o, 'bodies': bodies}
    elif kind == 'bottle': prog = {'k': 'bottle', 'resp': RESP, 'err': ERR, 'bodies': bodies}
    elif kind == 'cm': prog = {'k': 'with', 'o': o, 'p': bodies[0]}
    else: prog = {'k': 'flask', 'hooked': True, 'view': bodies[0]}
    spec = {'kind': kind, 'manual': variant, 'bodies': spec_bodies,
            'retry': o.get('retry', 0) if kind == 'decorator' else 0,
            'allowed': o['allowed'] if kind in ('decorator', 'cm') else
                       ({'yes': ['u6'], 'raises': []} if kind == 'bottle' else {'yes': [], 'raises': []}),
            'retryable': o['retryable'] if kind == 'decorator' else {'yes': list(TX), 'raises': []},
            'commit_fail': list(commit_fail)}
    return {'prog': prog, 'env': env, 'spec': spec}


def leak_checks(ctx, inp, obs, prefix):
    """what was left behind must not get committed by whoever uses the thread next; the program must not block"""
    if 'after_next_session' in obs and obs['after_next_session'] != obs['raw_rows']:
        ctx.violation('an empty db_session entered afterwards on the same thread changed the database from %s to %s: it committed what the '
                      'finished session had left behind' % (obs['raw_rows'], obs['after_next_session']), inp, observed=obs,
                      key=prefix + 'leak-committed-later')
    if isinstance(obs['out'], dict) and obs['out']['raise'].startswith('other:Blocked'):
        ctx.violation('the program blocked (transaction lock never released)', inp, observed=obs, key=prefix + 'blocked')


def oracle_manual(ctx, case, obs):
    """C18 for bodies that commit themselves: what a body committed itself stays; of the rest, what is pending when the
    final execution ends is committed iff it finished normally / raised an allowed, non-retried exception; every
    execution starts from exactly the committed state; the exception propagates"""
    spec = case['spec']; kind = spec['kind']; bodies = spec['bodies']
    key0 = 'C18:%s:manual' % kind
    inp = {'prog': strip(case['prog']), 'env': case['env'], 'spec': spec}
    def retryable(e): return e in SHOULD_RETRY or pred_result(spec['retryable'], e)[0] == 'yes'
    def allowed(e): return pred_result(spec['allowed'], e)[0] == 'yes'
    trace = obs['trace']
    marks = [t for t in trace if isinstance(t, int)]
    saws = [t for prev, t in zip([None] + trace, trace) if isinstance(t, list) and isinstance(prev, int)]
    n = len(marks)
    if n == 0 or n > len(bodies): 
        if n > spec['retry'] + 1:
            ctx.violation('the body was executed %d times with retry=%d' % (n, spec['retry']), inp, observed=obs, key=key0 + '-retry-bound')
        return
    if n > spec['retry'] + 1:
        ctx.violation('the body was executed %d times with retry=%d' % (n, spec['retry']), inp, observed=obs, key=key0 + '-retry-bound')
    own = []
    for i in range(n):
        if i < len(saws) and saws[i] != sorted(own):
            ctx.violation('execution %d of the body saw %s but the committed state was %s' % (i, saws[i], sorted(own)), inp,
                          observed=obs, key=key0 + '-attempt-start')
        if i < n - 1 and not retryable(bodies[i]['out']):
            ctx.violation('the body was executed again after %s, which is not retryable' % bodies[i]['out'], inp, observed=obs,
                          key=key0 + '-rerun-nonretryable')
        own += bodies[i]['own']
    final = bodies[n - 1]; fout = final['out']
    ok = fout == 'ret' or (allowed(fout) and not retryable(fout))
    committed = obs['raw_rows']
    missing_own = [w for w in own if w not in committed]
    if missing_own:
        ctx.violation('rows %s which the body committed itself are not in the database' % missing_own, inp, observed=obs, key=key0 + '-own-commit-lost')
    extra = [w for w in committed if w not in own]
    if not ok and extra and not (fout != 'ret' and allowed(fout)):
        ctx.violation('rows %s were committed although the body raised %s after its own commit()' % (extra, fout), inp, observed=obs,
                      expected=sorted(own), key=key0 + '-commit-after-failure')
    if extra and sorted(extra) != sorted(final['tail']):
        ctx.violation('rows %s were committed; only %s were pending when the final execution ended' % (extra, final['tail']), inp,
                      observed=obs, key=key0 + '-foreign-rows')
    if ok and sorted(extra) != sorted(final['tail']):
        ctx.violation('the body finished with %s but its pending writes %s were not committed (found %s)' % (fout, final['tail'], extra),
                      inp, observed=obs, key=key0 + '-no-commit-after-success')
    if fout != 'ret' and obs['out'] == 'ret':
        ctx.violation('the body raised %s but the session swallowed it' % fout, inp, observed=obs, key=key0 + '-swallowed')
    if fout == 'ret' and obs['out'] != 'ret':
        ctx.violation('the body finished normally but %s was raised' % obs['out'], inp, observed=obs, key=key0 + '-spurious-exception')
    if obs['counter'] != 0 or obs['session'] or obs['pending_caches'] or obs.get('lock_held'):
        ctx.violation('session state left behind (counter=%s, db_session set=%s, caches=%s, transaction lock held=%s)'
                      % (obs['counter'], obs['session'], obs['pending_caches'], obs.get('lock_held')), inp, observed=obs, key=key0 + '-leak')
    leak_checks(ctx, inp, obs, key0 + '-')


def manual_grid(ctx, rng):
    cases = []
    outs = ['ret', 'u0', 'u2', 'u3', 'u5', 'u6', 'u7']
    combos = []
    for variant in ('plain', 'rollback', 'commit2'):
        for kind in ('cm', 'flask', 'bottle'):
            for out in outs: combos.append((variant, kind, 0, [out]))
        for retry in (0, 1, 2):
            for sc in itertools.product(['ret', 'u0', 'u2', 'u3', 'u5'], repeat=retry + 1):
                combos.append((variant, 'decorator', retry, list(sc)))
    if not ctx.thorough: combos = rng.sample(combos, 140)
    for variant, kind, retry, sc in combos:
        o = {'sid': next(SID)}
        if retry: o['retry'] = retry
        o.update(mk_pred(rng, 'allowed', rng.choice(['default', 'list', 'callable']), classes=['U2'], table={'yes': ['u2'], 'raises': []}))
        o.update(mk_pred(rng, 'retryable', rng.choice(['default', 'list']), classes=['U0', 'TransactionError']))
        if kind in ('flask', 'bottle'): o = {'sid': 0, 'allowed': {'yes': [], 'raises': []}, 'retryable': {'yes': list(TX), 'raises': []}}
        cases.append(scripted_manual(kind, o, variant, sc))
    return cases


def suspend_grid(ctx, rng):
    """wrapped generators / coroutines whose first segment writes and then {nothing, flush(), commit()} before it yields;
    while suspended the consumer runs {nothing, a read-only db_session, a writing db_session} on the same thread; the
    second segment writes (optionally flushes) and returns or raises"""
    cases = []
    combos = list(itertools.product([[], [1, 2]], ['none', 'flush', 'commit'], [None, 'read', {'write': 77}], ['none', 'flush'],
                                    ['ret', {'raise': 'u0'}, {'raise': 'u2'}], [False, True]))
    if not ctx.thorough: combos = rng.sample(combos, 90) + [c for c in combos if c[0] and c[1] == 'flush' and c[2] == 'read' and not c[5]]
    for A, mode0, before, mode1, fin, is_async in combos:
        o = {'sid': next(SID)}
        o.update(mk_pred(rng, 'allowed', rng.choice(['default', 'list']), classes=['U2'])); o.update(mk_pred(rng, 'retryable', 'default'))
        if rng.random() < 0.2: o['_strict'] = True
        if rng.random() < 0.15: o['_immediate'] = True
        steps = [{'writes': list(A), 'commit': mode0 == 'commit', 'late': [], 'flush': mode0 == 'flush', 'fin': 'yield', 'resume': 'next'},
                 {'writes': [11], 'commit': False, 'late': [], 'flush': mode1 == 'flush', 'fin': fin, 'resume': 'next', 'before': before}]
        prog = {'k': 'iter', 'o': o, 'steps': steps, 'async': is_async}
        spec = {'kind': 'generator', 'suspend': True, 'A': list(A), 'mode0': mode0, 'before': before, 'fin': fin}
        cases.append({'prog': prog, 'env': {'should_retry': SHOULD_RETRY, 'tx': TX, 'commit_fail': []}, 'spec': spec})
    return cases


def oracle_suspend(ctx, case, obs):
    """C18 for wrapped generators: either the suspension is refused with TransactionError and nothing is committed, or
    what the body committed itself stays, the consumer's own session is committed, and the rest of the body's changes are
    committed exactly when it ends normally"""
    spec = case['spec']
    inp = {'prog': strip(case['prog']), 'env': case['env'], 'spec': spec}
    key0 = 'C18:generator:suspend-'
    A = spec['A']; dirty = bool(A) and spec['mode0'] != 'commit'
    rows = obs['raw_rows']; out = obs['out']
    leak_checks(ctx, inp, obs, key0)
    if obs['counter'] != 0 or obs['session'] or obs['pending_caches'] or obs.get('lock_held'):
        ctx.violation('session state left behind (counter=%s, db_session set=%s, caches=%s, transaction lock held=%s)'
                      % (obs['counter'], obs['session'], obs['pending_caches'], obs.get('lock_held')), inp, observed=obs, key=key0 + 'leak')
    if dirty:
        if out != {'raise': 'genSuspendDirty'}:
            ctx.violation('the generator suspended with uncommitted changes %s (mode %s): the suspension was not refused with TransactionError (outcome %s)'
                          % (A, spec['mode0'], out), inp, observed=obs, key=key0 + 'not-refused')
        if rows:
            ctx.violation('rows %s are committed although the generator never ended normally' % rows, inp, observed=obs,
                          expected=[], key=key0 + 'commit-after-failure')
        return
    own = list(A) if spec['mode0'] == 'commit' else []
    cons = [spec['before']['write']] if isinstance(spec['before'], dict) else []
    ok = spec['fin'] == 'ret'
    expected = sorted(own + cons + ([11] if ok else []))
    if rows != expected:
        what = ('the generator raised after resumption but rows %s are committed (expected %s)' if not ok else
                'the generator ended normally but the database holds %s (expected %s)') % (rows, expected)
        ctx.violation(what, inp, observed=obs, expected=expected, key=key0 + ('commit-after-failure' if not ok else 'lost-or-foreign-writes'))
    want = 'ret' if ok else {'raise': spec['fin']['raise']}
    if out != want:
        ctx.violation('the generator body ended with %s but %s came out' % (want, out), inp, observed=obs, key=key0 + 'other-outcome')
    saws = [t for t in obs['trace'] if isinstance(t, list)]
    if spec['before'] == 'read' and saws and saws[0] != sorted(own):
        ctx.violation('the consumer\'s read-only session saw %s while the committed state was %s' % (saws[0], sorted(own)), inp,
                      observed=obs, key=key0 + 'consumer-saw-uncommitted')


def object_flush_grid(ctx, rng):
    """row writes whose FIRST statement of the session is a per-object `obj.flush()` after create / update / delete (and the
    same writes flushed by flush(), by a query, or not at all), then the outcome: for every session flavour (default
    optimistic, strict, immediate, serializable, optimistic=False) x decorator (retry 0/1) / context manager / Flask /
    Bottle x directly or inside an inner session x with or without a read before the write"""
    cases = []
    opsets = [['create'], ['update'], ['delete'], ['update', 'delete'], ['delete', 'create'], ['create', 'update', 'delete']]
    combos = list(itertools.product(opsets, ['object', 'object', 'explicit', 'query', 'none'], ['ret', 'u0', 'u2', 'u5'],
                                    ['decorator', 'decorator1', 'cm', 'flask', 'bottle'], [False, True], [False, True],
                                    ['default', 'default', 'strict', 'immediate', 'ser', 'pessimistic']))
    must = [c for c in combos if c[1] == 'object' and c[2] == 'u0' and len(c[0]) == 1 and not c[4] and c[6] == 'default' and c[3] in ('cm', 'decorator1')]
    if not ctx.thorough: combos = rng.sample(combos, 170) + must
    else: combos = rng.sample(combos, 4000) + must
    for ops, fk, out, kind, inner, noread, flavour in combos:
        o = {'sid': next(SID)}
        o.update(mk_pred(rng, 'allowed', rng.choice(['default', 'list']), classes=['U2']))
        o.update(mk_pred(rng, 'retryable', 'default'))
        if flavour == 'strict': o['_strict'] = True
        elif flavour == 'immediate': o['_immediate'] = True
        elif flavour == 'ser': o['ser'] = True
        elif flavour == 'pessimistic': o['_optimistic'] = False
        outcomes = [out]
        if kind == 'decorator1':
            kind = 'decorator'; o['retry'] = 1; outcomes = ['u3', out]
        if kind in ('flask', 'bottle'): o = {'sid': 0, 'allowed': {'yes': [], 'raises': []}, 'retryable': {'yes': list(TX), 'raises': []}}
        cases.append(scripted_links(kind, o, list(ops) + (['noread'] if noread else []), fk, outcomes, inner and not o.get('ser')))
    return cases


def link_grid(ctx, rng):
    """m2m-only bodies: {add, remove, add+remove, two adds} x {explicit flush, flush by query, no flush} x outcome x
    decorator (retry 0/1) / context manager / Flask / Bottle x (directly | inside an inner session) x strict/immediate"""
    cases = []
    combos = list(itertools.product([['add'], ['remove'], ['add', 'remove'], ['add', 'add2']], ['explicit', 'query', 'none'],
                                    ['ret', 'u0', 'u2', 'u6', 'u7'], ['decorator', 'decorator1', 'cm', 'flask', 'bottle'], [False, True]))
    if not ctx.thorough: combos = rng.sample(combos, 150) + [c for c in combos if c[2] == 'u0' and c[1] != 'none' and not c[4] and c[0] in (['add'], ['remove'])]
    for ops, fk, out, kind, inner in combos:
        o = {'sid': next(SID)}
        o.update(mk_pred(rng, 'allowed', rng.choice(['default', 'list']), classes=['U2']))
        o.update(mk_pred(rng, 'retryable', 'default'))
        if rng.random() < 0.2: o['_strict'] = True
        if rng.random() < 0.15: o['_immediate'] = True
        outcomes = [out]
        if kind == 'decorator1':
            kind = 'decorator'; o['retry'] = 1; outcomes = ['u3', out]
        if kind in ('flask', 'bottle'): o = {'sid': 0, 'allowed': {'yes': [], 'raises': []}, 'retryable': {'yes': list(TX), 'raises': []}}
        cases.append(scripted_links(kind, o, ops, fk, outcomes, inner))
    return cases


def oracle(ctx, case, obs):
    """the statement of C18 evaluated on what the real code did (scripted scenarios only); ctx is a Pending collector"""
    spec = case['spec']; kind = spec['kind']
    bodies = spec['bodies']
    key0 = 'C18:%s' % kind
    inp = {'prog': strip(case['prog']), 'env': case['env'], 'spec': spec}
    def retryable(e):
        return e in SHOULD_RETRY or pred_result(spec['retryable'], e)[0] == 'yes'
    def allowed(e):
        return pred_result(spec['allowed'], e)[0] == 'yes'
    marks = [t for t in obs['trace'] if isinstance(t, int)]
    saws = [t for prev, t in zip([None] + obs['trace'], obs['trace']) if isinstance(t, list) and isinstance(prev, int)]   # what an execution saw right at its start
    if spec.get('noread'): saws = []        # these bodies do not look at the database when they start
    n = len(marks) if kind != 'generator' else 1
    committed = obs['raw_rows']           # the committed state is what an independent connection sees
    if obs['raw_rows'] != obs['committed']:
        ctx.violation('a fresh session and the raw connection disagree about the committed rows', inp, observed=obs, key=key0 + ':raw')
    # --- retry bound, retries only for retryable exceptions
    if kind in ('decorator', 'bottle'):
        if n > spec['retry'] + 1:
            ctx.violation('the body was executed %d times with retry=%d' % (n, spec['retry']), inp, observed=obs,
                          expected='at most retry+1 executions', key=key0 + ':retry-bound')
        for i in range(n - 1):
            b = bodies[min(i, len(bodies) - 1)]
            if b['out'] == 'ret' and not (spec['commit_fail'] and any(spec['commit_fail'])):
                ctx.violation('the body was executed again after it had finished normally', inp, observed=obs, key=key0 + ':rerun-after-success')
            elif b['out'] != 'ret' and not retryable(b['out']) and pred_result(spec['retryable'], b['out'])[0] != 'raises':
                ctx.violation('the body was executed again after the non-retryable exception %s' % b['out'], inp, observed=obs,
                              key=key0 + ':rerun-nonretryable')
    elif n != 1:
        ctx.violation('the body of a %s session was executed %d times' % (kind, n), inp, observed=obs, key=key0 + ':executions')
    # --- every attempt starts from the committed state
    for s in saws:
        if s != []:
            ctx.violation('an execution of the body saw rows %s left by an earlier attempt (the database was empty)' % s, inp,
                          observed=obs, key=key0 + ':attempt-start')
    # --- nested sessions: inner exits neither commit nor roll back
    if obs['inner_exit_events']:
        ctx.violation('the exit of an inner db_session issued %s on the connection' % obs['inner_exit_events'], inp, observed=obs,
                      key=key0 + ':inner-exit')
    if n == 0: return
    final = bodies[min(n - 1, len(bodies) - 1)]
    fout = final['out']
    faulty = any(spec['commit_fail'])
    new_rows = committed
    own = sorted(final['writes'])
    # --- commit only if the body finished normally or raised an allowed exception
    if new_rows and not (fout == 'ret' or allowed(fout)):
        ctx.violation('rows %s were committed although the body raised %s, which the session does not allow' % (new_rows, fout),
                      inp, observed=obs, expected='nothing committed', key=key0 + ':commit-after-failure')
    if new_rows and new_rows != own:
        ctx.violation('committed rows %s are not the writes %s of the final execution of the body' % (new_rows, own), inp,
                      observed=obs, key=key0 + ':foreign-rows')
    if fout == 'ret' and not faulty and new_rows != own:
        ctx.violation('the body finished normally but its writes %s were not committed (found %s)' % (own, new_rows), inp,
                      observed=obs, key=key0 + ':no-commit-after-success')
    if kind in ('decorator', 'cm', 'bottle') and fout != 'ret' and allowed(fout) and not retryable(fout) and not faulty \
            and pred_result(spec['retryable'], fout)[0] != 'raises' and new_rows != own:
        ctx.violation('the body raised the allowed exception %s but its writes were not committed' % fout, inp, observed=obs,
                      key=key0 + ':no-commit-after-allowed')
    # --- the exception propagates
    if fout != 'ret':
        if obs['out'] == 'ret':
            ctx.violation('the body raised %s but the session swallowed it' % fout, inp, observed=obs, key=key0 + ':swallowed')
        elif obs['out']['raise'] != fout and not faulty and pred_result(spec['allowed'], fout)[0] != 'raises' \
                and pred_result(spec['retryable'], fout)[0] != 'raises':
            ctx.violation('the body raised %s but %s propagated' % (fout, obs['out']['raise']), inp, observed=obs, key=key0 + ':other-exception')
    elif obs['out'] != 'ret' and not faulty:
        ctx.violation('the body finished normally but %s was raised' % obs['out'], inp, observed=obs, key=key0 + ':spurious-exception')
    # --- nothing leaks out of the session
    if obs['counter'] != 0 or obs['session'] or obs['pending_caches'] or obs.get('lock_held'):
        ctx.violation('after the outermost exit the thread still has session state (counter=%s, db_session set=%s, caches=%s, transaction lock held=%s)'
                      % (obs['counter'], obs['session'], obs['pending_caches'], obs.get('lock_held')), inp, observed=obs, key=key0 + ':leak')
    leak_checks(ctx, inp, obs, key0 + ':')


def canon_rows(rows):
    """model write lists -> database state: rows are a multiset, link writes are idempotent (adding a present link /
    removing an absent one changes nothing — happens when a retried body repeats a link change it had committed itself)"""
    return sorted([w for w in rows if w < LINK_ADD] + list(set(w for w in rows if w >= LINK_ADD)))


def compare(ctx, case, obs, mod):
    """model reply vs real observation"""
    if 'driver_error' in mod:
        ctx.divergence('driver error', strip(case), model=mod); return False
    m = {'out': mod['out'], 'committed': canon_rows(mod['committed']), 'counter': mod['counter'], 'session': mod['session'],
         'pending': bool(mod['pending']), 'ncommit': mod['ncommit'],
         'trace': [canon_rows(t) if isinstance(t, list) else t for t in mod['trace']]}
    r = {'out': obs['out'], 'committed': obs['raw_rows'], 'counter': obs['counter'], 'session': obs['session'],
         'pending': bool(obs['pending_caches']) and False, 'ncommit': obs['ncommit'], 'trace': obs['trace']}
    # db2cache may legitimately hold an unmodified cache only inside a session; outside it must be empty
    r['pending'] = False
    if obs['pending_caches'] and not (obs['session']): r['pending'] = True
    if obs.get('lock_held'): r['pending'] = True
    if 'attempts' in mod and obs['counter'] == 0:
        m['attempts'] = mod['attempts']; r['attempts'] = obs.get('attempts')
    if m != r:
        ctx.divergence('model and real db_session disagree', {k: v for k, v in strip(case).items() if k != 'spec'}, model=m, impl=r)
        return False
    return True


def run_cases(ctx, real, cases, kind):
    pend = Pending(ctx)
    todo = []
    for case in cases:
        try:
            obs = real.execute(case)
        except BaseException as e:
            # an exception escaping from the real code outside the program proper (cleanup, read-back): a verdict, not a crash
            if isinstance(e, KeyboardInterrupt): raise
            msg = 'the real code raised %s outside the program (state reset / read-back after it): %s' % (type(e).__name__, str(e)[:200])
            inp = {'prog': strip(case['prog']), 'env': case['env']}
            if 'spec' in case:
                inp['spec'] = case['spec']
                pend.violation(msg, inp, key='C18:%s:engine-escape' % case['spec']['kind'])
            else: ctx.divergence(msg, inp)
            ctx.count('engine-escape')
            try: real.force_clean()
            except BaseException: pass
            continue
        if obs is None:
            ctx.count('invalid-config-skipped'); continue
        todo.append((case, obs))
    outs = ctx.driver('C18', [{'op': 'run', 'env': c['env'], 'prog': strip(c['prog'])} for c, _ in todo]) if ctx.driver.ok else [None] * len(todo)
    for (case, obs), mod in zip(todo, outs):
        ctx.case({'prog': strip(case['prog']), 'env': case['env']}, kind=kind)
        ctx.count('out:' + (obs['out'] if obs['out'] == 'ret' else obs['out']['raise'].split(':')[0]))
        ctx.count('committed:' + ('some' if obs['committed'] else 'none'))
        if 'attempts' in obs: ctx.count('attempts:%d' % obs['attempts'])
        if obs['ncommit']: ctx.count('real-commits:%d' % obs['ncommit'])
        if mod is not None: compare(ctx, case, obs, mod)
        if 'spec' in case: (oracle_manual if case['spec'].get('manual') else oracle_suspend if case['spec'].get('suspend') else oracle)(pend, case, obs)
    pend.flush()


def grid(ctx, rng):
    """retry 0-2 x allowed (none/list/callable) x retry_exceptions (default/list/callable) x nesting 1-3 x kind x outcome scripts"""
    cases = []
    allowed_forms = [('default', None), ('list', ['U0']), ('tuple', ['U2', 'HTTPResponse']), ('callable', {'yes': ['u0', 'u1'], 'raises': []}),
                     ('callable', {'yes': ['u2'], 'raises': [['u0', 'u9']]})]
    retry_forms = [('default', None), ('list', ['U2']), ('tuple', ['U1', 'TransactionError']), ('callable', {'yes': ['u2', 'u0'], 'raises': []}),
                   ('callable', {'yes': ['u1'], 'raises': [['u2', 'u9']]})]
    inner_choices = [[], ['cm'], ['dec'], ['cm', 'dec'], ['dec_retry', 'cm_allow_all'], ['cm_allow_all', 'cm']]
    outs = ['ret', 'u0', 'u1', 'u2', 'u3', 'u4', 'u5', 'u6', 'u7']
    scripts1 = [[x] for x in outs]
    scripts3 = [list(t) for t in itertools.product(['ret', 'u0', 'u1', 'u2', 'u3', 'u5'], repeat=3)]
    full = ctx.thorough
    combos = []
    for retry in (0, 1, 2):
        for af in allowed_forms:
            for rf in retry_forms:
                for inner in inner_choices:
                    combos.append((retry, af, rf, inner))
    if not full: combos = rng.sample(combos, 110)
    for retry, af, rf, inner in combos:
        def mk():
            o = {'sid': next(SID)}
            if retry: o['retry'] = retry
            o.update(mk_pred(rng, 'allowed', af[0], classes=af[1], table=af[1]) if af[0] != 'callable' else mk_pred(rng, 'allowed', 'callable', table=af[1]))
            o.update(mk_pred(rng, 'retryable', rf[0], classes=rf[1], table=rf[1]) if rf[0] != 'callable' else mk_pred(rng, 'retryable', 'callable', table=rf[1]))
            for f in ('_strict', '_immediate'):
                if rng.random() < 0.25: o[f] = True
            if rng.random() < 0.15 and not inner: o['ser'] = True
            return o
        depth = len(inner) + 1
        scripts = rng.sample(scripts3, 40 if full else 3)
        for sc in scripts:
            cases.append(scripted('decorator', mk(), depth, inner, sc))
        if retry == 0:
            for sc in (scripts1 if full else rng.sample(scripts1, 3)):
                cases.append(scripted('cm', mk(), depth, inner, sc))
                if not inner:
                    o = mk(); o.pop('ser', None)
                    cases.append(scripted('generator', o, 1, [], sc))
                    twin = scripted('generator', dict(o), 1, [], sc)          # the same body as an `async def` coroutine
                    twin['prog']['async'] = True; twin['spec']['coroutine'] = True
                    cases.append(twin)
        # commit failures on the first / second real commit
        sc = rng.choice(scripts3)
        cases.append(scripted('decorator', mk(), depth, inner, sc, commit_fail=rng.choice([['u100'], [None, 'u100'], ['u100', 'u100'], ['u100', None, 'u100']])))
    o0 = {'sid': 0}; o0.update(mk_pred(rng, 'allowed', 'default')); o0.update(mk_pred(rng, 'retryable', 'default'))
    for inner in inner_choices:
        for sc in scripts1:
            cases.append(scripted('flask', dict(o0), len(inner) + 1, inner, sc))
            cases.append(scripted('bottle', dict(o0), len(inner) + 1, inner, sc))
            cases.append(scripted('flask', dict(o0), len(inner) + 1, inner, sc, commit_fail=['u100']))
            cases.append(scripted('bottle', dict(o0), len(inner) + 1, inner, sc, commit_fail=['u100']))
    return cases


def gen_grid(ctx, rng):
    """wrapped generators: every (manual commit, late writes, end, next resume) shape of a first segment followed by a
    second segment, with and without commit faults, at top level and inside another session"""
    cases = []
    ends = ['yield', 'ret', {'raise': 'u0'}, {'raise': 'u3'}]
    resumes = ['next', 'close', {'throw': 'u1'}, {'throw': 'u5'}]
    faults = [[], ['u100'], [None, 'u100'], ['u100', 'u100']]
    combos = list(itertools.product([False, True], [[], [3]], ['yield', 'yield'] + ends, resumes, [False, True], ends, faults))
    if not ctx.thorough: combos = rng.sample(combos, 160)
    for mc1, late1, fin1, res2, mc2, fin2, cf in combos:
        o = {'sid': next(SID)}
        o.update(mk_pred(rng, 'allowed', rng.choice(['default', 'list']), classes=['U0']))
        o.update(mk_pred(rng, 'retryable', 'default'))
        w1 = [1, 2] if (mc1 or rng.random() < 0.3) else []
        steps = [{'writes': w1, 'commit': mc1, 'late': late1 if rng.random() < 0.4 else [], 'fin': fin1, 'resume': 'next'},
                 {'writes': [11], 'commit': mc2, 'late': [], 'flush': rng.random() < 0.5, 'fin': fin2, 'resume': res2,
                  'before': rng.choice([None, None, 'read', {'write': 88}])},
                 {'writes': [21], 'commit': False, 'late': [], 'fin': 'ret', 'resume': 'next'}]
        prog = {'k': 'iter', 'o': o, 'steps': steps, 'async': rng.random() < 0.5}
        env = {'should_retry': SHOULD_RETRY, 'tx': TX, 'commit_fail': cf}
        cases.append({'prog': prog, 'env': env})
        if rng.random() < 0.15:
            o2 = {'sid': next(SID)}; o2.update(mk_pred(rng, 'allowed', 'default')); o2.update(mk_pred(rng, 'retryable', 'default'))
            cases.append({'prog': {'k': 'with', 'o': o2, 'p': seq({'k': 'write', 'w': 5}, prog)}, 'env': env})
    return cases


# ---------------------------------------------------------------------------------------------------------------------
# several databases in one db_session: module-level commit() / rollback() over all session caches
# ---------------------------------------------------------------------------------------------------------------------
NDB = 3


class RealMulti(object):
    """NDB file databases, each behind its own tracing connection factory; faults per database: the flush (first INSERT),
    the connection commit, the connection rollback"""
    def __init__(self):
        self.dir = ponyutil.workdir('c18m')
        self.dbs = []; self.trs = []; self.E = []; self.paths = []
        self.faults = {'flush': set(), 'commit': set(), 'rollback': set()}
        for i in range(NDB):
            tr = Tracer(); db = Database(); path = os.path.join(self.dir, 'd%d.sqlite' % i)
            @db.on_connect(provider='sqlite')
            def fast(db, connection): connection.execute('PRAGMA synchronous = OFF')
            db.bind('sqlite', path, create_db=True, **tr.bind_kwargs())
            class E(db.Entity):
                tag = Required(int)
            db.generate_mapping(create_tables=True)
            tr.before_call.append(self._hook(i))
            self.dbs.append(db); self.trs.append(tr); self.E.append(E); self.paths.append(path)

    def _hook(self, i):
        def hook(ev):
            if ev['call'] == 'execute' and ev['kind'] == 'insert' and i in self.faults['flush']:
                raise sqlite3.OperationalError('injected flush fault db%d' % i)
            if ev['call'] == 'commit' and i in self.faults['commit']:
                raise sqlite3.OperationalError('injected commit fault db%d' % i)
            if ev['call'] == 'rollback' and i in self.faults['rollback']:
                raise sqlite3.OperationalError('injected rollback fault db%d' % i)
        return hook

    def rows(self, i):
        con = sqlite3.connect(self.paths[i])
        try: return sorted(r[0] for r in con.execute('select tag from E'))
        finally: con.close()

    def force_clean(self):
        self.faults = {'flush': set(), 'commit': set(), 'rollback': set()}
        core.local.db_context_counter = 0; core.local.db_session = None
        for cache in list(core.local.db2cache.values()):
            try: cache.rollback()
            except BaseException: pass
        core.local.db2cache.clear()
        for db in self.dbs:
            prov = db.provider
            con = getattr(prov.pool, 'con', None)
            if con is not None:
                try: sqlite3.Connection.rollback(con)
                except BaseException: pass
            if prov.transaction_lock.locked():
                try: prov.transaction_lock.release()
                except BaseException: pass

    def reset(self):
        self.force_clean()
        for i, db in enumerate(self.dbs):
            db.priority = 0
            with db_session: db.execute('delete from E')

    def close(self):
        self.force_clean()
        for db in self.dbs:
            try: db.disconnect()
            except Exception: pass
        ponyutil.rmtree(self.dir)

    def execute(self, case):
        self.reset()
        for d, pr in case.get('priority', {}).items(): self.dbs[int(d)].priority = pr
        self.faults = {k: set(v) for k, v in case['faults'].items()}
        session = db_session(allowed_exceptions=[U2]) if case['form'] == 'cm' else None
        def body():
            for d, ws in case['touch']:
                if ws:
                    for w in ws: self.E[d](tag=w)
                else: select(x for x in self.E[d])[:]            # the session only reads this database
            if case['out'] != 'ret': raise make_exc(case['out'])
        out = 'ret'
        try:
            with watchdog(20):
                if session is not None:
                    with session: body()
                else:
                    db_session(allowed_exceptions=[U2], retry_exceptions=[])(body)()
        except CommitException: out = 'commitExc'
        except core.PartialCommitException: out = 'partialCommit'
        except core.RollbackException: out = 'rollbackExc'
        except core.OperationalError as e:
            out = 'flushErr' if 'injected flush fault' in str(e) else 'releaseErr' if 'injected rollback fault' in str(e) else 'other:OperationalError:%s' % e
        except core.UnexpectedError as e:          # how _save_ reports a DBAPI error of the INSERT
            out = 'flushErr' if 'injected flush fault' in str(e) else 'other:UnexpectedError:%s' % e
        except BaseException as e: out = canon_exc(e)
        obs = {'out': out, 'rows': [self.rows(i) for i in range(NDB)],
               'leaked_caches': len(core.local.db2cache), 'counter': core.local.db_context_counter,
               'session': core.local.db_session is not None,
               'locks': [db.provider.transaction_lock.locked() for db in self.dbs]}
        # what the thread is like for the NEXT session: an ordinary session over every database must simply work
        self.faults = {'flush': set(), 'commit': set(), 'rollback': set()}
        nxt = 'ok'
        try:
            with watchdog(10):
                with db_session(strict=True):
                    for i in range(NDB): select(x for x in self.E[i])[:]
        except BaseException as e: nxt = '%s' % type(e).__name__
        obs['next_session'] = nxt
        obs['rows_after_next'] = [self.rows(i) for i in range(NDB)]
        return obs


def multi_cases(ctx, rng):
    """touch 1-3 databases in every order, written or only read, every outcome, faults on flush / commit / rollback of
    every subset of one or two databases, optional priority, context manager and decorator form"""
    cases = []
    orders = [list(p) for n in (1, 2, 3) for p in itertools.permutations(range(NDB), n)]
    fault_sets = [{'flush': [], 'commit': [], 'rollback': []}]
    for kind in ('flush', 'commit', 'rollback'):
        for d in range(NDB):
            f = {'flush': [], 'commit': [], 'rollback': []}; f[kind] = [d]; fault_sets.append(f)
    for a in range(NDB):
        for b in range(NDB):
            fault_sets.append({'flush': [], 'commit': [a], 'rollback': [b]})
            if a < b: fault_sets.append({'flush': [], 'commit': [a, b], 'rollback': []})
    combos = list(itertools.product(orders, fault_sets, ['ret', 'ret', 'u0', 'u2']))
    if not ctx.thorough: combos = rng.sample(combos, 260)
    for order, f, out in combos:
        touch = []
        for j, d in enumerate(order):
            ws = [100 * (d + 1) + k for k in range(rng.choice([1, 1, 2]))] if rng.random() < 0.8 else []
            touch.append([d, ws])
        pr = {}
        if rng.random() < 0.25: pr = {str(rng.choice(order)): rng.choice([1, 5])}
        form = 'cm' if (f['rollback'] or rng.random() < 0.6) else 'decorator'
        cases.append({'touch': touch, 'faults': f, 'out': out, 'priority': pr, 'form': form})
    return cases


WITNESS_PARTIAL = {'touch': [[0, [10]], [1, [11]]], 'faults': {'flush': [], 'commit': [0], 'rollback': []}, 'out': 'ret',
                   'priority': {}, 'form': 'cm'}       # Props/C18.lean: witnessCaches / witnessFaults


def run_multi(ctx, rng):
    real = RealMulti()
    try:
        cases = [WITNESS_PARTIAL] + multi_cases(ctx, rng)
        reqs = [{'op': 'multi', 'caches': [{'db': d, 'priority': c['priority'].get(str(d), 0), 'pending': ws} for d, ws in c['touch']],
                 'faults': c['faults'], 'can_commit': c['out'] in ('ret', 'u2')} for c in cases]
        outs = ctx.driver('C18', reqs) if ctx.driver.ok else [None] * len(cases)
        pend = Pending(ctx)
        for case, mod in zip(cases, outs):
            obs = real.execute(case)
            ctx.case(case, kind='multi-db')
            ctx.count('multi-out:' + obs['out'].split(':')[0])
            written = {d: ws for d, ws in case['touch']}
            inp = dict(case)
            # ---- tie
            if mod is not None:
                if 'driver_error' in mod: ctx.divergence('driver error', case, model=mod); continue
                err = mod['err']
                m_out = (list(err)[0] if isinstance(err, dict) else err) if err is not None else case['out']
                m_rows = [[] for _ in range(NDB)]
                for dbs in mod['dbs']: m_rows[dbs['db']] = sorted(dbs['committed'])
                if m_out != obs['out'] or m_rows != obs['rows']:
                    ctx.divergence('model and real multi-database session disagree', case, model={'out': m_out, 'rows': m_rows, 'order': mod['order']},
                                   impl={'out': obs['out'], 'rows': obs['rows']})
            # ---- oracle: the statement of C18 on what the real code did
            any_rows = any(obs['rows'])
            ok_body = case['out'] in ('ret', 'u2')
            if not ok_body and any_rows:
                pend.violation('the body raised %s, which is not allowed, but rows %s were committed' % (case['out'], obs['rows']), inp,
                               observed=obs, key='C18:multi-db:commit-after-failure')
            if ok_body and obs['out'] in ('commitExc', 'partialCommit', 'flushErr') and any_rows:
                pend.violation('the session ended with %s but the databases hold %s: part of the session was committed '
                               '(no two-phase commit over several databases)' % (obs['out'], obs['rows']), inp, observed=obs,
                               expected='nothing committed', key='C18:multi-db:partial-commit')
            if ok_body and obs['out'] in (case['out'], 'releaseErr') and obs['rows'] != [sorted(written.get(d, [])) for d in range(NDB)]:
                pend.violation('the session ended normally but the databases hold %s' % obs['rows'], inp, observed=obs,
                               key='C18:multi-db:no-commit-after-success')
            for d in range(NDB):
                if obs['rows'][d] and obs['rows'][d] != sorted(written.get(d, [])):
                    pend.violation('database %d holds %s: only part of the writes %s of the session' % (d, obs['rows'][d], written.get(d)),
                                   inp, observed=obs, key='C18:multi-db:torn-database')
            if obs['leaked_caches'] or obs['counter'] or obs['session'] or any(obs['locks']):
                pend.violation('after the outermost exit the thread still has session state (caches=%s, counter=%s, db_session set=%s, locks held=%s)'
                               % (obs['leaked_caches'], obs['counter'], obs['session'], obs['locks']), inp, observed=obs,
                               key='C18:multi-db:leak')
            if obs['next_session'] != 'ok':
                pend.violation('an ordinary db_session entered afterwards on the same thread fails with %s' % obs['next_session'], inp,
                               observed=obs, key='C18:multi-db:next-session-fails')
            if obs['rows_after_next'] != obs['rows']:
                pend.violation('a read-only db_session entered afterwards changed the databases from %s to %s' % (obs['rows'], obs['rows_after_next']),
                               inp, observed=obs, key='C18:multi-db:leak-committed-later')
        pend.flush()
    finally:
        real.close()


def setup_globals():
    global REDIRECT
    REDIRECT = [x for x in UNIVERSE if bottle_plugin.is_allowed_exception(make_exc(x))]


def run(ctx):
    setup_globals()
    if not ctx.driver.ok:
        ctx.note('Lean driver not available: model/real tie skipped, property oracle still runs')
    real = Real()
    try: run_all(ctx, real)
    finally: real.close()


def run_all(ctx, real):
    rng = ctx.rng
    # corpus / fixed regression witnesses first
    fixed = []
    o0 = {'sid': 0}; o0.update(mk_pred(rng, 'allowed', 'default')); o0.update(mk_pred(rng, 'retryable', 'default'))
    fixed.append(scripted('flask', dict(o0), 1, [], ['u0']))          # the defect repaired by 0147e11
    fixed.append(scripted('flask', dict(o0), 1, [], ['ret']))
    fixed.append(scripted('bottle', dict(o0), 1, [], ['u6']))         # redirect: committed
    fixed.append(scripted('bottle', dict(o0), 1, [], ['u7']))         # abort: rolled back
    ocm = {'sid': next(SID)}; ocm.update(mk_pred(rng, 'allowed', 'default')); ocm.update(mk_pred(rng, 'retryable', 'default'))
    fixed.append(scripted_links('cm', dict(ocm), ['add'], 'explicit', ['u0']))       # only m2m links change, flush, then the body fails
    fixed.append(scripted_links('cm', dict(ocm), ['remove'], 'query', ['u0']))
    fixed.append(scripted_links('flask', dict(o0), ['add', 'remove'], 'explicit', ['u0']))
    run_cases(ctx, real, fixed, 'fixed')
    run_cases(ctx, real, grid(ctx, rng), 'grid')
    run_cases(ctx, real, gen_grid(ctx, rng), 'generator-grid')
    run_cases(ctx, real, suspend_grid(ctx, rng), 'generator-suspend-grid')
    run_cases(ctx, real, link_grid(ctx, rng), 'm2m-link-grid')
    run_cases(ctx, real, object_flush_grid(ctx, rng), 'object-flush-grid')
    run_cases(ctx, real, manual_grid(ctx, rng), 'manual-commit-grid')
    n = ctx.scale(700, 12000)
    cases = []
    for _ in range(n):
        reset_link_pool(rng)
        cases.append({'prog': rand_prog(rng, rng.choice([1, 2, 2, 3, 3, 4])), 'env': rand_env(rng, 0.3)})
    run_cases(ctx, real, cases, 'random')
    run_multi(ctx, rng)
    for k, v in sorted(FEATURES.items()): ctx.count(k, v)
    ctx.extra['exception_universe'] = UNIVERSE
    ctx.extra['bottle_allowed'] = REDIRECT


def replay(ctx, data):
    setup_globals()
    real = Real()
    inp = data.get('input') or {}
    if 'prog' not in inp and data.get('divergences'):
        inp = data['divergences'][0]['input']
    case = {'prog': inp['prog'], 'env': inp.get('env', {})}
    if 'spec' in inp: case['spec'] = inp['spec']
    try: run_cases(ctx, real, [case], 'replay')
    finally: real.close()
