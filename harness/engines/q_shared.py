"""Engine Q helpers shared by c01.py and c02.py: the one-entity schema of the fragment, type-directed random expressions,
their Python source, the Python reading under the property's NULL conventions (mirror of Lean `Model.Q.py`), and the
canonical JSON form of Pony's SQL ASTs.

Expressions are nested tuples, the JSON form the Lean driver reads (Drive/C01.lean: exprOfJson):
  ('attr', n) ('int', i) ('str', s) ('bool', b) ('none',) ('param', n)
  ('cmp', op, l, r)  op in == != < <= > >= 'is' 'is not'
  ('in', neg, x, [lits]) ('like', kind, neg, pat, x)  kind in contains startswith endswith
  ('and', l, r) ('or', l, r) ('not', x) ('bin', op, l, r) op in + - * ('neg', x) ('abs', x) ('len', x) ('ite', c, t, e)
"""
import re

# name -> (type, nullable, kwargs)
ATTRS = {
    'a': ('int', False), 'c': ('int', False), 'n': ('int', True), 'm': ('int', True),
    'b': ('bool', False), 'nb': ('bool', True),
    's': ('str', False), 't': ('str', False), 'ns': ('str', True),
}
INT_ATTRS = ['a', 'c', 'n', 'm']; BOOL_ATTRS = ['b', 'nb']; STR_ATTRS = ['s', 't', 'ns']
PARAM_TYPES = {'pi': 'int', 'pj': 'int', 'pb': 'bool', 'ps': 'str'}
STR_CONSTS = ['', 'a', 'b', 'ab', 'ba', 'a%', '_', '!', 'A', 'x y', "q'", 'é']
STR_DATA = ['', 'a', 'b', 'ab', 'ba', 'aab', 'a%b', 'a_', '_', '!a', 'A', 'Ab', 'x y', "q'q", 'é', '1', '0', '%']
INT_DATA = [0, 0, 1, 1, 2, 3, -1, -2, 5, 7, 100]


def define_entity(db):
    from pony.orm import Required, Optional
    class E(db.Entity):
        a = Required(int)
        c = Required(int)
        n = Optional(int)
        m = Optional(int)
        b = Required(bool)
        nb = Optional(bool)
        s = Required(str)
        t = Optional(str)
        ns = Optional(str, nullable=True)
    return E


def schema_json():
    return {'attrs': {k: [v[0], v[1]] for k, v in ATTRS.items()}, 'params': dict(PARAM_TYPES)}


def random_row(rng):
    return {
        'a': rng.choice(INT_DATA), 'c': rng.choice(INT_DATA),
        'n': rng.choice([None, None] + INT_DATA), 'm': rng.choice([None] + INT_DATA),
        'b': rng.random() < 0.5, 'nb': rng.choice([None, None, True, False]),
        's': rng.choice([x for x in STR_DATA if x]), 't': rng.choice(STR_DATA),
        'ns': rng.choice([None, None] + STR_DATA),
    }


def random_params(rng):
    return {'pi': rng.choice([-3, -1, 0, 1, 2, 5]), 'pj': rng.choice([-1, 0, 1, 3]), 'pb': rng.random() < 0.5,
            'ps': rng.choice(['a', 'b', '', 'ab', 'A'])}


# ---------------------------------------------------------------- generation

VALUE_KINDS = ('attr', 'int', 'str', 'bool', 'param', 'bin', 'neg', 'abs', 'len', 'ite')


def is_value(e):
    return e[0] in VALUE_KINDS


def has_attr(e):
    if e[0] == 'attr': return True
    return any(has_attr(x) for x in e[1:] if isinstance(x, tuple))


def subexprs(e):
    yield e
    for x in e[1:]:
        if isinstance(x, tuple):
            for y in subexprs(x): yield y


def depth(e):
    ds = [depth(x) for x in e[1:] if isinstance(x, tuple)]
    return 1 + (max(ds) if ds else 0)


def closed_compound(e):
    """a compound subexpression without attribute: Pony evaluates it in Python and passes a parameter (not in the model)"""
    return any(s[0] not in ('attr', 'int', 'str', 'bool', 'none', 'param') and not has_attr(s) for s in subexprs(e))


class Gen:
    """type-directed generator.  mode 'frag': stays inside the hypothesis set of C01_cond by construction (checked against
    Lean's `frag`); mode 'ext': adds the constructs outside it (differential only)."""
    def __init__(self, rng, mode='frag'):
        self.rng = rng; self.mode = mode

    def nullable_ok(self): return True

    def leaf(self, ty, want_attr=False):
        r = self.rng
        if ty == 'int':
            k = r.random()
            if want_attr or k < 0.6: return ('attr', r.choice(INT_ATTRS))
            if k < 0.85: return ('int', r.choice([0, 0, 1, 2, 3, 10]))
            return ('param', r.choice(['pi', 'pj']))
        if ty == 'bool':
            k = r.random()
            if want_attr or k < 0.75: return ('attr', r.choice(BOOL_ATTRS))
            if k < 0.9: return ('bool', r.random() < 0.5)
            return ('param', 'pb')
        k = r.random()
        if want_attr or k < 0.6: return ('attr', r.choice(STR_ATTRS))
        if k < 0.88: return ('str', r.choice(STR_CONSTS))
        return ('param', 'ps')

    def val(self, ty, d, want_attr=False):
        r = self.rng
        if d <= 0 or r.random() < 0.35: return self.leaf(ty, want_attr)
        k = r.random()
        if ty == 'int':
            if k < 0.45:
                op = r.choice(['+', '-', '*', '+'])
                lt = 'bool' if r.random() < 0.08 else 'int'; rt = 'bool' if r.random() < 0.08 else 'int'
                if self.mode == 'frag' or r.random() < 0.9:
                    if lt == 'bool' and rt == 'bool': rt = 'int'      # bool + bool is typed bool on SQLite: outside the value typing of the fragment
                left_attr = r.random() < 0.7
                return ('bin', op, self.val(lt, d - 1, left_attr), self.val(rt, d - 1, not left_attr))
            if k < 0.55: return ('neg', self.val('int', d - 1, True))
            if k < 0.65: return ('abs', self.val('int', d - 1, True))
            if k < 0.8: return ('len', self.val('str', d - 1, True))
            return ('ite', self.cond(d - 1, no_int_test=True), self.val('int', d - 1, True), self.val('int', d - 1))
        if ty == 'bool':
            if k < 0.6: return self.leaf('bool', want_attr)
            return ('ite', self.cond(d - 1, no_int_test=True), self.val('bool', d - 1, True), self.val('bool', d - 1))
        if k < 0.6:
            left_attr = r.random() < 0.7
            return ('bin', '+', self.val('str', d - 1, left_attr), self.val('str', d - 1, not left_attr))
        return ('ite', self.cond(d - 1, no_int_test=True), self.val('str', d - 1, True), self.val('str', d - 1))

    def cond(self, d, no_int_test=False):
        """a condition, or a value used as one (truth test)"""
        r = self.rng
        if r.random() < 0.09:                                     # negated truth test: NumericMixin.negate / StringMixin.negate
            ty = r.choice(['int', 'str', 'bool', 'bool'])
            if r.random() < 0.5:
                # the `nullable` flag every value constructor hands on decides between `x = 0`, `x = 0 OR x IS NULL` and COALESCE
                na, nn_ = r.choice(['n', 'm']), r.choice(['a', 'c'])
                probes = {'int': [('neg', ('attr', na)), ('abs', ('attr', na)), ('neg', ('attr', nn_)), ('bin', r.choice(['+', '-', '*']), ('attr', na), ('attr', nn_)),
                                  ('bin', '+', ('attr', nn_), ('int', 1)), ('len', ('attr', 'ns')), ('len', ('attr', 's')),
                                  ('ite', ('attr', 'b'), ('attr', na), ('attr', nn_)), ('ite', ('attr', 'b'), ('attr', nn_), ('int', 0))],
                          'str': [('bin', '+', ('attr', 'ns'), ('attr', 's')), ('bin', '+', ('attr', 's'), ('attr', 't')), ('ite', ('attr', 'b'), ('attr', 'ns'), ('attr', 's')),
                                  ('ite', ('attr', 'nb'), ('attr', 's'), ('attr', 't'))],
                          'bool': [('ite', ('attr', 'b'), ('attr', 'nb'), ('attr', 'b')), ('ite', ('cmp', '>', ('attr', 'a'), ('int', 0)), ('attr', 'b'), ('attr', 'b'))]}
                return ('not', r.choice(probes[ty]))
            return ('not', self.val(ty, min(d - 1, 1), True))
        k = r.random()
        if d <= 0: k = k * 0.62
        if k < 0.30:
            cls = r.choice(['int', 'int', 'str', 'bool'])
            if cls == 'int':
                lt = 'bool' if r.random() < 0.1 else 'int'; rt = 'bool' if r.random() < 0.1 else 'int'
                op = r.choice(['==', '!=', '<', '<=', '>', '>='])
            elif cls == 'bool':
                lt = rt = 'bool'; op = r.choice(['==', '!=', '==', '<'])
            else:
                lt = rt = 'str'; op = r.choice(['==', '!=', '<', '<=', '>', '>='])
            la = r.random() < 0.75
            return ('cmp', op, self.val(lt, d - 1, la), self.val(rt, d - 1, not la))
        if k < 0.38:
            ty = r.choice(['int', 'str', 'bool', 'int'])
            op = r.choice(['==', '!=', 'is', 'is not'])
            x = self.val(ty, d - 1, True)
            return ('cmp', op, x, ('none',)) if r.random() < 0.85 else ('cmp', op, ('none',), x)
        if k < 0.46:
            ty = r.choice(['int', 'str'])
            items = [r.choice([0, 1, 2, 3, 5]) if ty == 'int' else r.choice(STR_CONSTS) for _ in range(r.choice([0, 1, 2, 3]))]
            return ('in', r.random() < 0.4, self.val(ty, d - 1, True), items)
        if k < 0.54:
            kind = r.choice(['contains', 'startswith', 'endswith'])
            neg = kind == 'contains' and r.random() < 0.35
            x = self.val('str', d - 1, True)
            if neg and self.mode == 'frag' and not never_null(x):
                x = ('attr', r.choice(['s', 't']))
            return ('like', kind, neg, r.choice(STR_CONSTS), x)
        if k < 0.62:
            ty = r.choice(['int', 'str', 'bool', 'bool'])
            if no_int_test and ty == 'int': ty = 'str'
            return self.val(ty, d - 1, True)                       # truth test of a value
        if k < 0.74: return ('and', self.cond(d - 1), self.cond(d - 1))
        if k < 0.86: return ('or', self.cond(d - 1), self.cond(d - 1))
        x = self.cond(d - 1)
        if self.mode == 'frag' and not (is_value(x) or exact(x)):
            x = make_exact(x, r)
        return ('not', x)

    def expr(self, d):
        for _ in range(50):
            e = self.cond(d)
            if has_attr(e) and not closed_compound(e): return e
        return ('cmp', '==', ('attr', 'a'), ('int', 1))


class ExtGen(Gen):
    """constructs OUTSIDE the hypothesis set of C01_cond (differential oracle only)"""
    def __init__(self, rng):
        Gen.__init__(self, rng, 'ext')

    def cond(self, d, no_int_test=False):
        r = self.rng
        k = r.random()
        if d > 0 and k < 0.10:      # a condition used as an operand of a comparison
            for _ in range(20):
                c = Gen.cond(self, d - 1)
                if bool_valued(c): break
            else:
                c = ('cmp', '>', ('attr', 'a'), ('int', 1))
            v = self.val('bool', d - 1, True)
            op = r.choice(['==', '!=', '==', '<'])
            return ('cmp', op, v, c) if r.random() < 0.6 else ('cmp', op, c, v)
        if d > 0 and k < 0.18:      # not over anything
            return ('not', self.cond(d - 1))
        if k < 0.24:                # pat not in <possibly missing string>
            return ('like', 'contains', True, r.choice(STR_CONSTS), self.val('str', d - 1, True))
        if k < 0.28:                # a number compared with a string
            return ('cmp', r.choice(['==', '!=']), self.val('int', d - 1, True), self.val('str', d - 1, True))
        if k < 0.31:                # x in (items of another type)
            return ('in', r.random() < 0.4, self.val(r.choice(['int', 'bool']), d - 1, True), [r.choice([0, 1, '1', 'a', True])])
        if k < 0.34:                # None in odd places
            return ('cmp', r.choice(['<', '>=']), self.val('int', d - 1, True), ('none',))
        if k < 0.37:                # ill-typed
            return ('cmp', '==', ('bin', r.choice(['+', '-']), self.val('int', d - 1, True), self.val('str', d - 1, True)), ('int', 1))
        return Gen.cond(self, d, no_int_test)

    def val(self, ty, d, want_attr=False):
        r = self.rng
        if ty == 'int' and d > 0:
            k = r.random()
            if k < 0.06: return ('bin', r.choice(['+', '*']), self.val('bool', d - 1, True), self.val('bool', d - 1, True))
            if k < 0.10: return (r.choice(['neg', 'abs']), self.val('bool', d - 1, True))
            if k < 0.14: return ('ite', self.val('int', d - 1, True), self.val('int', d - 1, True), self.val('int', d - 1))   # int test: AttributeError
            if k < 0.18: return ('ite', self.cond(d - 1, True), self.val('int', d - 1, True), self.val('bool', d - 1, True))   # mixed branches
        return Gen.val(self, ty, d, want_attr)


def bool_valued(c):
    """Python evaluates the condition to a bool (and/or return one of their operands: all of them must be bools)"""
    k = c[0]
    if k in ('and', 'or'): return bool_valued(c[1]) and bool_valued(c[2])
    if k in ('cmp', 'in', 'like', 'not'): return True
    return is_value(c) and static_type(c) == 'bool' and c[0] != 'ite' and never_null(c)


def flag_probes():
    """every value constructor over nullable and non-nullable operands, negated and as a plain truth test: the `nullable` flag the
    constructor hands on decides the NULL handling of `not` (x = 0 / OR IS NULL / COALESCE); run on every seed"""
    out = []
    for na in ('n',):
        for nn_ in ('a',):
            vals = [('neg', ('attr', na)), ('abs', ('attr', na)), ('neg', ('attr', nn_)), ('abs', ('attr', nn_)),
                    ('bin', '+', ('attr', na), ('attr', nn_)), ('bin', '-', ('attr', nn_), ('attr', na)), ('bin', '*', ('attr', nn_), ('int', 2)),
                    ('len', ('attr', 'ns')), ('len', ('attr', 's')), ('bin', '+', ('attr', 'ns'), ('attr', 's')), ('bin', '+', ('attr', 's'), ('attr', 't')),
                    ('ite', ('attr', 'b'), ('attr', na), ('attr', nn_)), ('ite', ('attr', 'b'), ('attr', nn_), ('int', 0)),
                    ('ite', ('attr', 'b'), ('attr', 'ns'), ('attr', 's')), ('ite', ('attr', 'nb'), ('attr', 's'), ('attr', 't')),
                    ('ite', ('attr', 'b'), ('attr', 'nb'), ('attr', 'b')), ('ite', ('cmp', '>', ('attr', 'a'), ('int', 0)), ('attr', 'b'), ('attr', 'b')),
                    ('attr', 'n'), ('attr', 'nb'), ('attr', 'ns'), ('attr', 'a'), ('attr', 'b'), ('attr', 's'), ('param', 'pi'), ('int', 0), ('str', '')]
            for v in vals:
                out.append(('not', v)); out.append(('and', v, ('cmp', '>=', ('attr', 'a'), ('int', 0))))
                out.append(('or', ('not', v), ('cmp', '>', ('attr', 'c'), ('int', 100))))
    return out


def never_null(e):
    k = e[0]
    if k == 'attr': return not ATTRS[e[1]][1]
    if k in ('int', 'str', 'bool', 'param'): return True
    if k == 'bin': return never_null(e[2]) and never_null(e[3])
    if k in ('neg', 'abs', 'len'): return never_null(e[1])
    if k == 'ite': return never_null(e[2]) and never_null(e[3])
    return False


def exact(e):
    k = e[0]
    if k in ('cmp', 'in', 'like', 'not'): return True
    if k in ('and', 'or'): return exact(e[1]) and exact(e[2])
    return never_null(e)


def make_exact(e, r):
    """replace truth tests of possibly missing values below and/or by never-missing ones"""
    k = e[0]
    if k in ('and', 'or'): return (k, make_exact(e[1], r), make_exact(e[2], r))
    if exact(e): return e
    return ('cmp', r.choice(['!=', '>', '==']), e, {'int': ('int', 0), 'bool': ('bool', False), 'str': ('str', '')}[static_type(e)])


def static_type(e):
    k = e[0]
    if k == 'attr': return ATTRS[e[1]][0]
    if k in ('int', 'str', 'bool'): return k
    if k == 'param': return PARAM_TYPES[e[1]]
    if k == 'bin': return 'str' if static_type(e[2]) == 'str' else 'int'
    if k in ('neg', 'abs', 'len'): return 'int'
    if k == 'ite': return static_type(e[2])
    return 'bool'


# ---------------------------------------------------------------- source

def lit_src(x):
    return repr(x)


def src(e, chains=None):
    k = e[0]
    if k == 'attr': return 'e.' + e[1]
    if k in ('int', 'str', 'bool'): return repr(e[1])
    if k == 'none': return 'None'
    if k == 'param': return e[1]
    if k == 'cmp': return '(%s %s %s)' % (src(e[2]), e[1], src(e[3]))
    if k == 'in': return '(%s %s (%s))' % (src(e[2]), 'not in' if e[1] else 'in', ''.join(repr(i) + ', ' for i in e[3]))
    if k == 'like':
        _, kind, neg, pat, x = e
        if kind == 'contains': return '(%r %s %s)' % (pat, 'not in' if neg else 'in', src(x))
        return '%s.%s(%r)' % (src(x) if x[0] in ('attr', 'param') else '(%s)' % src(x), kind, pat)
    if k == 'and':
        # a chain  x < y < z  when the two comparisons share the middle operand
        l, r = e[1], e[2]
        if l[0] == 'cmp' and r[0] == 'cmp' and l[3] == r[2] and 'is' not in l[1] and 'is' not in r[1] and l[3][0] in ('attr', 'int', 'param') \
                and l[2][0] != 'none' and r[3][0] != 'none':
            return '(%s %s %s %s %s)' % (src(l[2]), l[1], src(l[3]), r[1], src(r[3]))
        return '(%s and %s)' % (src(l), src(r))
    if k == 'or': return '(%s or %s)' % (src(e[1]), src(e[2]))
    if k == 'not': return '(not %s)' % src(e[1])
    if k == 'bin': return '(%s %s %s)' % (src(e[2]), e[1], src(e[3]))
    if k == 'neg': return '(-%s)' % src(e[1])
    if k == 'abs': return 'abs(%s)' % src(e[1])
    if k == 'len': return 'len(%s)' % src(e[1])
    if k == 'ite': return '(%s if %s else %s)' % (src(e[2]), src(e[1]), src(e[3]))
    raise ValueError(e)


def to_json(e):
    return [to_json(x) if isinstance(x, tuple) else (list(x) if isinstance(x, list) else x) for x in e]


# ---------------------------------------------------------------- Python reading (mirror of Lean Model.Q.py)

TT, FF, UNK = 'tt', 'ff', 'unk'


class V:          # a (possibly missing) value
    __slots__ = ('v',)
    def __init__(self, v): self.v = v


class C:          # a three-valued condition
    __slots__ = ('k',)
    def __init__(self, k): self.k = k


def k_of(b): return TT if b else FF
def k_not(k): return {TT: FF, FF: TT, UNK: UNK}[k]
def k_and(a, b):
    if a == FF or b == FF: return FF
    if a == TT and b == TT: return TT
    return UNK
def k_or(a, b):
    if a == TT or b == TT: return TT
    if a == FF and b == FF: return FF
    return UNK


def as_k(r):
    if isinstance(r, C): return r.k
    if r.v is None: return FF               # a missing value is false in a truth test
    return k_of(bool(r.v))


def as_v(r):
    if isinstance(r, V): return r.v
    return {TT: True, FF: False, UNK: None}[r.k]


def py_cmp(op, a, b):
    sa, sb = isinstance(a, str), isinstance(b, str)
    if sa != sb:
        return {'==': FF, '!=': TT}.get(op, UNK)
    if not sa: a, b = int(a), int(b)
    return k_of({'==': a == b, '!=': a != b, '<': a < b, '<=': a <= b, '>': a > b, '>=': a >= b}[op])


def py_eval(e, row, params):
    k = e[0]
    if k == 'attr': return V(row[e[1]])
    if k in ('int', 'str', 'bool'): return V(e[1])
    if k == 'none': return V(None)
    if k == 'param': return V(params[e[1]])
    if k == 'cmp':
        _, op, l, r = e
        if r[0] == 'none' or l[0] == 'none':
            x = l if r[0] == 'none' else r
            missing = as_v(py_eval(x, row, params)) is None
            if op in ('==', 'is'): return C(k_of(missing))
            if op in ('!=', 'is not'): return C(k_of(not missing))
            return C(UNK)
        a = as_v(py_eval(l, row, params)); b = as_v(py_eval(r, row, params))
        if a is None or b is None: return C(UNK)            # a comparison with a missing operand is unknown
        return C(py_cmp({'is': '==', 'is not': '!='}.get(op, op), a, b))
    if k == 'in':
        _, neg, x, items = e
        a = as_v(py_eval(x, row, params))
        r = FF
        for it in items:
            r = k_or(r, UNK if (a is None or it is None) else py_cmp('==', a, it))
        return C(k_not(r) if neg else r)
    if k == 'like':
        _, kind, neg, pat, x = e
        s = as_v(py_eval(x, row, params))
        if not isinstance(s, str): return C(UNK)
        r = k_of({'contains': pat in s, 'startswith': s.startswith(pat), 'endswith': s.endswith(pat)}[kind])
        return C(k_not(r) if neg else r)
    if k == 'and': return C(k_and(as_k(py_eval(e[1], row, params)), as_k(py_eval(e[2], row, params))))
    if k == 'or': return C(k_or(as_k(py_eval(e[1], row, params)), as_k(py_eval(e[2], row, params))))
    if k == 'not': return C(k_not(as_k(py_eval(e[1], row, params))))
    if k == 'bin':
        _, op, l, r = e
        a = as_v(py_eval(l, row, params)); b = as_v(py_eval(r, row, params))
        if a is None or b is None: return V(None)
        if isinstance(a, str) and isinstance(b, str): return V(a + b if op == '+' else None)
        if isinstance(a, str) or isinstance(b, str): return V(None)
        a, b = int(a), int(b)
        return V({'+': a + b, '-': a - b, '*': a * b}[op])
    if k in ('neg', 'abs'):
        a = as_v(py_eval(e[1], row, params))
        if a is None or isinstance(a, str): return V(None)
        return V(-int(a) if k == 'neg' else abs(int(a)))
    if k == 'len':
        a = as_v(py_eval(e[1], row, params))
        return V(len(a) if isinstance(a, str) else None)
    if k == 'ite':
        return py_eval(e[2], row, params) if as_k(py_eval(e[1], row, params)) == TT else py_eval(e[3], row, params)
    raise ValueError(e)


def row_has_none(e, row):
    return any(s[0] == 'attr' and row[s[1]] is None for s in subexprs(e)) or any(s[0] == 'none' for s in subexprs(e))


# ---------------------------------------------------------------- canonical form of Pony's SQL AST

def norm_ast(x):
    """Pony SQL AST -> JSON: tuples to lists, PARAM keyed by its source text, converters dropped"""
    if isinstance(x, (list, tuple)):
        if len(x) >= 2 and x[0] == 'PARAM':
            key = x[1]
            name = key[0][1] if isinstance(key[0], tuple) else repr(key)
            return ['PARAM', name]
        return [norm_ast(i) for i in x]
    if x is None or isinstance(x, (bool, int, str)): return x
    return repr(x)


def exc_class(ex):
    n = type(ex).__name__
    if n == 'IncomparableTypesError': return 'TypeError'
    return n


# ---------------------------------------------------------------- shrinking

def shrink_candidates(e):
    """smaller expressions: each child of matching sort in place of the node, then recursively inside"""
    k = e[0]
    kids = [(i, x) for i, x in enumerate(e) if isinstance(x, tuple)]
    for i, x in kids:
        if x[0] != 'none': yield x
    for i, x in kids:
        for y in shrink_candidates(x):
            yield e[:i] + (y,) + e[i + 1:]
    if k == 'in' and e[3]:
        for j in range(len(e[3])):
            yield e[:3] + (e[3][:j] + e[3][j + 1:],)


def shrink(e, failing, budget=150):
    """greedy: `failing(expr)` must stay true"""
    cur = e
    while budget > 0:
        for c in shrink_candidates(cur):
            budget -= 1
            if budget <= 0: break
            try:
                if has_attr(c) and not closed_compound(c) and failing(c):
                    cur = c; break
            except Exception:
                continue
        else:
            break
    return cur


def canon_atoms(e):
    """rename attributes canonically by (type, nullable) class in order of first occurrence — key of a minimal failing input"""
    m = {}
    def name(a):
        cls = ATTRS[a]
        if a not in m:
            base = {('int', False): 'i', ('int', True): 'in', ('bool', False): 'b', ('bool', True): 'bn', ('str', False): 's', ('str', True): 'sn'}[cls]
            m[a] = '%s%d' % (base, sum(1 for v in m.values() if re.fullmatch(base + r'\d+', v)))
        return m[a]
    def go(x):
        if x[0] == 'attr': return ('attr', name(x[1]))
        return tuple(go(i) if isinstance(i, tuple) else i for i in x)
    return go(e)


# ---------------------------------------------------------------- Python AST (as the decompiler returns it) -> expression

import ast as _ast

_CMP = {_ast.Eq: '==', _ast.NotEq: '!=', _ast.Lt: '<', _ast.LtE: '<=', _ast.Gt: '>', _ast.GtE: '>=', _ast.Is: 'is', _ast.IsNot: 'is not'}
_BIN = {_ast.Add: '+', _ast.Sub: '-', _ast.Mult: '*'}


class Unsupported(Exception):
    pass


def expr_of_ast(node, var='e'):
    """inverse of `src` on the fragment; chains become `and` of comparisons, n-ary and/or become left-nested binary ones
    (Pony's AndMonad/OrMonad flatten both the same way)"""
    f = lambda n: expr_of_ast(n, var)
    if isinstance(node, _ast.Attribute) and isinstance(node.value, _ast.Name) and node.value.id == var:
        return ('attr', node.attr)
    if isinstance(node, _ast.Attribute) and isinstance(node.value, _ast.Attribute) and isinstance(node.value.value, _ast.Name) and node.value.value.id == var:
        return ('attr', '%s.%s' % (node.value.attr, node.attr))      # one-hop navigation `e.parent.nm` (join stream; attribute named 'parent.nm' as in `src`)
    if isinstance(node, _ast.Name): return ('param', node.id)
    if isinstance(node, _ast.Constant):
        v = node.value
        if v is None: return ('none',)
        if isinstance(v, bool): return ('bool', v)
        if isinstance(v, int): return ('int', v)
        if isinstance(v, str): return ('str', v)
        raise Unsupported(repr(v))
    if isinstance(node, _ast.Compare):
        parts = []; left = node.left
        for op, right in zip(node.ops, node.comparators):
            if isinstance(op, (_ast.In, _ast.NotIn)):
                neg = isinstance(op, _ast.NotIn)
                if isinstance(right, (_ast.Tuple, _ast.List)):
                    items = []
                    for el in right.elts:
                        if not isinstance(el, _ast.Constant): raise Unsupported('non-constant list item')
                        items.append(el.value)
                    parts.append(('in', neg, f(left), items))
                elif isinstance(right, _ast.Constant) and isinstance(right.value, (tuple, frozenset)):
                    parts.append(('in', neg, f(left), list(right.value) if isinstance(right.value, tuple) else sorted(right.value)))
                elif isinstance(left, _ast.Constant) and isinstance(left.value, str):
                    parts.append(('like', 'contains', neg, left.value, f(right)))
                else: raise Unsupported('in')
            else:
                parts.append(('cmp', _CMP[type(op)], f(left), f(right)))
            left = right
        r = parts[0]
        for p_ in parts[1:]: r = ('and', r, p_)
        return r
    if isinstance(node, _ast.BoolOp):
        k = 'and' if isinstance(node.op, _ast.And) else 'or'
        vals = [f(v) for v in node.values]
        r = vals[0]
        for v in vals[1:]: r = (k, r, v)
        return r
    if isinstance(node, _ast.UnaryOp):
        if isinstance(node.op, _ast.Not): return ('not', f(node.operand))
        if isinstance(node.op, _ast.USub):
            if isinstance(node.operand, _ast.Constant) and isinstance(node.operand.value, int) and not isinstance(node.operand.value, bool):
                return ('int', -node.operand.value)
            return ('neg', f(node.operand))
        raise Unsupported('unary')
    if isinstance(node, _ast.BinOp) and type(node.op) in _BIN:
        return ('bin', _BIN[type(node.op)], f(node.left), f(node.right))
    if isinstance(node, _ast.IfExp): return ('ite', f(node.test), f(node.body), f(node.orelse))
    if isinstance(node, _ast.Call):
        if isinstance(node.func, _ast.Name) and node.func.id in ('abs', 'len') and len(node.args) == 1 and not node.keywords:
            return (node.func.id, f(node.args[0]))
        if isinstance(node.func, _ast.Attribute) and node.func.attr in ('startswith', 'endswith') and len(node.args) == 1 \
                and isinstance(node.args[0], _ast.Constant) and isinstance(node.args[0].value, str):
            return ('like', node.func.attr, False, node.args[0].value, f(node.func.value))
    raise Unsupported(type(node).__name__)
