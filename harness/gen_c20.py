"""C20: generate lean/PonyVerif/Gen/OccTable.lean by probing the REAL per-attribute primitives of pony/orm/core.py.

`regenerate(repo, lean_dir)` has the shape of `py2lean.regenerate`; framework.regenerate_all picks it up before the Lean build.
The model PonyVerif/Model/Occ.lean treats every attribute pointwise: what happens to an attribute's read bit, write bit,
`_vals_` and `_dbvals_` entry in `Attribute.__get__`, `Attribute.__set__`, `Entity._db_set_`, and at the end of
`Entity._save_updated_` (+ `_update_dbvals_(False, ...)`) depends only on a few booleans.  Those finite tables are OBTAINED
FROM THE REAL CODE here (real entity, real objects in a real db_session on in-memory SQLite, the real methods called),
and Props/C20.lean proves (`decide`) that the model's functions compute exactly these tables (C20_bridge_*).  A change of
the source that alters a row breaks the bridge theorem on the next run.

Tables (input flags -> output):
  getRows   (w, vol, wOther)      -> rbit after `obj.a` (wOther: another attribute is assigned)   [Attribute.__get__]
  setRows   (r, w)                -> (rbit, wbit) after `obj.a = v`          [Attribute.__set__]
  dbSetRows (loaded, same, r, w)  -> 0 = UnrepeatableReadError, else 1 + 2*[_dbvals_ == new] + [_vals_ == new]   [Entity._db_set_]
  saveRows  (r, w, vol, valNone)  -> (rbit, wbit, attr in _vals_, dbvals class 0 absent / 1 the written value / 2 the old value)
                                     after a real flush()                    [_save_updated_ tail, _update_dbvals_]
  critRows  (kind, r)             -> attribute among the optimistic columns  [_construct_optimistic_criteria_]
                                     kind 0 int, 1 float, 2 float optimistic=True, 3 int optimistic=False
  exemptRows (sessOpt, forUpdate) -> the UPDATE carries the criterion of a read attribute   [_save_updated_]
  sessRows  (sessOpt, forUpdate, wrote+flushed) -> (immediate, in_transaction, in for_update, len(query_results)) before / after commit()
                                     [SessionCache.__init__, prepare_connection_for_query_execution, flush, commit]
  optRows   (immediate, ddl, serializable, optimistic) -> (db_session.immediate, db_session.optimistic), decorator = context manager
                                     [DBSessionContextManager.__init__]
  findRows  (matches, exists)     -> (found, rbit of the criterion attribute) for get(pk, a=v) / exists(pk, a=v) answered from the cache
                                     [EntityMeta._find_in_cache_]
  markRowsT (w, vol, rOther)      -> (rbit of a, rbit of another attribute) after `_set_rbits((obj,), {a})`   [EntityMeta._set_rbits]
The introspection runs in a subprocess with PYTHONPATH=<repo>.
"""
import json, os, subprocess, sys

B = (False, True)


def introspect():
    from pony.orm import Database, Required, Optional, PrimaryKey, db_session, flush, rollback
    from pony.orm.core import UnrepeatableReadError
    db = Database()
    class P(db.Entity):
        id = PrimaryKey(int)
        z = Required(int)
        p = Optional(int)
        q = Optional(int, volatile=True)
        fl = Required(float)
        fo = Required(float, optimistic=True)
        io = Required(int, optimistic=False)
    db.bind('sqlite', ':memory:')
    db.generate_mapping(create_tables=True)
    with db_session:
        db.execute("insert into P (id, z, p, q, fl, fo, io) values (1, 1, 3, 3, 1.5, 1.5, 3)")
        db.execute("insert into P (id, z, p, q, fl, fo, io) values (2, 1, NULL, NULL, 1.5, 1.5, 3)")
    out = {'get': [], 'set': [], 'dbset': [], 'save': [], 'crit': [], 'exempt': [], 'mark': [], 'sess': [], 'opts': [], 'find': [], 'errors': []}

    def bit(a): return P._bits_[a]

    for w in B:
        for vol in B:
            for wother in B:            # another attribute of the object has its write bit set: must not matter
                with db_session:
                    obj = P[1]; name = 'q' if vol else 'p'; a = getattr(P, name)
                    if wother: obj.z = 9
                    if w: setattr(obj, name, 5)
                    obj._rbits_ = 0
                    getattr(obj, name)
                    out['get'].append([[w, vol, wother], bool(obj._rbits_ & bit(a))])
                    rollback()
    for w in B:
        for vol in B:
            for rother in B:            # [_set_rbits] as called by _fetch_objects / _find_in_cache_ with the attributes a query used
                with db_session:
                    obj = P[1]; name = 'q' if vol else 'p'; a = getattr(P, name)
                    if w: setattr(obj, name, 5)
                    obj._rbits_ = bit(P.io) if rother else 0
                    P._set_rbits((obj,), {a: 3})
                    out['mark'].append([[w, vol, rother], [bool(obj._rbits_ & bit(a)), bool(obj._rbits_ & bit(P.io))]])
                    rollback()
    for r in B:
        for w in B:
            with db_session:
                obj = P[1]; a = P.p
                if w: obj.p = 4
                obj._rbits_ = (bit(a) if r else 0) | bit(P.io)      # the read bit of ANOTHER attribute must survive
                obj.p = 5
                if not obj._rbits_ & bit(P.io): out['errors'].append('__set__ cleared the read bit of another attribute')
                out['set'].append([[r, w], [bool(obj._rbits_ & bit(a)), bool(obj._wbits_ & bit(a))]])
                rollback()
    for loaded in B:
        for same in B:
            for r in B:
                for w in B:
                    if (r and not loaded) or (same and not loaded): continue
                    with db_session:
                        obj = P[1]; a = P.p
                        if w: obj.p = 5
                        if not loaded:
                            obj._dbvals_.pop(a, None)
                            if not w: obj._vals_.pop(a, None)
                        if r: obj._rbits_ |= bit(a)
                        new = 3 if same else 7
                        try: obj._db_set_({a: new})
                        except UnrepeatableReadError: code = 0
                        else: code = 1 + (2 if obj._dbvals_.get(a, 'absent') == new else 0) + (1 if obj._vals_.get(a, 'absent') == new else 0)
                        out['dbset'].append([[loaded, same, r, w], code])
                        rollback()
    for r in B:
        for w in B:
            for vol in B:
                for vn in B:
                    if r and vol: continue
                    with db_session:
                        obj = P[2 if (vn and not w) else 1]; name = 'q' if vol else 'p'; a = getattr(P, name)
                        old = obj._dbvals_.get(a, 'absent')
                        obj.z = 9
                        written = None if vn else 5
                        if w: setattr(obj, name, written)
                        if r: obj._rbits_ |= bit(a)
                        flush()
                        if a not in obj._dbvals_: cls = 0
                        elif w and obj._dbvals_[a] == written and written != old: cls = 1
                        elif obj._dbvals_[a] == old: cls = 2
                        else: cls = 3
                        out['save'].append([[r, w, vol, vn], [bool(obj._rbits_ & bit(a)), bool(obj._wbits_ & bit(a)), a in obj._vals_, cls]])
                        rollback()
    for kind, name in enumerate(['p', 'fl', 'fo', 'io']):
        for r in B:
            with db_session:
                obj = P[1]; a = getattr(P, name)
                obj._rbits_ = bit(a) if r else 0
                ops, cols, convs, vals = obj._construct_optimistic_criteria_()
                out['crit'].append([[kind, r], a.column in cols])
                rollback()
    for so in B:
        for fu in B:
            with db_session(optimistic=so):
                obj = P.get_for_update(id=1) if fu else P[1]
                obj.p
                obj.z = 9
                flush()
                sql = db.last_sql
                if not sql.lstrip().upper().startswith('UPDATE'): out['errors'].append('exempt probe: last statement is not the UPDATE: %r' % sql[:60])
                out['exempt'].append([[so, fu], '"p"' in sql.split('WHERE', 1)[-1]])
                rollback()
    # session-level flags: [SessionCache.__init__] / [prepare_connection_for_query_execution] / [flush] / [commit]
    from pony.orm import commit, select
    for so in B:
        for fu in B:
            for wrote in B:
                with db_session(optimistic=so):
                    obj = P.get_for_update(id=1) if fu else P.get(id=1)
                    select(x for x in P if x.z == 1)[:]
                    if wrote:
                        obj.z = 9
                        flush()
                    cache = db._get_cache()
                    before = [bool(cache.immediate), bool(cache.in_transaction), obj in cache.for_update, len(cache.query_results)]
                    commit()
                    cache = db._get_cache()
                    after = [bool(cache.immediate), bool(cache.in_transaction), obj in cache.for_update, len(cache.query_results)]
                    out['sess'].append([[so, fu, wrote], before + after])
                    rollback()
        with db_session(optimistic=so):
            db.execute("update P set z = 1 where id = 1")
    # keyword lookups answered from the identity map [_find_one_ -> _find_in_cache_]: get(pk, a=v) / exists(pk, a=v), criterion matching or not
    for match in B:
        for ex in B:
            with db_session:
                obj = P[1]; a = P.p
                obj._rbits_ = 0
                val = 3 if match else 999
                r = P.exists(id=1, p=val) if ex else (P.get(id=1, p=val) is not None)
                out['find'].append([[match, ex], [bool(r), bool(obj._rbits_ & bit(a))]])
                rollback()
    # the options of db_session, every combination, as context manager and as decorator: the flags the session runs with
    from pony.orm import core as _core
    for imm in B:
        for ddl in B:
            for ser in B:
                for opt in B:
                    kw = dict(immediate=imm, ddl=ddl, serializable=ser, optimistic=opt)
                    m = db_session(**kw)
                    seen = {}
                    def body():
                        ds = _core.local.db_session
                        seen['f'] = [bool(ds.immediate), bool(ds.optimistic)]
                    try: db_session(**kw)(body)()          # decorator form
                    except Exception as e: out['errors'].append('decorated db_session(%r) raised %s' % (kw, type(e).__name__))
                    try:
                        with db_session(**kw):                # context-manager form
                            ds = _core.local.db_session
                            cm = [bool(ds.immediate), bool(ds.optimistic)]
                    except Exception as e:
                        out['errors'].append('with db_session(%r) raised %s' % (kw, type(e).__name__)); cm = None
                    flags = [bool(m.immediate), bool(m.optimistic)]
                    if seen.get('f') != flags or cm != flags:
                        out['errors'].append('db_session(%r): decorator / context manager / constructor flags differ: %r %r %r' % (kw, seen.get('f'), cm, flags))
                    out['opts'].append([[imm, ddl, ser, opt], flags])
    return out


def lb(b): return 'true' if b else 'false'


def render(f):
    L = ['/- GENERATED by harness/gen_c20.py by probing the real Attribute.__get__/__set__, Entity._db_set_, _save_updated_/_update_dbvals_,',
         '   _construct_optimistic_criteria_ of /repo (real objects, real db_session, in-memory SQLite) -- do not edit. -/',
         'namespace PonyVerif.Gen.OccTable', '']
    L.append('/-- (wbit, volatile, write bit of another attribute) ↦ read bit after `obj.a` -/')
    L.append('def getRows : List ((Bool × Bool × Bool) × Bool) := [' + ', '.join('((%s, %s, %s), %s)' % (lb(k[0]), lb(k[1]), lb(k[2]), lb(v)) for k, v in f['get']) + ']')
    L.append('/-- (rbit, wbit) ↦ (rbit, wbit) after `obj.a = v` -/')
    L.append('def setRows : List ((Bool × Bool) × (Bool × Bool)) := [' + ', '.join('((%s, %s), (%s, %s))' % (lb(k[0]), lb(k[1]), lb(v[0]), lb(v[1])) for k, v in f['set']) + ']')
    L.append('/-- (loaded, same value, rbit, wbit) ↦ 0 UnrepeatableReadError | 1 + 2·[dbvals = new] + [vals = new] -/')
    L.append('def dbSetRows : List ((Bool × Bool × Bool × Bool) × Nat) := [' + ', '.join('((%s, %s, %s, %s), %d)' % (lb(k[0]), lb(k[1]), lb(k[2]), lb(k[3]), v) for k, v in f['dbset']) + ']')
    L.append('/-- (rbit, wbit, volatile, value is None) ↦ (rbit, wbit, in _vals_, _dbvals_: 0 absent / 1 written value / 2 old value) after flush() -/')
    L.append('def saveRows : List ((Bool × Bool × Bool × Bool) × (Bool × Bool × Bool × Nat)) := [' + ', '.join(
        '((%s, %s, %s, %s), (%s, %s, %s, %d))' % (lb(k[0]), lb(k[1]), lb(k[2]), lb(k[3]), lb(v[0]), lb(v[1]), lb(v[2]), v[3]) for k, v in f['save']) + ']')
    L.append('/-- (kind: 0 int, 1 float, 2 float optimistic=True, 3 int optimistic=False; rbit) ↦ among the optimistic columns -/')
    L.append('def critRows : List ((Nat × Bool) × Bool) := [' + ', '.join('((%d, %s), %s)' % (k[0], lb(k[1]), lb(v)) for k, v in f['crit']) + ']')
    L.append('/-- (db_session optimistic, object in cache.for_update) ↦ the UPDATE carries the criterion of a read attribute -/')
    L.append('def exemptRows : List ((Bool × Bool) × Bool) := [' + ', '.join('((%s, %s), %s)' % (lb(k[0]), lb(k[1]), lb(v)) for k, v in f['exempt']) + ']')
    L.append('/-- (wbit, volatile, read bit of another attribute) ↦ (read bit, read bit of the other attribute) after `_set_rbits((obj,), {a})` -/')
    L.append('def markRowsT : List ((Bool × Bool × Bool) × (Bool × Bool)) := [' + ', '.join('((%s, %s, %s), (%s, %s))' % (lb(k[0]), lb(k[1]), lb(k[2]), lb(v[0]), lb(v[1])) for k, v in f['mark']) + ']')
    L.append('/-- (db_session optimistic, get_for_update, assign + flush) ↦ (immediate, in_transaction, object in for_update, len(query_results)) before and after commit() -/')
    L.append('def sessRows : List ((Bool × Bool × Bool) × (Bool × Bool × Bool × Nat) × (Bool × Bool × Bool × Nat)) := [' + ', '.join('((%s, %s, %s), (%s, %s, %s, %d), (%s, %s, %s, %d))' % (lb(k[0]), lb(k[1]), lb(k[2]), lb(v[0]), lb(v[1]), lb(v[2]), v[3], lb(v[4]), lb(v[5]), lb(v[6]), v[7]) for k, v in f['sess']) + ']')
    L.append('/-- db_session(immediate, ddl, serializable, optimistic) ↦ (db_session.immediate, db_session.optimistic); same for the decorator and the context-manager form -/')
    L.append('def optRows : List ((Bool × Bool × Bool × Bool) × (Bool × Bool)) := [' + ', '.join('((%s, %s, %s, %s), (%s, %s))' % (lb(k[0]), lb(k[1]), lb(k[2]), lb(k[3]), lb(v[0]), lb(v[1])) for k, v in f['opts']) + ']')
    L.append('/-- (criterion matches, exists() instead of get()) ↦ (found, read bit of the criterion attribute) for a lookup answered from the identity map -/')
    L.append('def findRows : List ((Bool × Bool) × (Bool × Bool)) := [' + ', '.join('((%s, %s), (%s, %s))' % (lb(k[0]), lb(k[1]), lb(v[0]), lb(v[1])) for k, v in f['find']) + ']')
    L += ['', 'end PonyVerif.Gen.OccTable', '']
    return '\n'.join(L)


def facts(repo):
    env = dict(os.environ, PYTHONPATH=repo + os.pathsep + os.environ.get('PYTHONPATH', ''))
    py = '/venv/bin/python' if os.path.exists('/venv/bin/python') else sys.executable
    p = subprocess.run([py, os.path.abspath(__file__), '--introspect'], env=env, stdout=subprocess.PIPE, stderr=subprocess.PIPE, text=True, timeout=120)
    if p.returncode != 0: raise RuntimeError('probe failed: ' + p.stderr[-400:])
    return json.loads(p.stdout.strip().splitlines()[-1])


def regenerate(repo, lean_dir):
    path = os.path.join(lean_dir, 'PonyVerif', 'Gen', 'OccTable.lean')
    try:
        f = facts(repo)
        text = render(f)
    except Exception as e:
        return {'OccTable': {'ok': False, 'error': '%s: %s' % (type(e).__name__, e), 'info': {}, 'changed': False}}
    old = open(path).read() if os.path.exists(path) else None
    if old != text:
        os.makedirs(os.path.dirname(path), exist_ok=True)
        with open(path, 'w') as fh: fh.write(text)
    err = '; '.join(f['errors']) if f['errors'] else None
    return {'OccTable': {'ok': err is None, 'error': err, 'info': {k: len(f[k]) for k in f if k != 'errors'}, 'changed': old != text}}


extra_regenerate = regenerate

if __name__ == '__main__':
    if '--introspect' in sys.argv:
        print(json.dumps(introspect()))
    else:
        here = os.path.dirname(os.path.abspath(__file__))
        repo = os.environ.get('VERIF_REPO', '/repo')
        lean = os.environ.get('VERIF_LEAN') or os.path.join(here, '..', 'lean')
        print(json.dumps(regenerate(repo, lean), indent=1))
