"""Regenerate /verif/MANIFEST.json from harness/props/Cxx.json (one file per claimed property) and properties.jsonl."""
import json, os, glob
ROOT = os.path.dirname(os.path.dirname(os.path.abspath(__file__)))
props = [json.loads(l) for l in open(os.path.join(ROOT, 'properties.jsonl'))]
ids = [p['id'] for p in props]
metas = {}
for f in sorted(glob.glob(os.path.join(ROOT, 'harness', 'props', 'C*.json'))):
    m = json.load(open(f)); metas[os.path.basename(f)[:-5]] = m
na_path = os.path.join(ROOT, 'harness', 'props', 'not_applicable.json')
na = json.load(open(na_path)) if os.path.exists(na_path) else {}
enabled = set(open(os.path.join(ROOT, 'harness', 'props', 'enabled.txt')).read().split())   # properties whose check the coordinator has accepted
checks = []
for i in ids:
    if i not in metas or i not in enabled: continue
    m = metas[i]
    checks.append({
        'property_id': i,
        'quick_cmd': './check %s --tier quick' % i,
        'thorough_cmd': './check %s --tier thorough' % i,
        'evidence_file': 'evidence/%s.json' % i,
        'replay_cmd_template': './check %s --replay {path}' % i,
        'engine': m.get('engine', ''),
        'level_claimed': {'category': m['level'], 'text': m['level_text'], 'design_ref': m.get('design_ref', '')},
        'level_note': m['level_note'],
        'technique': m.get('technique', 'Lean 4 machine-checked proof + correspondence check'),
    })
engines = [
 {'name': 'P', 'path': 'harness/py2lean.py, lean/PonyVerif/Gen, lean/PonyVerif/Py', 'kind_free_text': 'pure functions: Python->Lean translator (model regenerated from source each run), typed mirrors, bridge theorems'},
 {'name': 'Q', 'path': 'lean/PonyVerif/Model (Sql*, Translate*)', 'kind_free_text': 'query translation fragment: SQL AST evaluator (3-valued), translation model, differential against real SQLite'},
 {'name': 'D', 'path': 'lean/PonyVerif/Model (Bytecode*, PyPrint*)', 'kind_free_text': 'decompiler translation validation with a proved-sound equivalence checker; source printer precedence'},
 {'name': 'S', 'path': 'lean/PonyVerif/Model (Session*)', 'kind_free_text': 'session state machine: identity map, relationship ends, undo logs, save queue; differential against real Pony'},
 {'name': 'T', 'path': 'lean/PonyVerif/Model (DbSession*, ConnLock*, Txn*)', 'kind_free_text': 'transaction / lock / connection protocol state machines with failure oracles; trace conformance through a tracing DB-API connection'},
 {'name': 'I', 'path': 'lean/PonyVerif/Model (Occ*, SharedCache*)', 'kind_free_text': 'N-session / N-thread interleaving models, all schedules by induction'},
]
for e in engines:
    e['serves_properties'] = [c['property_id'] for c in checks if c['engine'] == e['name']]
man = {
 'version': 1,
 'setup_cmd': './setup.sh',
 'hooks': {'guard': 'PONYORM_PONY_VERIF', 'enable': 'no source hooks are needed: tracing / fault injection go through sqlite3.connect(factory=...) and harness-side stubs; checks run /repo as it is',
           'baseline_off_cmd': 'cd /repo && /venv/bin/python -m pytest -ra -q -p no:cacheprovider --timeout=900 --continue-on-collection-errors',
           'source_commits': [], 'add_only': True},
 'engines': engines,
 'checks': checks,
 'notes': 'Every check: ./check <id> regenerates lean/PonyVerif/Gen from /repo, rebuilds the Lean proofs (lake, incremental), audits axioms, runs the correspondence/oracle engine on the real code, writes evidence/<id>.json. Exit 0 / 1 (VIOLATION line) / 2 (infrastructure).',
 'not_applicable': [{'property_id': i, 'reason': na.get(i, 'not claimed: no finished theorem + tie for this property yet (see DESIGN.md section 9 status table)')} for i in ids if i not in [c['property_id'] for c in checks]],
}
json.dump(man, open(os.path.join(ROOT, 'MANIFEST.json'), 'w'), indent=1)
print('checks:', [c['property_id'] for c in checks])
