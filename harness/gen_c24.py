"""C24: generate lean/PonyVerif/Gen/QueryShape.lean from the CURRENT source of pony/orm/core.py and sqltranslation.py.

Model/Limit.lean and Model/Aggr.lean mirror a handful of constants and tests of the query methods by hand
(get fetches a LIMIT 2 prefix and raises for more than one row, exists / first fetch LIMIT 1, first() orders an
unordered query and switches DISTINCT off, random(n) is ORDER BY random() + [:n], a NULL SUM becomes 0 and nothing else,
a newer order_by criterion is PREPENDED, the DELETE subquery of a grouped bulk delete keeps GROUP BY and HAVING, the
alias-dropping short DELETE form is guarded by used_from_subquery and resolve_name marks the query that owns the name).
This generator re-derives them from the abstract syntax tree on every run; `Props/C24.lean: C24_bridge_query_shape`
states that they equal what the model was written against.  Anything it does not recognise makes it fail (closed).
`regenerate(repo, lean_dir)` has the shape of py2lean.regenerate.
"""
import ast, json, os, re


def find_method(tree, cls, name):
    for node in tree.body:
        if isinstance(node, ast.ClassDef) and node.name == cls:
            for f in node.body:
                if isinstance(f, ast.FunctionDef) and f.name == name: return f
    raise LookupError('%s.%s not found' % (cls, name))


def slice_stop(node):
    """query[:N] -> N (int) ; query[:name] -> name (str)"""
    assert isinstance(node, ast.Subscript) and isinstance(node.slice, ast.Slice), ast.dump(node)
    s = node.slice
    assert s.lower is None and s.step is None, ast.dump(node)
    if isinstance(s.upper, ast.Constant): return s.upper.value
    if isinstance(s.upper, ast.Name): return s.upper.id
    raise AssertionError(ast.dump(node))


def analyse(repo):
    core = ast.parse(open(os.path.join(repo, 'pony', 'orm', 'core.py')).read())
    tr = ast.parse(open(os.path.join(repo, 'pony', 'orm', 'sqltranslation.py')).read())
    f = {}
    # ---- Query.get: objects = query[:N]; if not objects: return None; if len(objects) > K: throw(MultipleObjectsFoundError ...); return objects[0]
    g = find_method(core, 'Query', 'get')
    st = g.body
    assert isinstance(st[0], ast.Assign) and st[0].targets[0].id == 'objects'
    f['getStop'] = slice_stop(st[0].value)
    assert isinstance(st[1], ast.If) and ast.unparse(st[1].test) == 'not objects' and ast.unparse(st[1].body[0]) == 'return None', ast.unparse(st[1])
    t = st[2]
    assert isinstance(t, ast.If) and isinstance(t.test, ast.Compare) and ast.unparse(t.test.left) == 'len(objects)' and isinstance(t.test.ops[0], ast.Gt)
    f['getMultipleAbove'] = t.test.comparators[0].value
    assert 'MultipleObjectsFoundError' in ast.unparse(t.body[0])
    assert ast.unparse(st[3]) == 'return objects[0]' and len(st) == 4, ast.unparse(g)
    # ---- Query.exists: objects = query[:N]; return bool(objects)
    e = find_method(core, 'Query', 'exists').body
    f['existsStop'] = slice_stop(e[0].value)
    assert ast.unparse(e[1]) == 'return bool(objects)' and len(e) == 2
    # ---- Query.first
    fi = find_method(core, 'Query', 'first').body
    src = [ast.unparse(s) for s in fi]
    assert src[0] == 'translator = query._translator', src
    chain = fi[1]
    assert isinstance(chain, ast.If) and ast.unparse(chain.test) == 'translator.order' and ast.unparse(chain.body[0]) == 'pass', src[1]
    inner = chain.orelse[0]
    assert isinstance(inner, ast.If) and ast.unparse(inner.test) == 'type(translator.expr_type) is tuple'
    assert ast.unparse(inner.body[0]) == 'query = query.order_by(*[i + 1 for i in range(len(query._translator.expr_type))])', ast.unparse(inner.body[0])
    assert ast.unparse(inner.orelse[0]) == 'query = query.order_by(1)'
    f['firstOrdersUnordered'] = True
    take = fi[2]
    assert isinstance(take, ast.Assign) and take.targets[0].id == 'objects'
    f['firstStop'] = slice_stop(take.value)
    f['firstWithoutDistinct'] = ast.unparse(take.value.value) == 'query.without_distinct()'
    assert src[3] == 'if not objects:\n    return None' and src[4] == 'return objects[0]' and len(fi) == 5, src
    # ---- Query.random(limit): return query.order_by('random()')[:limit]
    r = find_method(core, 'Query', 'random')
    assert [a.arg for a in r.args.args] == ['query', 'limit']
    ret = r.body[0]
    assert isinstance(ret, ast.Return)
    f['randomStop'] = slice_stop(ret.value)
    assert ast.unparse(ret.value.value) == "query.order_by('random()')", ast.unparse(ret)
    f['randomOrder'] = 'random()'
    # ---- Query._aggregate: the only None replacement is SUM -> 0
    ag = find_method(core, 'Query', '_aggregate')
    repl = []
    for node in ast.walk(ag):
        if isinstance(node, ast.If) and 'result is None' in ast.unparse(node.test) and len(node.body) == 1 and isinstance(node.body[0], ast.Assign) \
                and ast.unparse(node.body[0].targets[0]) == 'result':
            repl.append((ast.unparse(node.test), ast.unparse(node.body[0].value)))
    assert repl == [("result is None and aggr_func_name == 'SUM'", '0')], repl
    f['nullSumIsZero'] = True
    # ---- order_by: the newer criterion is prepended
    for name in ('order_by_numbers', 'order_by_attributes'):
        m = find_method(tr, 'SQLTranslator', name)
        stmts = [ast.unparse(s) for s in ast.walk(m) if isinstance(s, (ast.Assign, ast.AugAssign, ast.Expr))]
        assert 'order[:0] = new_order' in stmts, (name, stmts)
        assert not any(re.search(r'(?<![\w.])(translator\.)?order\.(extend|append|insert)\(|(?<![\w.])order \+= ', s) for s in stmts), (name, stmts)
    al = find_method(tr, 'SQLTranslator', 'apply_lambda')
    assert any(ast.unparse(s) == 'translator.order[:0] = new_order' for s in ast.walk(al) if isinstance(s, ast.Assign))
    f['orderByPrepends'] = True
    # ---- bulk delete: the IN-subquery carries WHERE, GROUP BY and HAVING
    d = find_method(tr, 'SQLTranslator', 'construct_delete_sql_ast')
    text = ast.unparse(d)
    f['deleteSubqueryWhere'] = "subquery_ast.append(['WHERE'] + translator.conditions)" in text
    f['deleteSubqueryGroupBy'] = "subquery_ast.append(group_by)" in text and "group_by = ['GROUP_BY']" in text
    f['deleteSubqueryHaving'] = "subquery_ast.append(['HAVING'] + translator.having_conditions)" in text
    # ---- the alias-dropping short form DELETE FROM T WHERE ... is only taken when no subquery refers to the query's names;
    #      resolve_name marks the query that OWNS the name (not the direct parent of the subquery)
    tests = [ast.unparse(n.test) for n in ast.walk(d) if isinstance(n, ast.If) and 'used_from_subquery' in ast.unparse(n.test)]
    f['deleteShortFormGuarded'] = tests == ['not force_in and len(from_ast) == 2 and (not translator.sqlquery.used_from_subquery)']
    rn = find_method(tr, 'SQLTranslator', 'resolve_name')
    marks = [(ast.unparse(n.test), [ast.unparse(b) for b in n.body]) for n in ast.walk(rn) if isinstance(n, ast.If) and 'used_from_subquery' in ast.unparse(n)]
    f['subqueryMarksOwner'] = marks == [('monad.translator is not translator', ['monad.translator.sqlquery.used_from_subquery = True'])]
    sq = [ast.unparse(n) for n in ast.walk(tr) if isinstance(n, ast.Assign) and 'used_from_subquery' in ast.unparse(n.targets[0])]
    assert sorted(sq) == sorted(['monad.translator.sqlquery.used_from_subquery = True', 'sqlquery.used_from_subquery = False',
                                 'parent_sqlquery.used_from_subquery = True', 'parent_tableref.sqlquery.used_from_subquery = True']) or not f['subqueryMarksOwner'], sq
    # ---- QueryResult: every materialisation fetches (limit, offset) — the window the result was created with
    qr = [n for n in core.body if isinstance(n, ast.ClassDef) and n.name == 'QueryResult'][0]
    calls = [ast.unparse(c) for c in ast.walk(qr) if isinstance(c, ast.Call) and isinstance(c.func, ast.Attribute) and c.func.attr == '_actual_fetch']
    assert len(calls) >= 4, calls
    f['resultFetchesWindow'] = all(c in ('self._query._actual_fetch(self._limit, self._offset)', 'self._query._actual_fetch(limit, offset)') for c in calls)
    getitems = [ast.unparse(c) for m in qr.body if isinstance(m, ast.FunctionDef) and m.name in ('__getstate__', '__contains__', 'index', '__eq__', '__reversed__', 'reverse', '__str__')
                for c in ast.walk(m) if isinstance(c, ast.Call) and isinstance(c.func, ast.Attribute) and c.func.attr in ('_get_items', '_actual_fetch')]
    f['resultFetchesWindow'] = f['resultFetchesWindow'] and all(c.endswith('._get_items()') or c.endswith('_actual_fetch(self._limit, self._offset)') for c in getitems)
    return f


def lean_val(v):
    if isinstance(v, bool): return 'true' if v else 'false'
    if isinstance(v, int): return '(.num %d)' % v
    if isinstance(v, str): return '(.name "%s")' % v
    raise TypeError(v)


def render(f):
    lines = ['/- GENERATED by harness/gen_c24.py from pony/orm/core.py and sqltranslation.py — do not edit -/',
             'namespace PonyVerif.Gen.QueryShape', '',
             '/-- a slice bound in the source: a literal or the name of an argument -/',
             'inductive Bound where', '  | num : Nat → Bound', '  | name : String → Bound', '  deriving DecidableEq, Repr', '',
             'structure Shape where',
             '  getStop : Bound', '  getMultipleAbove : Nat', '  existsStop : Bound', '  firstStop : Bound', '  firstOrdersUnordered : Bool',
             '  firstWithoutDistinct : Bool', '  randomStop : Bound', '  randomOrder : String', '  nullSumIsZero : Bool', '  orderByPrepends : Bool',
             '  deleteSubqueryWhere : Bool', '  deleteSubqueryGroupBy : Bool', '  deleteSubqueryHaving : Bool',
             '  deleteShortFormGuarded : Bool', '  subqueryMarksOwner : Bool', '  resultFetchesWindow : Bool',
             '  deriving DecidableEq, Repr', '',
             'def shape : Shape := {']
    def b(v): return lean_val(v).strip('()') if False else lean_val(v)
    lines += ['  getStop := %s,' % lean_val(f['getStop']).replace('(.', '.').rstrip(')'),
              '  getMultipleAbove := %d,' % f['getMultipleAbove'],
              '  existsStop := %s,' % lean_val(f['existsStop']).replace('(.', '.').rstrip(')'),
              '  firstStop := %s,' % lean_val(f['firstStop']).replace('(.', '.').rstrip(')'),
              '  firstOrdersUnordered := %s,' % lean_val(f['firstOrdersUnordered']),
              '  firstWithoutDistinct := %s,' % lean_val(f['firstWithoutDistinct']),
              '  randomStop := %s,' % lean_val(f['randomStop']).replace('(.', '.').rstrip(')'),
              '  randomOrder := "%s",' % f['randomOrder'],
              '  nullSumIsZero := %s,' % lean_val(f['nullSumIsZero']),
              '  orderByPrepends := %s,' % lean_val(f['orderByPrepends']),
              '  deleteSubqueryWhere := %s,' % lean_val(f['deleteSubqueryWhere']),
              '  deleteSubqueryGroupBy := %s,' % lean_val(f['deleteSubqueryGroupBy']),
              '  deleteSubqueryHaving := %s,' % lean_val(f['deleteSubqueryHaving']),
              '  deleteShortFormGuarded := %s,' % lean_val(f['deleteShortFormGuarded']),
              '  subqueryMarksOwner := %s,' % lean_val(f['subqueryMarksOwner']),
              '  resultFetchesWindow := %s }' % lean_val(f['resultFetchesWindow']),
              '', 'end PonyVerif.Gen.QueryShape', '']
    return '\n'.join(lines)


def regenerate(repo, lean_dir):
    path = os.path.join(lean_dir, 'PonyVerif', 'Gen', 'QueryShape.lean')
    try:
        f = analyse(repo)
        text = render(f)
    except Exception as e:
        return {'QueryShape': {'ok': False, 'error': '%s: %s' % (type(e).__name__, e), 'info': {}, 'changed': False}}
    old = open(path).read() if os.path.exists(path) else None
    if old != text:
        os.makedirs(os.path.dirname(path), exist_ok=True)
        with open(path, 'w') as fh: fh.write(text)
    return {'QueryShape': {'ok': True, 'error': None, 'info': f, 'changed': old != text}}


if __name__ == '__main__':
    here = os.path.dirname(os.path.abspath(__file__))
    repo = os.environ.get('VERIF_REPO', '/repo')
    lean = os.environ.get('VERIF_LEAN') or os.path.join(here, '..', 'lean')
    print(json.dumps(regenerate(repo, lean), indent=1))
