"""Tracing, fault-injecting DB-API layer for SQLite (Engine T: C17, C18, C19, C35; also usable by C20).

Nothing in Pony is patched.  `sqlite3.connect` accepts `factory=`, and `SQLitePool` passes its `**kwargs` through to
`sqlite3.connect`, so a `sqlite3.Connection` subclass can be put under an unmodified provider:

    from tracing import Tracer
    tr = Tracer()
    db = Database()
    db.bind('sqlite', path, create_db=True, **tr.bind_kwargs())     # == factory=tr.Connection
    ...
    tr.set_faults([Fault(index=tr.next_index + 3)])                 # the 4th DB-API call from now raises
    with db_session: ...
    tr.events                                                       # what the provider really did

What is recorded
----------------
Every DB-API call of the seven kinds of the C19 quantifier, in one shared, ordered list `Tracer.events`:

    connect      the construction of the connection (`TracingConnection.__init__`, i.e. inside `sqlite3.connect`)
    cursor       `connection.cursor()`
    execute      `cursor.execute(sql[, args])` and `connection.execute(sql[, args])` (one event, not cursor+execute)
    executemany  `cursor.executemany(sql, seq)` and `connection.executemany`
    commit, rollback, close   methods of the connection

An event is a dict
    {'i': global call index (0-based, over all threads), 'call': kind, 'con': small integer id of the connection
     (order of creation), 'sql': text or None, 'kind': `classify_sql(sql)` or None, 'thread': thread name,
     'outcome': 'ok' | exception class name, 'injected': bool}
A connection gets its id when it has really been opened; the `connect` event of a failed connect has 'con': None.
`fetch*`, `create_function`, attribute access are not DB-API calls of the quantifier and are not traced.

Fault schedule
--------------
`Fault(index=k)`                     the call with global index k raises
`Fault(call='commit', nth=0)`        the first `commit` (counted from the moment the schedule is set) raises
`Fault(..., exc=sqlite3.IntegrityError, msg='...', when='before'|'after')`
     'before' (default): raise INSTEAD of performing the call; 'after': perform the real call, then raise.
     `close` faults default to 'after' (the handle is really closed, the caller sees an exception), so that a later
     "database is locked" cannot be an artefact of the injection itself.
`Fault(..., thread='T1')`            only calls made by that thread count / match
`Tracer.set_faults(list)` replaces the schedule, `Tracer.clear_faults()` empties it.  A fault fires once; at most one
fault fires per call (the first matching entry); the `nth` counters of all pending entries advance on every call of their kind.

Hooks (deterministic schedulers for C35/C20)
--------------------------------------------
`tr.before_call.append(f)` / `tr.after_call.append(f)`: `f(event)` is called in the calling thread right before the
fault check / right after the outcome is known.  A hook may block (hand-off between threads) — no tracer lock is held
while hooks run.

`connect` failures without `factory=` (e.g. a provider bound elsewhere): `with tr.patched_connect(): ...` rebinds the
module attribute `pony.orm.dbproviders.sqlite.sqlite` (the name `SQLitePool._connect` looks `connect` up in) to a proxy
that injects the factory; `SQLiteProvider.dbapi_module` keeps pointing at the real `sqlite3`, so exception wrapping is
unchanged.
"""
import sqlite3, threading, contextlib, types

CALL_KINDS = ('connect', 'cursor', 'execute', 'executemany', 'commit', 'rollback', 'close')


def classify_sql(sql):
    """coarse, stable class of a statement Pony emits on SQLite (used to compare real traces with models)"""
    if sql is None: return None
    s = ' '.join(sql.split()).upper()
    if s == 'PRAGMA FOREIGN_KEYS = TRUE': return 'pragma_fk_on'
    if s == 'PRAGMA FOREIGN_KEYS = FALSE': return 'pragma_fk_off'
    if s == 'PRAGMA FOREIGN_KEYS': return 'pragma_fk_query'
    if s == 'PRAGMA CASE_SENSITIVE_LIKE = TRUE': return 'pragma_like'
    if s.startswith('PRAGMA'): return 'pragma'
    if s.startswith('BEGIN'): return 'begin'
    if s.startswith('SELECT') or s.startswith('WITH'): return 'select'
    if s.startswith('INSERT') or s.startswith('REPLACE'): return 'insert'
    if s.startswith('UPDATE'): return 'update'
    if s.startswith('DELETE'): return 'delete'
    if s.startswith('COMMIT') or s.startswith('END'): return 'commit_sql'
    if s.startswith('ROLLBACK'): return 'rollback_sql'
    if s.split(' ', 1)[0] in ('CREATE', 'DROP', 'ALTER'): return 'ddl'
    return 'other'


class Fault(object):
    """one injected failure; see the module docstring"""
    def __init__(self, index=None, call=None, nth=0, exc=sqlite3.OperationalError, msg='injected fault', when=None, thread=None):
        assert (index is None) != (call is None), 'give either index= or call='
        assert call is None or call in CALL_KINDS, call
        self.index = index; self.call = call; self.nth = nth
        self.exc = exc; self.msg = msg; self.when = when; self.thread = thread
        self.seen = 0; self.fired = False
    def moment(self, call):
        return self.when or ('after' if call == 'close' else 'before')
    def __repr__(self):
        w = ('index=%d' % self.index) if self.index is not None else ('call=%s nth=%d' % (self.call, self.nth))
        return 'Fault(%s, %s)' % (w, self.exc.__name__)


class Tracer(object):
    """shared trace + fault schedule; `Tracer.Connection` is the `factory=` class bound to this tracer"""
    def __init__(self, faults=()):
        self.events = []
        self.before_call = []
        self.after_call = []
        self._lock = threading.Lock()
        self._next = 0
        self._ncons = 0
        self._faults = list(faults)
        self.connections = []            # every TracingConnection really opened (strong refs: ids stay valid)
        self.lock_waits = []             # [thread name, 'acquire'|'pre_acquire'] of lock acquisitions in progress
        tracer = self

        class TracingCursor(sqlite3.Cursor):
            def execute(self, sql, *args):
                return tracer._call('execute', self.connection, sql, lambda: sqlite3.Cursor.execute(self, sql, *args))
            def executemany(self, sql, *args):
                return tracer._call('executemany', self.connection, sql, lambda: sqlite3.Cursor.executemany(self, sql, *args))

        class TracingConnection(sqlite3.Connection):
            def __init__(self, *args, **kwargs):
                self.trace_id = None         # assigned when the connection has really been opened
                self.trace_closed = 0        # number of close() calls made on this connection
                self.trace_opened = False
                def real():
                    sqlite3.Connection.__init__(self, *args, **kwargs)
                    self.trace_opened = True
                    with tracer._lock:
                        self.trace_id = tracer._ncons; tracer._ncons += 1
                        tracer.connections.append(self)
                tracer._call('connect', self, None, real)
            def cursor(self, *args):
                return tracer._call('cursor', self, None, lambda: sqlite3.Connection.cursor(self, *(args or (TracingCursor,))))
            def execute(self, sql, *args):
                def real():
                    cur = sqlite3.Connection.cursor(self, TracingCursor)
                    sqlite3.Cursor.execute(cur, sql, *args)
                    return cur
                return tracer._call('execute', self, sql, real)
            def executemany(self, sql, *args):
                def real():
                    cur = sqlite3.Connection.cursor(self, TracingCursor)
                    sqlite3.Cursor.executemany(cur, sql, *args)
                    return cur
                return tracer._call('executemany', self, sql, real)
            def commit(self):
                return tracer._call('commit', self, None, lambda: sqlite3.Connection.commit(self))
            def rollback(self):
                return tracer._call('rollback', self, None, lambda: sqlite3.Connection.rollback(self))
            def close(self):
                self.trace_closed += 1
                return tracer._call('close', self, None, lambda: sqlite3.Connection.close(self))
            def really_close(self):
                """close without tracing (cleanup by the harness)"""
                try: sqlite3.Connection.close(self)
                except Exception: pass

        self.Connection = TracingConnection
        self.Cursor = TracingCursor

    # ---- configuration -------------------------------------------------------------------------------------------
    def bind_kwargs(self, **extra):
        """keyword arguments for `Database.bind('sqlite', filename, create_db=True, **tr.bind_kwargs())`"""
        return dict(extra, factory=self.Connection)

    @property
    def next_index(self):
        return self._next

    def set_faults(self, faults):
        with self._lock:
            self._faults = list(faults)
            for f in self._faults: f.seen = 0; f.fired = False

    def clear_faults(self):
        self.set_faults([])

    def mark(self):
        """position in `events`; `tr.since(m)` returns the events recorded after it"""
        return len(self.events)

    def since(self, mark):
        return self.events[mark:]

    # ---- the one choke point -------------------------------------------------------------------------------------
    def _call(self, call, con, sql, real):
        tname = threading.current_thread().name
        with self._lock:
            i = self._next; self._next += 1
            fault = None
            for f in self._faults:
                # every pending fault sees the call (its per-kind counter advances even when an earlier entry fires)
                if f.fired: continue
                if f.thread is not None and f.thread != tname: continue
                hit = False
                if f.index is not None:
                    hit = f.index == i
                elif f.call == call:
                    hit = f.seen == f.nth
                    f.seen += 1
                if hit and fault is None:
                    fault = f; f.fired = True
            ev = {'i': i, 'call': call, 'con': getattr(con, 'trace_id', None), 'sql': sql, 'kind': classify_sql(sql),
                  'thread': tname, 'outcome': None, 'injected': fault is not None}
            self.events.append(ev)
        for h in list(self.before_call): h(ev)
        try:
            if fault is not None and fault.moment(call) == 'before':
                raise fault.exc(fault.msg)
            result = real()
            if fault is not None:
                raise fault.exc(fault.msg)
        except BaseException as e:
            ev['outcome'] = type(e).__name__
            for h in list(self.after_call): h(ev)
            raise
        ev['outcome'] = 'ok'
        if call == 'connect': ev['con'] = getattr(con, 'trace_id', None)
        for h in list(self.after_call): h(ev)
        return result

    # ---- provider locks ------------------------------------------------------------------------------------------
    def wrap_locks(self, provider):
        """replace `provider.pre_transaction_lock` / `provider.transaction_lock` (instance attributes of SQLiteProvider)
        by recording wrappers around the same lock objects.  Lock events go into `events` as
        {'i': None, 'call': 'pre_acquire'|'pre_release'|'acquire'|'release', 'thread': ..., 'outcome': 'ok'|exception}
        (an acquire is recorded when it RETURNS, a release right BEFORE the lock is released, so `events` is a faithful
        linearisation of the lock operations; `lock_waits` lists [thread, 'acquire'|'pre_acquire'] of pending acquires).
        They do not consume DB-API call indices."""
        provider.pre_transaction_lock = TracedLock(self, provider.pre_transaction_lock, 'pre_')
        provider.transaction_lock = TracedLock(self, provider.transaction_lock, '')

    def lock_events(self, events=None):
        return [e for e in (self.events if events is None else events) if e['i'] is None]

    def db_events(self, events=None):
        return [e for e in (self.events if events is None else events) if e['i'] is not None]

    # ---- observations --------------------------------------------------------------------------------------------
    def close_counts(self):
        """{connection id: number of close() calls}"""
        return {c.trace_id: c.trace_closed for c in self.connections}

    def is_open(self, con):
        """does the handle still accept statements (i.e. it was opened and not really closed)"""
        if not getattr(con, 'trace_opened', False): return False
        try:
            sqlite3.Connection.cursor(con).close(); return True
        except sqlite3.ProgrammingError:
            return False

    def in_transaction(self, con):
        try: return bool(con.in_transaction)
        except sqlite3.ProgrammingError: return False

    def cleanup(self):
        """really close every connection (end of a test case)"""
        for c in self.connections: c.really_close()

    def compact(self, events=None):
        """[(call, kind, con, outcome)] — the canonical form engines compare with model traces"""
        return [([e['call'], e['kind'], e['con'], 'ok' if e['outcome'] == 'ok' else 'raise'] if e['i'] is not None else [e['call']])
                for e in (self.events if events is None else events)]

    # ---- optional: put the factory under a provider that was bound without `factory=` ---------------------------------
    @contextlib.contextmanager
    def patched_connect(self):
        """rebind `pony.orm.dbproviders.sqlite.sqlite` to a proxy whose `connect` injects this tracer's factory"""
        import pony.orm.dbproviders.sqlite as mod
        real = mod.sqlite
        tracer = self
        class Proxy(types.ModuleType):
            def __getattr__(self, name): return getattr(real, name)
        proxy = Proxy('sqlite3_traced')
        def connect(*args, **kwargs):
            kwargs.setdefault('factory', tracer.Connection)
            return real.connect(*args, **kwargs)
        proxy.connect = connect
        mod.sqlite = proxy
        try: yield self
        finally: mod.sqlite = real


class TracedLock(object):
    """recording wrapper around a `threading.Lock` (see `Tracer.wrap_locks`)"""
    def __init__(self, tracer, lock, prefix):
        self.tracer = tracer; self.lock = lock; self.prefix = prefix
    def _record(self, what, outcome='ok'):
        ev = {'i': None, 'call': self.prefix + what, 'con': None, 'sql': None, 'kind': None,
              'thread': threading.current_thread().name, 'outcome': outcome, 'injected': False}
        with self.tracer._lock: self.tracer.events.append(ev)
        for h in list(self.tracer.after_call): h(ev)
        return ev
    def acquire(self, *args, **kwargs):
        me = [threading.current_thread().name, self.prefix + 'acquire']
        self.tracer.lock_waits.append(me)
        try: r = self.lock.acquire(*args, **kwargs)
        finally: self.tracer.lock_waits.remove(me)
        if r: self._record('acquire')          # recorded when the lock has been obtained
        return r
    def release(self):
        # recorded BEFORE the lock is really released, so that the `acquire` event of the next holder can never
        # overtake it in `events` (the global order of lock events is then a faithful linearisation)
        ev = self._record('release')
        try: self.lock.release()
        except BaseException as e:
            ev['outcome'] = type(e).__name__; raise
    def locked(self):
        return self.lock.locked()
    __enter__ = acquire
    def __exit__(self, *a): self.release()


class Watchdog(object):
    """run `fn` in a fresh thread and wait at most `timeout` seconds: `Watchdog.run(fn, 2.0)` ->
    ('ok', result) | ('raised', exception) | ('blocked', None).  A blocked thread is left behind as a daemon.
    `slow_ok`: optional callable; when the deadline passes and `slow_ok()` is true (e.g. `lambda: not tr.lock_waits`:
    no thread is waiting for a provider lock, the machine is just slow) the thread gets `grace` more seconds."""
    @staticmethod
    def run(fn, timeout=2.0, name='watchdog-session', slow_ok=None, grace=30.0):
        box = {}
        def target():
            try: box['r'] = ('ok', fn())
            except BaseException as e: box['r'] = ('raised', e)
        t = threading.Thread(target=target, name=name, daemon=True)
        t.start(); t.join(timeout)
        if t.is_alive() and slow_ok is not None:
            import time
            end = time.time() + grace
            while t.is_alive() and time.time() < end and slow_ok(): t.join(0.2)
            if t.is_alive(): t.join(timeout)
        if t.is_alive(): return ('blocked', None)
        return box['r']
