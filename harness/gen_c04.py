"""C04: generate lean/PonyVerif/Gen/C04Src.lean — the numbers the printer model hand-mirrors, read from the CURRENT source of
pony/orm/asttranslation.py on every run: the `@priority(p)` of every `post…` method of PythonTranslator, the priorities set by
hand (`node.priority = n`), the priority given to a folded negative constant, the threshold of `primary_src`, the comparison the
`priority` decorator uses, and `nonexternalizable_types`.  Props/C04.lean proves that the model's `codePrio`, `BinOp.prio`,
`wrapT`/`primT` and `nonExternalizable` agree with these — a change of any of them in the source breaks a bridge theorem.
Pure source analysis (ast): nothing of the repo is imported.  Anything unexpected makes the generator fail (ok=False)."""
import ast, os


class Unknown(Exception):
    pass


def const_int(n):
    if isinstance(n, ast.Constant) and type(n.value) is int: return n.value
    raise Unknown('integer literal expected: %s' % ast.unparse(n))


def build(repo):
    path = os.path.join(repo, 'pony', 'orm', 'asttranslation.py')
    tree = ast.parse(open(path).read())
    cls = next((n for n in tree.body if isinstance(n, ast.ClassDef) and n.name == 'PythonTranslator'), None)
    if cls is None: raise Unknown('class PythonTranslator not found')
    decorated, manual = {}, {}
    neg = None
    for f in cls.body:
        if not isinstance(f, ast.FunctionDef) or not f.name.startswith('post'): continue
        for d in f.decorator_list:
            if isinstance(d, ast.Call) and isinstance(d.func, ast.Name) and d.func.id == 'priority' and len(d.args) == 1:
                decorated[f.name] = const_int(d.args[0])
            else: raise Unknown('unexpected decorator on %s' % f.name)
        for st in ast.walk(f):
            if isinstance(st, ast.Assign) and len(st.targets) == 1 and isinstance(st.targets[0], ast.Attribute) \
                    and st.targets[0].attr == 'priority':
                v = const_int(st.value)
                if st in f.body: manual[f.name] = v
                elif f.name == 'postConstant': neg = v
                else: raise Unknown('conditional priority in %s' % f.name)
    if neg is None: raise Unknown('postConstant no longer gives a negative constant its own priority')
    # the decorator rule
    dec = next((n for n in tree.body if isinstance(n, ast.FunctionDef) and n.name == 'priority'), None)
    cmps = [n for n in ast.walk(dec) if isinstance(n, ast.Compare)] if dec else []
    if len(cmps) != 1 or len(cmps[0].ops) != 1: raise Unknown('priority decorator: one comparison expected')
    if ast.unparse(cmps[0].left) != "getattr(child, 'priority', 0)" or ast.unparse(cmps[0].comparators[0]) != 'p':
        raise Unknown('priority decorator compares %s' % ast.unparse(cmps[0]))
    rule = type(cmps[0].ops[0]).__name__
    prim = next((n for n in tree.body if isinstance(n, ast.FunctionDef) and n.name == 'primary_src'), None)
    cmps = [n for n in ast.walk(prim) if isinstance(n, ast.Compare)] if prim else []
    if len(cmps) != 1 or not isinstance(cmps[0].ops[0], ast.Gt) or ast.unparse(cmps[0].left) != "getattr(node, 'priority', 0)":
        raise Unknown('primary_src: `getattr(node, "priority", 0) > n` expected')
    threshold = const_int(cmps[0].comparators[0])
    nonext = None
    for n in tree.body:
        if isinstance(n, ast.Assign) and isinstance(n.targets[0], ast.Name) and n.targets[0].id == 'nonexternalizable_types':
            nonext = [e.attr for e in n.value.elts]
    if nonext is None: raise Unknown('nonexternalizable_types not found')
    # how PreTranslator.postStarred sets `external`
    pre = next((n for n in tree.body if isinstance(n, ast.ClassDef) and n.name == 'PreTranslator'), None)
    ps = next((f for f in pre.body if isinstance(f, ast.FunctionDef) and f.name == 'postStarred'), None) if pre else None
    if ps is None: starred = None      # no method: the default rule (external iff the operand is)
    else:
        body = [st for st in ps.body if not (isinstance(st, ast.Expr) and isinstance(st.value, ast.Constant))]
        if len(body) != 1 or not isinstance(body[0], ast.Assign) or ast.unparse(body[0].targets[0]) != 'node.external':
            raise Unknown('PreTranslator.postStarred: one assignment to node.external expected')
        v = ast.unparse(body[0].value)
        if v == 'True': starred = True
        elif v in ('bool(node.value.external)', 'node.value.external'): starred = None
        else: raise Unknown('PreTranslator.postStarred sets external = %s' % v)
    # how nested queries and refinements number their parameters (varkey = filter_num, src, code_key)
    ctree = ast.parse(open(os.path.join(repo, 'pony', 'orm', 'core.py')).read())
    qcls = next((n for n in ctree.body if isinstance(n, ast.ClassDef) and n.name == 'Query'), None)
    if qcls is None: raise Unknown('class Query not found')
    def method(name):
        m = next((f for f in qcls.body if isinstance(f, ast.FunctionDef) and f.name == name), None)
        if m is None: raise Unknown('Query.%s not found' % name)
        return m
    nested = [ast.unparse(st.value) for st in ast.walk(method('__init__')) if isinstance(st, ast.Assign)
              and ast.unparse(st.targets[0]) == 'filter_num' and ast.unparse(st.value) != '0']
    refined = [ast.unparse(st.value) for st in ast.walk(method('_process_lambda')) if isinstance(st, ast.Assign)
               and ast.unparse(st.targets[0]) == 'new_filter_num']
    if len(nested) != 1 or len(refined) != 1: raise Unknown('filter_num assignments: %r %r' % (nested, refined))
    def pairs(d): return '[' + ', '.join('("%s", %d)' % kv for kv in sorted(d.items())) + ']'
    text = '\n'.join([
        '/- GENERATED by harness/gen_c04.py from pony/orm/asttranslation.py -- do not edit. -/',
        'namespace PonyVerif.Gen.C04Src',
        '/-- `@priority(p)` of the `post…` methods of PythonTranslator -/',
        'def decorated : List (String × Nat) := ' + pairs(decorated),
        '/-- `node.priority = n` set unconditionally in the body of a `post…` method -/',
        'def manual : List (String × Nat) := ' + pairs(manual),
        '/-- the priority `postConstant` gives a constant whose text starts with `-` -/',
        'def negConstPrio : Nat := %d' % neg,
        '/-- `primary_src` parenthesises when the priority is greater than this -/',
        'def primaryThreshold : Nat := %d' % threshold,
        '/-- the comparison of the `priority` decorator: `child.priority <op> p` -/',
        'def decoratorRule : String := "%s"' % rule,
        '/-- does `PreTranslator.postStarred` mark `*expr` external whatever `expr` is -/',
        'def starredForced : Bool := %s' % ('true' if starred else 'false'),
        '/-- the number a query built over another query / a refinement gives its parameters -/',
        'def nestedFilterNum : String := "%s"' % nested[0],
        'def refinedFilterNum : String := "%s"' % refined[0],
        'def nonexternalizable : List String := [' + ', '.join('"%s"' % x for x in nonext) + ']',
        'end PonyVerif.Gen.C04Src', ''])
    info = {'decorated': len(decorated), 'manual': len(manual), 'negConstPrio': neg, 'primaryThreshold': threshold,
            'decoratorRule': rule, 'nonexternalizable': nonext, 'starredForced': bool(starred), 'nestedFilterNum': nested[0], 'refinedFilterNum': refined[0]}
    return text, info


def regenerate(repo, lean_dir):
    path = os.path.join(lean_dir, 'PonyVerif', 'Gen', 'C04Src.lean')
    try:
        text, info = build(repo)
    except (Unknown, SyntaxError, OSError, IndexError, AttributeError) as e:
        return {'C04Src': {'ok': False, 'error': '%s: %s' % (type(e).__name__, e), 'info': {}, 'changed': False}}
    old = open(path).read() if os.path.exists(path) else None
    if old != text:
        os.makedirs(os.path.dirname(path), exist_ok=True)
        with open(path, 'w') as f: f.write(text)
    return {'C04Src': {'ok': True, 'error': None, 'info': info, 'changed': old != text}}


if __name__ == '__main__':
    import json
    here = os.path.dirname(os.path.abspath(__file__))
    print(json.dumps(regenerate(os.environ.get('VERIF_REPO', '/repo'), os.environ.get('VERIF_LEAN') or os.path.join(here, '..', 'lean')), indent=1))
