"""Extra generator for C17: the "opens a transaction first" obligation of every WRITE ENTRY POINT of pony/orm/core.py,
re-derived from the current source on every run (AST analysis, no execution) -> lean/PonyVerif/Gen/TxnEntry.lean.

A write statement reaches the database through `Database._exec_sql`.  It runs inside a transaction iff `cache.immediate`
is true when `_exec_sql` calls `prepare_connection_for_query_execution`.  For every function that sends a write statement
the generator decides whether that is guaranteed ON EVERY PATH of the function:

    opens(F) :=  every `_exec_sql` / `_exec_raw_sql` call in F either passes `start_transaction=True`
                 (or forwards F's own `start_transaction` parameter, for `_exec_raw_sql`),
                 or is dominated by an UNCONDITIONAL statement `<name>.immediate = True` of F
                 (a statement of F's body / of a `with` or `try` body containing the call - not under `if`/`for`/`while`)
    viaFlush(F) := F is called only from SessionCache.flush (remove_m2m / add_m2m)
    flushSetsImmediate := SessionCache.flush assigns `cache.immediate = True` unconditionally before its save loop
    execSqlOrder := `_exec_sql` executes `if start_transaction: cache.immediate = True` before it calls
                    `prepare_connection_for_query_execution`
    rawForwards := `Database.execute` passes start_transaction=True to `_exec_raw_sql`, which forwards its parameter

The table of entry points is fixed (`ENTRIES`); the C17 engine checks on every run, by looking at the Python stack of every
write statement the real code sends, that no write comes from a function outside this table.
"""
import ast, os

ENTRIES = [  # lean constructor, class, function
    ('dbExecute', 'Database', 'execute'),
    ('dbInsert', 'Database', 'insert'),
    ('saveCreated', 'Entity', '_save_created_'),
    ('saveUpdated', 'Entity', '_save_updated_'),
    ('saveDeleted', 'Entity', '_save_deleted_'),
    ('m2mRemove', 'Set', 'remove_m2m'),
    ('m2mAdd', 'Set', 'add_m2m'),
    ('bulkDelete', 'Query', 'delete'),
    ('rawConn', 'Database', 'get_connection'),
]
EXEC_NAMES = ('_exec_sql', '_exec_raw_sql')


def find_func(tree, cls, name):
    for node in tree.body:
        if isinstance(node, ast.ClassDef) and node.name == cls:
            for f in node.body:
                if isinstance(f, ast.FunctionDef) and f.name == name: return f
    return None


def is_immediate_true(stmt):
    return (isinstance(stmt, ast.Assign) and len(stmt.targets) == 1 and isinstance(stmt.targets[0], ast.Attribute)
            and stmt.targets[0].attr == 'immediate' and isinstance(stmt.value, ast.Constant) and stmt.value.value is True)


def contains_call(node, names):
    for n in ast.walk(node):
        if isinstance(n, ast.Call) and isinstance(n.func, ast.Attribute) and n.func.attr in names: return True
    return False


def exec_calls(node):
    return [n for n in ast.walk(node) if isinstance(n, ast.Call) and isinstance(n.func, ast.Attribute) and n.func.attr in EXEC_NAMES]


def start_txn_arg(call, own_param=False):
    """'true' | 'param' | 'none' for the start_transaction argument of an _exec_sql/_exec_raw_sql call"""
    for kw in call.keywords:
        if kw.arg == 'start_transaction':
            if isinstance(kw.value, ast.Constant) and kw.value.value is True: return 'true'
            if isinstance(kw.value, ast.Name) and kw.value.id == 'start_transaction': return 'param'
            return 'none'
    pos = {'_exec_sql': 3, '_exec_raw_sql': 4}[call.func.attr]       # index among the positional arguments
    if len(call.args) > pos:
        v = call.args[pos]
        if isinstance(v, ast.Constant) and v.value is True: return 'true'
        if isinstance(v, ast.Name) and v.id == 'start_transaction': return 'param'
    return 'none'


def dominated(body, names):
    """is every call to one of `names` inside `body` preceded, on the straight line that leads to it, by an unconditional
    `x.immediate = True`?  Descends into with/try bodies (still unconditional) but an assignment under if/for/while does
    not count; a call under if/for/while is fine when the assignment came before that compound statement."""
    def walk(stmts, have):
        for st in stmts:
            if is_immediate_true(st): have = True; continue
            if isinstance(st, (ast.With, ast.Try)):
                inner = st.body
                r = walk(inner, have)
                if r is False: return False
                have = have or r == 'set'
                for h in getattr(st, 'handlers', []):
                    if contains_call(h, names) and not have: return False
                for part in (getattr(st, 'orelse', []), getattr(st, 'finalbody', [])):
                    if any(contains_call(x, names) for x in part) and not have: return False
                continue
            if contains_call(st, names) and not have: return False
        return 'set' if have else True
    return walk(body, False) is not False


def raw_connection_guard(f):
    """Database.get_connection hands the raw DB-API connection to user code: whatever is written on it goes straight to the
    database.  Obligation: the connection is returned only inside a transaction, i.e. the function's first compound statement
    is `if not cache.in_transaction:` whose body sets `cache.immediate = True`, then prepares the connection (BEGIN), then
    sets `cache.in_transaction = True`, and nothing returns before it."""
    for st in f.body:
        if isinstance(st, ast.Return): return False, 'returns before the guard (line %d)' % st.lineno
        if isinstance(st, ast.If):
            if ast.unparse(st.test) != 'not cache.in_transaction':
                return False, 'first guard is `if %s:` (line %d), not `if not cache.in_transaction:`' % (ast.unparse(st.test), st.lineno)
            order = []
            for b in st.body:
                if is_immediate_true(b): order.append('imm')
                elif contains_call(b, ('prepare_connection_for_query_execution',)): order.append('prep')
                elif ast.unparse(b) == 'cache.in_transaction = True': order.append('intx')
            ok = order == ['imm', 'prep', 'intx']
            return ok, 'Database.get_connection line %d: `if not cache.in_transaction:` body order %s' % (st.lineno, order)
    return False, 'no guard found'


def analyse(src):
    tree = ast.parse(src)
    info = {}
    res = {}
    for lean, cls, name in ENTRIES:
        f = find_func(tree, cls, name)
        if f is None:
            res[lean] = False; info[lean] = 'function %s.%s not found' % (cls, name); continue
        if lean == 'rawConn':
            res[lean], info[lean] = raw_connection_guard(f); continue
        calls = exec_calls(f)
        if not calls:
            res[lean] = False; info[lean] = 'no _exec_sql call'; continue
        args = [start_txn_arg(c) for c in calls]
        by_arg = all(a == 'true' for a in args)
        by_assign = dominated(f.body, EXEC_NAMES)
        res[lean] = bool(by_arg or by_assign)
        info[lean] = '%s.%s line %d: %d call(s), start_transaction=%s, unconditional immediate=True before: %s' % (
            cls, name, f.lineno, len(calls), args, by_assign)
    # SessionCache.flush
    fl = find_func(tree, 'SessionCache', 'flush')
    flush_sets = bool(fl) and dominated(fl.body, ('_save_', 'remove_m2m', 'add_m2m'))
    info['flushSetsImmediate'] = 'SessionCache.flush line %s: immediate=True unconditionally before the save loop: %s' % (fl.lineno if fl else None, flush_sets)
    # m2m statements only from SessionCache.flush
    callers = set()
    for node in tree.body:
        if isinstance(node, ast.ClassDef):
            for f in node.body:
                if isinstance(f, ast.FunctionDef) and contains_call(f, ('remove_m2m', 'add_m2m')): callers.add('%s.%s' % (node.name, f.name))
        elif isinstance(node, ast.FunctionDef) and contains_call(node, ('remove_m2m', 'add_m2m')): callers.add(node.name)
    via_flush = callers == {'SessionCache.flush'}
    info['m2mOnlyFromFlush'] = 'callers of remove_m2m/add_m2m: %s' % sorted(callers)
    # _exec_sql: immediate set before prepare
    ex = find_func(tree, 'Database', '_exec_sql')
    order = False
    if ex:
        seen_if = False
        for st in ex.body:
            if (isinstance(st, ast.If) and isinstance(st.test, ast.Name) and st.test.id == 'start_transaction'
                    and any(is_immediate_true(b) for b in st.body)): seen_if = True
            if contains_call(st, ('prepare_connection_for_query_execution',)):
                order = seen_if; break
    info['execSqlOrder'] = '_exec_sql: `if start_transaction: cache.immediate = True` before prepare_connection_for_query_execution: %s' % order
    # Database.execute -> _exec_raw_sql(start_transaction=True) -> _exec_sql(..., start_transaction)
    raw = find_func(tree, 'Database', '_exec_raw_sql')
    fwd = bool(raw) and all(start_txn_arg(c) == 'param' for c in exec_calls(raw)) and bool(exec_calls(raw))
    info['rawForwards'] = '_exec_raw_sql forwards its start_transaction parameter: %s' % fwd
    if not fwd: res['dbExecute'] = False
    return res, {'flushSetsImmediate': flush_sets, 'm2mOnlyFromFlush': via_flush, 'execSqlOrder': order}, info


def begin_order(sqlite_src):
    """SQLiteProvider.set_transaction_mode: inside `if cache.immediate:` the BEGIN is executed BEFORE `cache.in_transaction = True`
    (a refused BEGIN must leave the flag False: the emitter's `prep` sets inTx only after a successful BEGIN)"""
    tree = ast.parse(sqlite_src)
    f = find_func(tree, 'SQLiteProvider', 'set_transaction_mode')
    if f is None: return False, 'SQLiteProvider.set_transaction_mode not found'
    for node in ast.walk(f):
        if isinstance(node, ast.If) and ast.unparse(node.test) == 'cache.immediate':
            order = []
            for b in node.body:
                if ast.unparse(b) == "sql = 'BEGIN IMMEDIATE TRANSACTION'": order.append('sql')
                elif isinstance(b, ast.Expr) and ast.unparse(b) == 'cursor.execute(sql)': order.append('execute')
                elif ast.unparse(b) == 'cache.in_transaction = True': order.append('flag')
            if 'sql' in order:
                return order == ['sql', 'execute', 'flag'], 'set_transaction_mode line %d: order %s' % (node.lineno, order)
    return False, 'no `if cache.immediate:` block with the BEGIN found'


def render(res, flags, info):
    b = lambda v: 'true' if v else 'false'
    lines = ['/- GENERATED by harness/gen_txnentry.py from pony/orm/core.py -- do not edit.',
             '   "opens a transaction first" obligations of the write entry points, re-derived from the source by AST analysis.']
    for k in [e[0] for e in ENTRIES] + ['flushSetsImmediate', 'm2mOnlyFromFlush', 'execSqlOrder', 'rawForwards', 'beginBeforeInTransaction']:
        lines.append('   %s: %s' % (k, info.get(k, '')))
    lines += ['-/', 'import PonyVerif.Model.TxnEmit', 'namespace PonyVerif.Gen.TxnEntry', 'open PonyVerif.Model.TxnEmit', '',
              '/-- every `_exec_sql` call of the entry point asks for a transaction (start_transaction=True, or an unconditional',
              '    `cache.immediate = True` before it) -/',
              'def opens : Entry → Bool']
    for lean, _, _ in ENTRIES: lines.append('  | .%s => %s' % (lean, b(res[lean])))
    lines += ['', '/-- `SessionCache.flush` sets `cache.immediate = True` unconditionally before it saves anything -/',
              'def flushSetsImmediate : Bool := %s' % b(flags['flushSetsImmediate']), '',
              '/-- `remove_m2m` / `add_m2m` are called from `SessionCache.flush` only -/',
              'def m2mOnlyFromFlush : Bool := %s' % b(flags['m2mOnlyFromFlush']), '',
              '/-- `_exec_sql` runs `if start_transaction: cache.immediate = True` before `prepare_connection_for_query_execution` -/',
              'def execSqlOrder : Bool := %s' % b(flags['execSqlOrder']), '',
              '/-- sqlite `set_transaction_mode` executes BEGIN IMMEDIATE before it sets `cache.in_transaction = True` -/',
              'def beginBeforeInTransaction : Bool := %s' % b(flags.get('beginBeforeInTransaction', False)), '',
              'end PonyVerif.Gen.TxnEntry', '']
    return '\n'.join(lines)


def regenerate(repo, lean_dir):
    path = os.path.join(repo, 'pony', 'orm', 'core.py')
    out = os.path.join(lean_dir, 'PonyVerif', 'Gen', 'TxnEntry.lean')
    try:
        res, flags, info = analyse(open(path).read())
        flags['beginBeforeInTransaction'], info['beginBeforeInTransaction'] = begin_order(open(os.path.join(repo, 'pony', 'orm', 'dbproviders', 'sqlite.py')).read())
        text = render(res, flags, info)
        old = open(out).read() if os.path.exists(out) else None
        changed = old != text
        if changed:
            os.makedirs(os.path.dirname(out), exist_ok=True)
            with open(out, 'w') as f: f.write(text)
        return {'TxnEntry': {'ok': True, 'error': None, 'changed': changed,
                             'info': dict({k: bool(v) for k, v in res.items()}, **{k: bool(v) for k, v in flags.items()}, detail=info)}}
    except Exception as e:
        return {'TxnEntry': {'ok': False, 'error': '%s: %s' % (type(e).__name__, e), 'info': {}, 'changed': False}}


if __name__ == '__main__':
    import json, sys
    root = sys.argv[1] if len(sys.argv) > 1 else '/repo'
    res, flags, info = analyse(open(os.path.join(root, 'pony/orm/core.py')).read())
    flags['beginBeforeInTransaction'], info['beginBeforeInTransaction'] = begin_order(open(os.path.join(root, 'pony/orm/dbproviders/sqlite.py')).read())
    print(json.dumps({'opens': res, 'flags': flags, 'info': info}, indent=1))
