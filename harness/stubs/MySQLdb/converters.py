conversions = {}
