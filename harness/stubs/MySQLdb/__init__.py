"""Import stub (offline): just enough of MySQLdb for `pony.orm.dbproviders.mysql` to import."""
paramstyle = 'format'
class Error(Exception): pass
class Warning(Exception): pass
class InterfaceError(Error): pass
class DatabaseError(Error): pass
class DataError(DatabaseError): pass
class OperationalError(DatabaseError): pass
class IntegrityError(DatabaseError): pass
class InternalError(DatabaseError): pass
class ProgrammingError(DatabaseError): pass
class NotSupportedError(DatabaseError): pass
def string_literal(s):
    raise NotImplementedError('MySQLdb stub')
def connect(*args, **kwargs):
    raise OperationalError('MySQLdb stub: no server available offline')
from . import converters, constants
