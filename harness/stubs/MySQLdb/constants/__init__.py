from . import FIELD_TYPE, FLAG, CLIENT
