"""Minimal import stub for `flask` (not installed in this sandbox): exactly the names pony/flask/__init__.py uses.

`request`            an object with plain attribute storage (pony stores `request.pony_session` on it)
`Flask`              an application object with the two hook registries `Pony.init_app` calls:
                     `before_request(f)` and `teardown_request(f)` (both usable as decorators, as in Flask)
The engine dispatches a request itself (harness/engines/c18.py: `flask_request`): before_request hooks, the view,
then every teardown hook with the exception of the request (or None) — the order Flask's `wsgi_app` uses.
"""


class _Request(object):
    """stand-in for the `flask.request` proxy: per-request attribute storage.  Like Flask's request-context stack,
    `push()` starts a new request (fresh attributes) and returns a token; `pop(token)` returns to the enclosing one."""
    def push(self):
        saved = dict(self.__dict__)
        self.__dict__.clear()
        return saved
    def pop(self, saved):
        self.__dict__.clear()
        self.__dict__.update(saved)


request = _Request()


class Flask(object):
    def __init__(self, import_name='app'):
        self.import_name = import_name
        self.before_request_funcs = []
        self.teardown_request_funcs = []
    def before_request(self, f):
        self.before_request_funcs.append(f)
        return f
    def teardown_request(self, f):
        self.teardown_request_funcs.append(f)
        return f
