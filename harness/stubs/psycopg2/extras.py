def register_uuid(*args, **kwargs): pass
def register_default_json(*args, **kwargs): pass
def register_default_jsonb(*args, **kwargs): pass
