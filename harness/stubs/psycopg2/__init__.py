"""Import stub (offline): just enough of psycopg2 for `pony.orm.dbproviders.postgres` to import.
No connection can be made; engines use pony.orm.tests.testutils.TestDatabase (pool mock-up) to obtain dialect SQL."""
paramstyle = 'pyformat'
class Error(Exception): pass
class Warning(Exception): pass
class InterfaceError(Error): pass
class DatabaseError(Error): pass
class DataError(DatabaseError): pass
class OperationalError(DatabaseError): pass
class IntegrityError(DatabaseError): pass
class InternalError(DatabaseError): pass
class ProgrammingError(DatabaseError): pass
class NotSupportedError(DatabaseError): pass
def connect(*args, **kwargs):
    raise OperationalError('psycopg2 stub: no server available offline')
from . import extensions, extras
