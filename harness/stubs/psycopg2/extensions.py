ISOLATION_LEVEL_AUTOCOMMIT = 0
ISOLATION_LEVEL_READ_COMMITTED = 1
TRANSACTION_STATUS_IDLE = 0
def register_type(*args, **kwargs): pass
def register_adapter(*args, **kwargs): pass
def new_type(*args, **kwargs): return object()
UNICODE = object()
UNICODEARRAY = object()
