"""Minimal import stub for `bottle` (not installed in this sandbox): exactly the names
pony/orm/integration/bottle_plugin.py imports, with Bottle's class relations:

    class HTTPResponse(Response, BottleException)     -- raised by `redirect()`, or to return a response early
    class HTTPError(HTTPResponse)                     -- raised by `abort()`

plus the two helpers that raise them in Bottle (`redirect`, `abort`).
"""


class BottleException(Exception):
    pass


class HTTPResponse(BottleException):
    def __init__(self, body='', status=None, headers=None, **more_headers):
        super(HTTPResponse, self).__init__(body, status)
        self.body = body; self.status = status


class HTTPError(HTTPResponse):
    def __init__(self, status=500, body=None, exception=None, traceback=None, **more_headers):
        super(HTTPError, self).__init__(body, status, **more_headers)
        self.exception = exception; self.traceback = traceback


def redirect(url, code=303):
    raise HTTPResponse('', status=code, Location=url)


def abort(code=500, text='Unknown Error.'):
    raise HTTPError(code, text)
