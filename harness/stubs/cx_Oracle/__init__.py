"""Import stub (offline): just enough of cx_Oracle for `pony.orm.dbproviders.oracle` to import."""
paramstyle = 'named'
class Error(Exception): pass
class Warning(Exception): pass
class InterfaceError(Error): pass
class DatabaseError(Error): pass
class DataError(DatabaseError): pass
class OperationalError(DatabaseError): pass
class IntegrityError(DatabaseError): pass
class InternalError(DatabaseError): pass
class ProgrammingError(DatabaseError): pass
class NotSupportedError(DatabaseError): pass
class LOB(object): pass
NUMBER = object(); STRING = object(); FIXED_CHAR = object(); TIMESTAMP = object(); BLOB = object(); CLOB = object()
def SessionPool(**kwargs):
    raise OperationalError('cx_Oracle stub: no server available offline')
