"""py2lean: syntax-directed translator from a tiny Python subset to Lean 4 (DESIGN.md 3.1).

Every translated function becomes `def <name> (params : PyVal) : PyM PyVal` in PonyVerif/Gen/<Module>.lean.
Anything outside the subset raises Untranslatable -- the caller (harness/framework.py) reports it as
"source left the translatable subset"; nothing is skipped silently.

Conventions
  * every Python local / parameter `x` becomes the Lean variable `v_x`;
  * `p.attr` for a parameter p becomes the extra Lean parameter `v_p_attr` (object fields as explicit inputs);
  * `isinstance(p, T)` for a parameter p becomes the extra Lean parameter `v_p_is_T`;
  * calls that leave the subset (`builder(sql)`, `query._fetch(limit=..)`) become the opaque value
    `PyVal.call "<callee>" [args.., PyVal.list [PyVal.str "<kw>", value]..]`;
  * `and` / `or` / conditional expressions are emitted as explicit `if` statements (short-circuit preserved);
  * the statement order of the source is preserved one to one.
"""
import ast, hashlib, os, re, textwrap

class Untranslatable(Exception):
    pass

BINOPS = {ast.Add: 'add', ast.Sub: 'sub', ast.Mult: 'mul', ast.FloorDiv: 'floordiv', ast.Mod: 'mod', ast.Pow: 'pow'}
CMPM = {ast.Lt: 'lt', ast.LtE: 'le', ast.Gt: 'gt', ast.GtE: 'ge'}

def lean_str(s):
    out = []
    for ch in s:
        if ch == '\\': out.append('\\\\')
        elif ch == '"': out.append('\\"')
        elif ch == '\n': out.append('\\n')
        elif ch == '\t': out.append('\\t')
        elif 32 <= ord(ch) < 127: out.append(ch)
        else: out.append('\\u{%x}' % ord(ch))
    return '"' + ''.join(out) + '"'

class FuncTranslator:
    def __init__(self, fn, lean_name, self_param=None):
        self.fn = fn
        self.lean_name = lean_name
        self.params = [a.arg for a in fn.args.args]
        if fn.args.vararg or fn.args.kwarg or fn.args.kwonlyargs:
            raise Untranslatable('%s: *args/**kwargs are outside the subset' % fn.name)
        self.self_param = self_param
        self.extra_params = []     # derived parameters v_p_attr / v_p_is_T in order of first use
        self.tmp = 0
        self.lines = []
        self.indent = 1
        self.assigned = []
        for node in ast.walk(fn):
            if isinstance(node, (ast.Assign, ast.AugAssign)):
                targets = node.targets if isinstance(node, ast.Assign) else [node.target]
                for t in targets:
                    for n in ast.walk(t):
                        if isinstance(n, ast.Name) and n.id not in self.assigned:
                            self.assigned.append(n.id)

    # ---- helpers
    def fresh(self, base='t'):
        self.tmp += 1
        return '%s%d' % (base, self.tmp)
    def emit(self, s):
        self.lines.append('  ' * self.indent + s)
    def bad(self, node, why):
        raise Untranslatable('%s line %d: %s: %s' % (self.fn.name, getattr(node, 'lineno', 0), why, ast.dump(node)[:120]))
    def extra(self, name):
        if name not in self.extra_params:
            self.extra_params.append(name)
        return name

    # ---- expressions: return a Lean term of type PyVal; may emit statements first
    def expr(self, e):
        if isinstance(e, ast.Constant):
            v = e.value
            if v is None: return 'PyVal.none'
            if v is True: return '(PyVal.bool true)'
            if v is False: return '(PyVal.bool false)'
            if isinstance(v, int): return '(PyVal.int (%d))' % v
            if isinstance(v, str): return '(PyVal.str %s)' % lean_str(v)
            self.bad(e, 'constant kind outside the subset')
        if isinstance(e, ast.Name):
            if e.id in self.params or e.id in self.assigned:
                return 'v_' + e.id
            self.bad(e, 'free name outside the subset')
        if isinstance(e, (ast.List, ast.Tuple)):
            return '(PyVal.list [%s])' % ', '.join(self.expr(x) for x in e.elts)
        if isinstance(e, ast.Attribute):
            if isinstance(e.value, ast.Name) and e.value.id in self.params:
                return self.extra('v_%s_%s' % (e.value.id, e.attr))
            self.bad(e, 'attribute access on a non-parameter')
        if isinstance(e, ast.Subscript):
            if isinstance(e.slice, ast.Slice): self.bad(e, 'slice subscripts are outside the subset')
            return '(← PyVal.getItem %s %s)' % (self.expr(e.value), self.expr(e.slice))
        if isinstance(e, ast.BinOp):
            if isinstance(e.op, ast.Mod) and isinstance(e.left, ast.Constant) and isinstance(e.left.value, str):
                fmt = e.left.value
                if fmt.count('%s') != 1 or fmt.replace('%s', '').count('%'):
                    self.bad(e, '%-format outside the subset (exactly one %s)')
                pre, post = fmt.split('%s')
                arg = self.expr(e.right)
                return '(← PyVal.add (← PyVal.add (PyVal.str %s) %s) (PyVal.str %s))' % (lean_str(pre), arg, lean_str(post))
            op = BINOPS.get(type(e.op))
            if op is None: self.bad(e, 'binary operator outside the subset')
            l = self.expr(e.left); r = self.expr(e.right)
            return '(← PyVal.%s %s %s)' % (op, l, r)
        if isinstance(e, ast.UnaryOp):
            if isinstance(e.op, ast.USub):
                if isinstance(e.operand, ast.Constant) and isinstance(e.operand.value, int):
                    return '(PyVal.int (%d))' % (-e.operand.value)
                return '(← PyVal.neg %s)' % self.expr(e.operand)
            if isinstance(e.op, ast.Not):
                return '(PyVal.bool %s)' % self.cond(e)
            self.bad(e, 'unary operator outside the subset')
        if isinstance(e, ast.Compare):
            return '(PyVal.bool %s)' % self.cond(e)
        if isinstance(e, ast.BoolOp):
            # value context: `a or b` yields a if truthy(a) else b ; `a and b` yields a if not truthy(a) else b
            r = self.fresh('r')
            first = self.expr(e.values[0])
            self.emit('let mut %s : PyVal := %s' % (r, first))
            depth = 0
            for nxt in e.values[1:]:
                test = ('!(PyVal.truthy %s)' % r) if isinstance(e.op, ast.Or) else ('PyVal.truthy %s' % r)
                self.emit('if %s then' % test)
                self.indent += 1; depth += 1
                v = self.expr(nxt)
                self.emit('%s := %s' % (r, v))
            self.indent -= depth
            return r
        if isinstance(e, ast.IfExp):
            r = self.fresh('r')
            self.emit('let mut %s : PyVal := PyVal.none' % r)
            c = self.cond(e.test)
            self.emit('if %s then' % c)
            self.indent += 1
            self.emit('%s := %s' % (r, self.expr(e.body)))
            self.indent -= 1
            self.emit('else')
            self.indent += 1
            self.emit('%s := %s' % (r, self.expr(e.orelse)))
            self.indent -= 1
            return r
        if isinstance(e, ast.Call):
            return self.call(e)
        self.bad(e, 'expression kind outside the subset')

    def call(self, e):
        f = e.func
        if isinstance(f, ast.Name) and f.id in ('max', 'min') and len(e.args) == 2 and not e.keywords:
            a = self.expr(e.args[0]); b = self.expr(e.args[1])
            return '(← PyVal.%s2 %s %s)' % (f.id, a, b)
        if isinstance(f, ast.Name) and f.id == 'len' and len(e.args) == 1:
            return '(← PyVal.len %s)' % self.expr(e.args[0])
        if isinstance(f, ast.Name) and f.id == 'isinstance' and len(e.args) == 2 and isinstance(e.args[0], ast.Name) \
                and e.args[0].id in self.params and isinstance(e.args[1], ast.Name):
            return self.extra('v_%s_is_%s' % (e.args[0].id, e.args[1].id))
        if isinstance(f, ast.Attribute) and f.attr == 'replace' and len(e.args) == 2 and not e.keywords:
            s = self.expr(f.value); a = self.expr(e.args[0]); b = self.expr(e.args[1])
            return '(← PyVal.replace %s %s %s)' % (s, a, b)
        # opaque call
        if isinstance(f, ast.Name):
            callee = f.id
        elif isinstance(f, ast.Attribute) and isinstance(f.value, ast.Name):
            callee = '%s.%s' % (f.value.id, f.attr)
        else:
            self.bad(e, 'callee outside the subset')
        args = [self.expr(a) for a in e.args]
        for kw in e.keywords:
            if kw.arg is None: self.bad(e, '**kwargs outside the subset')
            args.append('(PyVal.list [PyVal.str %s, %s])' % (lean_str(kw.arg), self.expr(kw.value)))
        return '(PyVal.call %s [%s])' % (lean_str(callee), ', '.join(args))

    # ---- conditions: return a Lean term of type Bool; may emit statements first
    def cond(self, e):
        if isinstance(e, ast.Constant) and e.value in (True, False) and isinstance(e.value, bool):
            return 'true' if e.value else 'false'
        if isinstance(e, ast.UnaryOp) and isinstance(e.op, ast.Not):
            return '(!%s)' % self.cond(e.operand)
        if isinstance(e, ast.BoolOp):
            c = self.fresh('c')
            is_or = isinstance(e.op, ast.Or)
            first = self.cond(e.values[0])
            self.emit('let mut %s : Bool := %s' % (c, first))
            depth = 0
            for nxt in e.values[1:]:
                self.emit('if %s then' % (('(!%s)' % c) if is_or else c))
                self.indent += 1; depth += 1
                v = self.cond(nxt)
                self.emit('%s := %s' % (c, v))
            self.indent -= depth
            return c
        if isinstance(e, ast.Compare):
            if len(e.ops) != 1: self.bad(e, 'comparison chains are outside the subset')
            op = e.ops[0]; l = e.left; r = e.comparators[0]
            if isinstance(op, (ast.Is, ast.IsNot)):
                if not (isinstance(r, ast.Constant) and r.value is None):
                    self.bad(e, '`is` only against None')
                t = '(PyVal.isNone %s)' % self.expr(l)
                return t if isinstance(op, ast.Is) else '(!%s)' % t
            if isinstance(op, (ast.Eq, ast.NotEq)):
                t = '(PyVal.pyEq %s %s)' % (self.expr(l), self.expr(r))
                return t if isinstance(op, ast.Eq) else '(!%s)' % t
            if isinstance(op, (ast.In, ast.NotIn)):
                t = '(← PyVal.inList %s %s)' % (self.expr(l), self.expr(r))
                return t if isinstance(op, ast.In) else '(!%s)' % t
            m = CMPM.get(type(op))
            if m is None: self.bad(e, 'comparison operator outside the subset')
            return '(← PyVal.%s %s %s)' % (m, self.expr(l), self.expr(r))
        return '(PyVal.truthy %s)' % self.expr(e)

    # ---- statements
    def block(self, stmts):
        n0 = len(self.lines)
        for s in stmts:
            self.stmt(s)
        if len(self.lines) == n0:
            self.emit('pure ()')

    def stmt(self, s):
        if isinstance(s, ast.Expr) and isinstance(s.value, ast.Constant) and isinstance(s.value.value, str):
            return  # docstring
        if isinstance(s, ast.Pass):
            return
        if isinstance(s, ast.Assign):
            if len(s.targets) != 1: self.bad(s, 'chained assignment outside the subset')
            t = s.targets[0]
            if isinstance(t, ast.Name):
                self.emit('v_%s := %s' % (t.id, self.expr(s.value)))
                return
            self.bad(s, 'assignment target outside the subset')
        if isinstance(s, ast.AugAssign):
            if not isinstance(s.target, ast.Name): self.bad(s, 'augmented target outside the subset')
            op = BINOPS.get(type(s.op))
            if op is None: self.bad(s, 'augmented operator outside the subset')
            self.emit('v_%s := (← PyVal.%s v_%s %s)' % (s.target.id, op, s.target.id, self.expr(s.value)))
            return
        if isinstance(s, ast.Return):
            self.emit('return %s' % (self.expr(s.value) if s.value is not None else 'PyVal.none'))
            return
        if isinstance(s, ast.Assert):
            if isinstance(s.test, ast.Constant) and s.test.value is False:
                self.emit('throw (PyErr.assertion %s)' % lean_str('line %d' % (s.lineno - self.fn.lineno)))
                return
            c = self.cond(s.test)
            self.emit('if (!%s) then throw (PyErr.assertion %s)' % (c, lean_str(ast.unparse(s.test))))
            return
        if isinstance(s, ast.If):
            c = self.cond(s.test)
            self.emit('if %s then' % c)
            self.indent += 1
            self.block(s.body)
            self.indent -= 1
            if s.orelse:
                self.emit('else')
                self.indent += 1
                self.block(s.orelse)
                self.indent -= 1
            return
        if isinstance(s, ast.Expr) and isinstance(s.value, ast.Call) and isinstance(s.value.func, ast.Name) \
                and s.value.func.id == 'throw' and len(s.value.args) >= 1 and isinstance(s.value.args[0], ast.Name):
            a = s.value.args
            msg = a[1].value if len(a) > 1 and isinstance(a[1], ast.Constant) and isinstance(a[1].value, str) else ''
            self.emit('throw (PyErr.raised %s %s)' % (lean_str(a[0].id), lean_str(msg)))
            return
        if isinstance(s, ast.Raise) and s.exc is not None:
            exc = s.exc
            name = exc.func.id if isinstance(exc, ast.Call) and isinstance(exc.func, ast.Name) else (exc.id if isinstance(exc, ast.Name) else None)
            if name is None: self.bad(s, 'raise form outside the subset')
            self.emit('throw (PyErr.raised %s "")' % lean_str(name))
            return
        self.bad(s, 'statement kind outside the subset')

    def translate(self):
        body_lines_start = len(self.lines)
        self.block(self.fn.body)
        last = self.fn.body[-1]
        if not isinstance(last, (ast.Return, ast.Raise)):
            self.emit('return PyVal.none')
        body = self.lines[body_lines_start:]
        all_params = ['v_' + p for p in self.params if self._uses_bare(p)] + self.extra_params
        head = 'def %s %s: PyM PyVal := do' % (self.lean_name, ''.join('(%s : PyVal) ' % p for p in all_params))
        decl = []
        for p in self.params:
            if p in self.assigned:
                decl.append('  let mut v_%s := v_%s' % (p, p))
        for n in self.assigned:
            if n not in self.params:
                decl.append('  let mut v_%s : PyVal := PyVal.none' % n)
        return head, decl + body, all_params

    def _uses_bare(self, p):
        # is the parameter used other than as `p.attr`, `p(...)`, `p.m(...)`, isinstance(p, T)?
        class V(ast.NodeVisitor):
            def __init__(v): v.bare = False
            def visit_Attribute(v, n):
                if isinstance(n.value, ast.Name) and n.value.id == p: return
                v.generic_visit(n)
            def visit_Call(v, n):
                if isinstance(n.func, ast.Name) and n.func.id == p:
                    for a in n.args: v.visit(a)
                    for k in n.keywords: v.visit(k.value)
                    return
                if isinstance(n.func, ast.Name) and n.func.id == 'isinstance' and n.args and isinstance(n.args[0], ast.Name) and n.args[0].id == p:
                    return
                v.generic_visit(n)
            def visit_Name(v, n):
                if n.id == p: v.bare = True
        vis = V(); vis.visit(self.fn)
        return vis.bare


def find_function(tree, qualname):
    parts = qualname.split('.')
    body = tree.body
    node = None
    for i, part in enumerate(parts):
        found = None
        for n in body:
            if isinstance(n, (ast.FunctionDef, ast.ClassDef)) and n.name == part:
                found = n
        if found is None:
            raise Untranslatable('%s not found in source' % qualname)
        node = found
        body = found.body
    if not isinstance(node, ast.FunctionDef):
        raise Untranslatable('%s is not a function' % qualname)
    return node


def translate_module(repo, lean_module, specs):
    """specs: list of dict(file=relative path, qualname=..., lean=..., self_param=... or None).
    Returns (lean_source_text, info) ; raises Untranslatable."""
    out = ['/- GENERATED by harness/py2lean.py from /repo on every run -- do not edit. -/',
           'import PonyVerif.Py.Val',
           'set_option linter.unusedVariables false',
           'namespace PonyVerif.Gen',
           'open PonyVerif.Py', '']
    info = {}
    for sp in specs:
        path = os.path.join(repo, sp['file'])
        src = open(path, encoding='utf-8').read()
        tree = ast.parse(src)
        fn = find_function(tree, sp['qualname'])
        seg = ast.get_source_segment(src, fn)
        ft = FuncTranslator(fn, sp['lean'], sp.get('self_param'))
        head, body, params = ft.translate()
        out.append('/- source: %s :: %s  (sha256 of the function text %s)' % (sp['file'], sp['qualname'], hashlib.sha256(seg.encode()).hexdigest()[:16]))
        out.append(textwrap.indent(seg, '   ').replace('-/', '- /'))
        out.append('-/')
        out.append(head)
        out.extend(body)
        out.append('')
        info[sp['lean']] = {'params': params, 'source_sha': hashlib.sha256(seg.encode()).hexdigest()[:16], 'lines': len(seg.splitlines())}
    out.append('end PonyVerif.Gen')
    return '\n'.join(out) + '\n', info


# The table of translated functions (DESIGN.md 3.1).  One Lean module per group.
MODULES = {
    'Limit': [
        dict(file='pony/orm/sqltranslation.py', qualname='combine_limit_and_offset', lean='combineLimitAndOffset'),
        dict(file='pony/orm/core.py', qualname='Query.__getitem__', lean='queryGetitem', self_param='query'),
        dict(file='pony/orm/core.py', qualname='Query.page', lean='queryPage', self_param='query'),
    ],
    'StringSlice': [
        dict(file='pony/orm/sqlbuilding.py', qualname='SQLBuilder.STRING_SLICE', lean='stringSlice', self_param='builder'),
        dict(file='pony/orm/dbproviders/sqlite.py', qualname='SQLiteBuilder.STRING_SLICE', lean='sqliteStringSlice', self_param='builder'),
    ],
    'Micro': [
        dict(file='pony/orm/dbapiprovider.py', qualname='ConverterWithMicroseconds.round_microseconds_to_precision', lean='roundMicroseconds', self_param='converter'),
    ],
    'Quote': [
        dict(file='pony/orm/sqlbuilding.py', qualname='Value.quote_str', lean='quoteStr', self_param='self'),
    ],
    'SqlBuild': [   # C06: how the LIKE / REPLACE / MOD nodes become SQL text
        dict(file='pony/orm/sqlbuilding.py', qualname='SQLBuilder.MOD', lean='sqlMod', self_param='builder'),
        dict(file='pony/orm/sqlbuilding.py', qualname='SQLBuilder.LIKE', lean='sqlLike', self_param='builder'),
        dict(file='pony/orm/sqlbuilding.py', qualname='SQLBuilder.NOT_LIKE', lean='sqlNotLike', self_param='builder'),
        dict(file='pony/orm/sqlbuilding.py', qualname='SQLBuilder.REPLACE', lean='sqlReplaceCall', self_param='builder'),
    ],
}

def regenerate(repo, lean_dir, only=None):
    """Write PonyVerif/Gen/<Module>.lean for every module (content-compare: unchanged files keep their mtime).
    Returns dict module -> {'ok': bool, 'error': str|None, 'info': {...}, 'changed': bool}."""
    res = {}
    gen_dir = os.path.join(lean_dir, 'PonyVerif', 'Gen')
    os.makedirs(gen_dir, exist_ok=True)
    for mod, specs in MODULES.items():
        if only and mod not in only: continue
        path = os.path.join(gen_dir, mod + '.lean')
        try:
            text, info = translate_module(repo, mod, specs)
        except (Untranslatable, SyntaxError, OSError) as e:
            res[mod] = {'ok': False, 'error': str(e), 'info': {}, 'changed': False}
            continue
        old = open(path).read() if os.path.exists(path) else None
        if old != text:
            with open(path, 'w') as f: f.write(text)
        res[mod] = {'ok': True, 'error': None, 'info': info, 'changed': old != text}
    return res

if __name__ == '__main__':
    import sys, json
    r = regenerate(sys.argv[1] if len(sys.argv) > 1 else '/repo', os.path.join(os.path.dirname(os.path.abspath(__file__)), '..', 'lean'))
    print(json.dumps(r, indent=1))
