"""C23: generate lean/PonyVerif/Gen/LoadDecisions.lean from the CURRENT source of pony/orm/core.py (read with `ast`, nothing imported).

The GUARDS that decide whether a read is answered from the session or has to load, and how a collection load is carried out, are
translated into Lean Bool / Option Bool functions over named atoms; Props/C23.lean proves (bridge theorems) that `Model.Loading.read`
takes exactly these decisions, so the theorems about reads are re-proved against the guards of the source on every run.  A guard the
translator cannot express (another atom, another shape) makes the module fail (ok=False): fail closed.

  SetInstance.is_empty    the if / elif chain on `setdata`                       -> isEmptyShortcut  (none = go to the database)
  SetInstance.count       `if setdata is not None and setdata.count is not None`  -> countCached
  SetInstance.__contains__ the three early returns of the collection branch        -> containsShortcut (none = load)
  SetInstance.__len__ / Set.copy  `if setdata is None or not setdata.is_fully_loaded` -> collNeedsLoad (both sites must agree)
  Attribute.get           `vals[attr] if attr in vals else attr.load(obj)`        -> attrCached
  Set.load                `prefetching = …`                                       -> prefetching
                          `if items and (attr.lazy or not setdata)`               -> partialLoad
                          the `continue`s of the batch loop                       -> batchSkips
                          the `added` set subtracted from the phantoms of a batch member must be that member's own -> phantomUsesOwnAdded
                          every member of the batch is marked fully loaded with count = len -> batchMarksFull
"""
import ast, json, os


class Unknown(Exception):
    pass


def src(n):
    return ast.unparse(n)


def find_method(tree, cls, name):
    for node in tree.body:
        if isinstance(node, ast.ClassDef) and node.name == cls:
            for f in node.body:
                if isinstance(f, ast.FunctionDef) and f.name == name: return f
    raise Unknown('%s.%s not found' % (cls, name))


def to_lean(e, atoms, where):
    if isinstance(e, ast.BoolOp):
        op = ' && ' if isinstance(e.op, ast.And) else ' || '
        return '(' + op.join(to_lean(v, atoms, where) for v in e.values) + ')'
    if isinstance(e, ast.UnaryOp) and isinstance(e.op, ast.Not):
        s = src(e)
        if s in atoms: return atoms[s]
        return '(!' + to_lean(e.operand, atoms, where) + ')'
    s = src(e)
    if s in atoms: return atoms[s]
    raise Unknown('%s: the guard uses %r, which is not one of %s' % (where, s, sorted(atoms)))


def if_chain(stmt):
    """[(test, body)] of an if / elif chain, plus the final else body"""
    out = []
    while True:
        out.append((stmt.test, stmt.body))
        if len(stmt.orelse) == 1 and isinstance(stmt.orelse[0], ast.If): stmt = stmt.orelse[0]
        else: return out, stmt.orelse


def analyse(repo):
    core = ast.parse(open(os.path.join(repo, 'pony', 'orm', 'core.py')).read())
    f = {}
    # ---- SetInstance.is_empty
    fn = find_method(core, 'SetInstance', 'is_empty')
    chain = next((s for s in fn.body if isinstance(s, ast.If) and src(s.test) == 'setdata is None'), None)
    if chain is None: raise Unknown('SetInstance.is_empty: no chain starting with `if setdata is None`')
    branches, orelse = if_chain(chain)
    if orelse: raise Unknown('SetInstance.is_empty: the chain has an else branch')
    atoms = {'setdata is None': '(!hasSd)', 'setdata.is_fully_loaded': 'full', 'setdata': 'nonEmpty', 'setdata.count is not None': 'countKnown'}
    rets = {'not setdata': '(!nonEmpty)', 'False': 'false', 'True': 'true', 'not setdata.count': 'countZero'}
    parts = []
    for test, body in branches:
        if len(body) != 1: raise Unknown('SetInstance.is_empty: branch %s has %d statements' % (src(test), len(body)))
        b = body[0]
        if isinstance(b, ast.Pass): res = 'none'
        elif isinstance(b, ast.Return) and src(b.value) in rets: res = 'some ' + rets[src(b.value)]
        else: raise Unknown('SetInstance.is_empty: branch %s does %s' % (src(test), src(b)))
        parts.append('if %s then %s' % (to_lean(test, atoms, 'is_empty'), res))
    f['isEmptyShortcut'] = ' else '.join(parts) + ' else none'
    after = fn.body[fn.body.index(chain) + 1:]
    if not any('_exec_sql' in src(s) for s in after): raise Unknown('SetInstance.is_empty: no query after the shortcuts')
    # ---- SetInstance.count
    fn = find_method(core, 'SetInstance', 'count')
    g = next((s for s in fn.body if isinstance(s, ast.If) and len(s.body) == 1 and isinstance(s.body[0], ast.Return) and src(s.body[0].value) == 'setdata.count'), None)
    if g is None: raise Unknown('SetInstance.count: no `return setdata.count` shortcut')
    f['countCached'] = to_lean(g.test, {'setdata is not None': 'hasSd', 'setdata.count is not None': 'countKnown'}, 'count')
    # ---- SetInstance.__contains__ (collection branch)
    fn = find_method(core, 'SetInstance', '__contains__')
    i0 = next((i for i, s in enumerate(fn.body) if isinstance(s, ast.Assign) and src(s) == 'setdata = obj._vals_.get(attr)'), None)
    if i0 is None: raise Unknown('SetInstance.__contains__: setdata is not read from obj._vals_')
    st = fn.body[i0 + 1]
    if not (isinstance(st, ast.If) and src(st.test) == 'setdata is not None'): raise Unknown('SetInstance.__contains__: shape changed after the setdata lookup')
    atoms = {'item in setdata': 'inItems', 'setdata.is_fully_loaded': 'full', 'setdata.absent is not None': 'true', 'item in setdata.absent': 'inAbsent'}
    parts = []
    for s in st.body:
        if not (isinstance(s, ast.If) and len(s.body) == 1 and isinstance(s.body[0], ast.Return) and src(s.body[0].value) in ('True', 'False') and not s.orelse):
            raise Unknown('SetInstance.__contains__: statement %s in the shortcut block' % src(s)[:60])
        parts.append('if %s then some %s' % (to_lean(s.test, atoms, '__contains__'), src(s.body[0].value).lower()))
    f['containsShortcut'] = 'if !hasSd then none else ' + ' else '.join(parts) + ' else none'
    # the else branch (no SetData yet) may answer from a fully loaded reverse side: recorded, not part of the shortcut function
    f['containsReverseShortcut'] = bool(st.orelse) and 'reverse_setdata.is_fully_loaded' in src(st)
    # ---- __len__ and copy
    guards = []
    for cls, name in (('SetInstance', '__len__'), ('Set', 'copy')):
        fn = find_method(core, cls, name)
        g = next((s for s in fn.body if isinstance(s, ast.If) and len(s.body) == 1 and src(s.body[0]) == 'setdata = attr.load(obj)'), None)
        if g is None: raise Unknown('%s.%s: no `setdata = attr.load(obj)` guard' % (cls, name))
        guards.append(to_lean(g.test, {'setdata is None': '(!hasSd)', 'setdata.is_fully_loaded': 'full'}, name))
    if guards[0] != guards[1]: raise Unknown('__len__ and copy decide differently whether to load: %r vs %r' % tuple(guards))
    f['collNeedsLoad'] = guards[0]
    # ---- Attribute.get
    fn = find_method(core, 'Attribute', 'get')
    a = next((s for s in fn.body if isinstance(s, ast.Assign) and src(s.targets[0]) == 'val'), None)
    if a is None or src(a.value) != 'vals[attr] if attr in vals else attr.load(obj)': raise Unknown('Attribute.get: val = %s' % (src(a.value) if a else None))
    f['attrCached'] = 'inVals'
    # ---- Set.load
    fn = find_method(core, 'Set', 'load')
    a = next((s for s in ast.walk(fn) if isinstance(s, ast.Assign) and src(s.targets[0]) == 'prefetching'), None)
    if a is None: raise Unknown('Set.load: prefetching is not assigned')
    f['prefetching'] = to_lean(a.value, {'attr.lazy': 'lazy', 'nplus1_threshold is not None': 'thresholdSet', 'counter >= nplus1_threshold': 'counterReached'}, 'Set.load prefetching')
    cnt = next((s for s in ast.walk(fn) if isinstance(s, ast.Assign) and src(s.targets[0]) == 'counter'), None)
    if cnt is None or src(cnt.value) != 'cache.collection_statistics.setdefault(attr, 0)': raise Unknown('Set.load: counter')
    if 'cache.collection_statistics[attr] = counter + 1' not in src(fn): raise Unknown('Set.load: the counter is not incremented after a full load')
    g = next((s for s in fn.body if isinstance(s, ast.If) and 'construct_sql_m2m(1, len(items))' in src(s)), None)
    if g is None: raise Unknown('Set.load: partial-load branch not found')
    f['partialLoad'] = to_lean(g.test, {'items': 'hasItems', 'attr.lazy': 'lazy', 'setdata': 'sdNonEmpty'}, 'Set.load partial')
    loop = next((s for s in ast.walk(fn) if isinstance(s, ast.For) and src(s.iter) == 'pk_index.values()'), None)
    if loop is None: raise Unknown('Set.load: batch loop not found')
    skips = []
    atoms = {'obj2 is obj': 'same', 'obj2._status_ in created_or_deleted_statuses': 'createdOrDeleted'}
    for s in loop.body:
        if isinstance(s, ast.If) and len(s.body) == 1 and isinstance(s.body[0], ast.Continue) and not s.orelse:
            skips.append(to_lean(s.test, atoms, 'Set.load batch loop'))
        elif isinstance(s, ast.If) and src(s.test) == 'setdata2 is None':
            br, oe = if_chain(s)
            if len(br) != 2 or src(br[1][0]) != 'setdata2.is_fully_loaded' or not isinstance(br[1][1][0], ast.Continue) or oe:
                raise Unknown('Set.load batch loop: setdata2 chain is %s' % src(s)[:120])
            skips.append('(hasSd && full)')
    if len(skips) != 3: raise Unknown('Set.load batch loop: %d skip conditions found (3 expected)' % len(skips))
    f['batchSkips'] = '(' + ' || '.join(skips) + ')'
    ph = [s for s in ast.walk(fn) if isinstance(s, ast.If) and len(s.body) == 1 and isinstance(s.body[0], ast.AugAssign) and src(s.body[0].target) == 'phantoms']
    if len(ph) != 1: raise Unknown('Set.load: %d phantom corrections' % len(ph))
    base = next((s for s in ast.walk(fn) if isinstance(s, ast.Assign) and src(s.targets[0]) == 'phantoms'), None)
    if base is None or src(base.value) != 'setdata2 - items': raise Unknown('Set.load: phantoms = %s' % (src(base.value) if base else None))
    f['phantomUsesOwnAdded'] = src(ph[0].test) == 'setdata2.added' and src(ph[0].body[0]) == 'phantoms -= setdata2.added'
    merge = src(fn)
    f['mergeSkipsKnownAndRemoved'] = all(x in merge for x in ('items -= setdata2', 'if setdata2.removed:\n', 'items -= setdata2.removed', 'setdata2 |= items'))
    mark = next((s for s in fn.body if isinstance(s, ast.For) and src(s.iter) == 'setdata_list'), None)
    f['batchMarksFull'] = bool(mark) and [src(x) for x in mark.body] == ['setdata2.is_fully_loaded = True', 'setdata2.absent = None', 'setdata2.count = len(setdata2)']
    # ---- loaded values are converted with the object at hand (Json / array values become tracked containers bound to it)
    dbs = src(find_method(core, 'Attribute', 'db_set'))
    ent = src(find_method(core, 'Entity', '_db_set_'))
    calls_a = [n for n in ast.walk(find_method(core, 'Attribute', 'db_set')) if isinstance(n, ast.Call) and src(n.func).endswith('.dbval2val')]
    calls_e = [n for n in ast.walk(find_method(core, 'Entity', '_db_set_')) if isinstance(n, ast.Call) and src(n.func).endswith('.dbval2val')]
    if not calls_a or not calls_e: raise Unknown('db_set / _db_set_: no dbval2val conversion found')
    f['dbSetBindsObj'] = all(len(c.args) == 2 and src(c.args[1]) == 'obj' for c in calls_a)
    f['rowSetBindsObj'] = all(len(c.args) == 2 and src(c.args[1]) == 'obj' for c in calls_e)
    al = src(find_method(core, 'Attribute', 'load'))
    if 'attr.db_set(obj, dbval)' not in al: raise Unknown('Attribute.load: the lazy value no longer goes through attr.db_set(obj, dbval)')
    return f


def render(f):
    def b(x): return 'true' if x else 'false'
    L = ['/- GENERATED by harness/gen_c23.py from pony/orm/core.py — do not edit.',
         '   The guards that decide whether a read is answered from the session, and how Set.load batches, as Lean functions over named atoms. -/',
         'namespace PonyVerif.Gen.LoadDecisions', '',
         '/-- `SetInstance.is_empty`: the answer given without a query (`none`: go to the database).  Atoms: a SetData exists; it is fully loaded;',
         '    it holds an item; `count` is known; the known count is 0 -/',
         'def isEmptyShortcut (hasSd full nonEmpty countKnown countZero : Bool) : Option Bool :=', '  ' + f['isEmptyShortcut'],
         '/-- `SetInstance.count`: is the cached count returned -/',
         'def countCached (hasSd countKnown : Bool) : Bool := ' + f['countCached'],
         '/-- `SetInstance.__contains__` (collection side): the answer given without a query -/',
         'def containsShortcut (hasSd inItems full inAbsent : Bool) : Option Bool :=', '  ' + f['containsShortcut'],
         '/-- `SetInstance.__len__` and `Set.copy` (iteration): does the collection have to be loaded -/',
         'def collNeedsLoad (hasSd full : Bool) : Bool := ' + f['collNeedsLoad'],
         '/-- `Attribute.get`: `vals[attr] if attr in vals else attr.load(obj)` -/',
         'def attrCached (inVals : Bool) : Bool := ' + f['attrCached'],
         '/-- `Set.load`: is the full load extended to a batch of owners -/',
         'def prefetching (lazy thresholdSet counterReached : Bool) : Bool := ' + f['prefetching'],
         '/-- `Set.load(obj, items)`: are only the given items looked up -/',
         'def partialLoad (hasItems lazy sdNonEmpty : Bool) : Bool := ' + f['partialLoad'],
         '/-- `Set.load` batch loop: is this object of the identity map left out of the batch -/',
         'def batchSkips (same createdOrDeleted hasSd full : Bool) : Bool := ' + f['batchSkips'],
         '/-- the phantom check of a batch member subtracts THAT member\'s pending additions -/',
         'def phantomUsesOwnAdded : Bool := ' + b(f['phantomUsesOwnAdded']),
         '/-- the merge adds the link rows that are neither known nor pending removals -/',
         'def mergeSkipsKnownAndRemoved : Bool := ' + b(f['mergeSkipsKnownAndRemoved']),
         '/-- every member of the batch ends fully loaded, `absent = None`, `count = len` -/',
         'def batchMarksFull : Bool := ' + b(f['batchMarksFull']),
         '/-- `Attribute.db_set` (lazy attribute fetched by the attribute access) converts with `dbval2val(dbval, obj)` -/',
         'def dbSetBindsObj : Bool := ' + b(f['dbSetBindsObj']),
         '/-- `Entity._db_set_` (rows fetched eagerly / by prefetch / by a query) converts with `dbval2val(dbval, obj)` -/',
         'def rowSetBindsObj : Bool := ' + b(f['rowSetBindsObj']),
         '', 'end PonyVerif.Gen.LoadDecisions', '']
    return '\n'.join(L)


def regenerate(repo, lean_dir):
    path = os.path.join(lean_dir, 'PonyVerif', 'Gen', 'LoadDecisions.lean')
    try:
        f = analyse(repo)
        text = render(f)
    except Exception as e:
        return {'LoadDecisions': {'ok': False, 'error': '%s: %s' % (type(e).__name__, e), 'info': {}, 'changed': False}}
    old = open(path).read() if os.path.exists(path) else None
    if old != text:
        os.makedirs(os.path.dirname(path), exist_ok=True)
        with open(path, 'w') as fh: fh.write(text)
    return {'LoadDecisions': {'ok': True, 'error': None, 'info': f, 'changed': old != text}}


if __name__ == '__main__':
    here = os.path.dirname(os.path.abspath(__file__))
    repo = os.environ.get('VERIF_REPO', '/repo')
    lean = os.environ.get('VERIF_LEAN') or os.path.join(here, '..', 'lean')
    print(json.dumps(regenerate(repo, lean), indent=1))
