"""Extra generator for C19: the provider-level methods that take, release and hand back the SQLite transaction lock
and the pooled connection are parsed from the CURRENT source (AST, no execution) and written as terms of the small
statement language `PonyVerif.Model.ConnLock.Src.Stmt` -> lean/PonyVerif/Gen/ConnLockSrc.lean.

  pony/orm/dbproviders/sqlite.py   SQLiteProvider.acquire_lock, release_lock, set_transaction_mode, commit, rollback, drop,
                                   release;  SQLitePool.drop
  pony/orm/dbapiprovider.py        DBAPIProvider.commit, rollback, drop, release;  Pool.release, Pool.drop

Props/C19.lean proves `Src.exec (regenerated term) = (hand-written model function)` for each of them (C19_src_*), so an edit
of one of these methods either keeps the interpretation equal to the model (harmless reshaping) or breaks a bridge
theorem, or - when it uses a statement form this translator does not know - makes the generation fail.  Fail closed in
all three cases.  Only `if core.local.debug: log_orm(...)` lines and the `core = pony.orm.core` alias are dropped.
"""
import ast, os

MODULE = 'ConnLockSrc'


class Untranslatable(Exception):
    pass


def U(node, why):
    raise Untranslatable('%s (line %s): %s' % (why, getattr(node, 'lineno', '?'), ast.unparse(node)[:120]))


SQL = {'PRAGMA foreign_keys': '.pragmaFkQuery', 'PRAGMA foreign_keys = false': '.pragmaFkOff',
       'PRAGMA foreign_keys = true': '.pragmaFkOn', 'BEGIN IMMEDIATE TRANSACTION': '.begin'}

CALLS = {
    'provider.pre_transaction_lock.acquire()': '.preAcquire', 'provider.transaction_lock.acquire()': '.txAcquire',
    'provider.pre_transaction_lock.release()': '.preRelease', 'provider.transaction_lock.release()': '.txRelease',
    'provider.acquire_lock()': '.acquireLock', 'provider.release_lock()': '.releaseLock',
    'connection.commit()': '.conCommit', 'connection.rollback()': '.conRollback', 'con.rollback()': '.conRollback',
    'con.close()': '.conClose',
    'DBAPIProvider.commit(provider, connection, cache)': '.dbapiCommit',
    'DBAPIProvider.rollback(provider, connection, cache)': '.dbapiRollback',
    'DBAPIProvider.drop(provider, connection, cache)': '.dbapiDrop',
    'DBAPIProvider.release(provider, connection, cache)': '.dbapiRelease',
    'provider.drop(connection, cache)': '.providerDrop',
    'provider.pool.release(connection)': '.poolRelease',
    'provider.pool.drop(connection)': '.poolDrop', 'pool.drop(con)': '.poolDrop',
    'Pool.drop(pool, con)': '.basePoolDrop',
}

ATOMS = {
    'cache is not None': '.cacheNotNone', 'cache.in_transaction': '.cacheInTx', 'cache.immediate': '.cacheImmediate',
    'cache.saved_fk_state': '.savedFkTruthy', 'cache.saved_fk_state is None': '.savedFkIsNone',
    'con is pool.con': '.conIsPoolCon',
    "pool.is_shared_memory_db or pool.filename == ':memory:'": '.poolIsMemory',
}


class Ctx(object):
    def __init__(self):
        self.bools = set()        # local boolean variables in scope (Lean binder names)
        self.strings = {}         # sql = '...'
        self.session_alias = {'cache.db_session'}
        self.cursor = False


def is_debug_guard(st):
    return (isinstance(st, ast.If) and ast.unparse(st.test) == 'core.local.debug' and not st.orelse and
            all(isinstance(b, ast.Expr) and isinstance(b.value, ast.Call) and ast.unparse(b.value.func) in ('log_orm', 'core.log_orm') for b in st.body))


def bexp(node, cx):
    text = ast.unparse(node)
    if text in ATOMS: return ATOMS[text]
    if isinstance(node, ast.Name):
        if node.id in cx.bools: return '(.lit %s)' % node.id
        U(node, 'unknown variable in a condition')
    if isinstance(node, ast.UnaryOp) and isinstance(node.op, ast.Not):
        return '(.not %s)' % bexp(node.operand, cx)
    if isinstance(node, ast.BoolOp):
        vals = list(node.values)
        texts = [ast.unparse(v) for v in vals]
        items = None
        if isinstance(node.op, ast.And):
            # `<s> is not None and <s>.ddl` with <s> = cache.db_session (or its alias) is ONE atom of the model; it stands
            # where `is not None` stood (all atoms are free of side effects)
            for alias in sorted(cx.session_alias):
                a, d = alias + ' is not None', alias + '.ddl'
                if a in texts and d in texts and texts.index(a) < texts.index(d):
                    items = ['.sessionDdl' if t == a else bexp(v, cx) for v, t in zip(vals, texts) if t != d]
                    break
        if items is None: items = [bexp(v, cx) for v in vals]
        op = '.and' if isinstance(node.op, ast.And) else '.or'
        out = items[-1]
        for it in reversed(items[:-1]): out = '(%s %s %s)' % (op, it, out)
        return out
    U(node, 'condition outside the translatable subset')


def call_prim(call, cx):
    text = ast.unparse(call)
    if text in CALLS: return CALLS[text]
    if isinstance(call.func, ast.Attribute) and ast.unparse(call.func) == 'cursor.execute' and len(call.args) == 1 and not call.keywords:
        if not cx.cursor: U(call, 'cursor used before `cursor = connection.cursor()`')
        a = call.args[0]
        sql = a.value if isinstance(a, ast.Constant) and isinstance(a.value, str) else cx.strings.get(a.id) if isinstance(a, ast.Name) else None
        if sql in SQL: return '(.execute %s)' % SQL[sql]
        U(call, 'unknown SQL text')
    U(call, 'unknown call')


def block(stmts, cx):
    """a statement list -> Lean `Stmt` text"""
    stmts = [s for s in stmts if not is_debug_guard(s)]
    if not stmts: return '.skip'
    st, rest = stmts[0], stmts[1:]
    def then(this):
        return this if not rest else '(.seq %s %s)' % (this, block(rest, cx))
    text = ast.unparse(st)
    if isinstance(st, ast.Pass): return then('.skip')
    if isinstance(st, ast.Expr) and isinstance(st.value, ast.Call):
        return then('(.call %s)' % call_prim(st.value, cx))
    if isinstance(st, ast.Assert):
        return then('(.assert %s)' % bexp(st.test, cx))
    if isinstance(st, ast.Assign) and len(st.targets) == 1:
        tgt, val = ast.unparse(st.targets[0]), ast.unparse(st.value)
        if text == 'core = pony.orm.core': return block(rest, cx)
        if text == 'cursor = connection.cursor()':
            cx.cursor = True
            return then('(.call .cursor)')
        if text == 'db_session = cache.db_session':
            cx.session_alias.add('db_session')
            return block(rest, cx)
        if tgt == 'sql' and isinstance(st.value, ast.Constant) and isinstance(st.value.value, str):
            cx.strings['sql'] = st.value.value
            return block(rest, cx)
        if text == 'fk = cursor.fetchone()':
            if not rest or ast.unparse(rest[0]) != 'if fk is not None:\n    fk = fk[0]': U(st, 'fetchone() result is not unpacked in the known way')
            cx.bools.add('fk')
            return '(.letFk fun fk => %s)' % block(rest[1:], cx)
        if tgt == 'cache.in_transaction' and val in ('True', 'False'):
            return then('(.setInTx %s)' % val.lower())
        if tgt == 'cache.saved_fk_state' and isinstance(st.value, ast.Call) and ast.unparse(st.value.func) == 'bool' and len(st.value.args) == 1:
            return then('(.setSavedFk %s)' % bexp(st.value.args[0], cx))
        if text == 'pool.con = None': return then('.setPoolConNone')
        if isinstance(st.targets[0], ast.Name) and tgt.isidentifier() and tgt not in ('cursor', 'sql', 'core', 'db_session'):
            e = bexp(st.value, cx)
            cx.bools.add(tgt)
            # the Lean binder carries the Python name
            body = block(rest, cx)
            return '(.letB %s fun %s => %s)' % (e, tgt, body)
        U(st, 'assignment outside the translatable subset')
    if isinstance(st, ast.If):
        t = block(st.body, cx)
        e = block(st.orelse, cx)
        return then('(.ite %s %s %s)' % (bexp(st.test, cx), t, e))
    if isinstance(st, ast.Try):
        if st.orelse: U(st, 'try/else')
        if st.finalbody and not st.handlers:
            return then('(.tryFinally %s %s)' % (block(st.body, cx), block(st.finalbody, cx)))
        if st.handlers and not st.finalbody and len(st.handlers) == 1 and st.handlers[0].type is None:
            hb = st.handlers[0].body
            if not hb or not (isinstance(hb[-1], ast.Raise) and hb[-1].exc is None): U(st, 'except clause that does not re-raise')
            return then('(.tryExcept %s %s)' % (block(st.body, cx), block(hb[:-1], cx)))
        U(st, 'try statement outside the translatable subset')
    U(st, 'statement outside the translatable subset')


def find_method(tree, cls, name):
    for node in tree.body:
        if isinstance(node, ast.ClassDef) and node.name == cls:
            for f in node.body:
                if isinstance(f, ast.FunctionDef) and f.name == name: return f
    raise Untranslatable('%s.%s not found' % (cls, name))


METHODS = [
    # lean name, file, class, method
    ('acquireLock', 'pony/orm/dbproviders/sqlite.py', 'SQLiteProvider', 'acquire_lock'),
    ('releaseLock', 'pony/orm/dbproviders/sqlite.py', 'SQLiteProvider', 'release_lock'),
    ('setTransactionMode', 'pony/orm/dbproviders/sqlite.py', 'SQLiteProvider', 'set_transaction_mode'),
    ('sqliteCommit', 'pony/orm/dbproviders/sqlite.py', 'SQLiteProvider', 'commit'),
    ('sqliteRollback', 'pony/orm/dbproviders/sqlite.py', 'SQLiteProvider', 'rollback'),
    ('sqliteDrop', 'pony/orm/dbproviders/sqlite.py', 'SQLiteProvider', 'drop'),
    ('sqliteRelease', 'pony/orm/dbproviders/sqlite.py', 'SQLiteProvider', 'release'),
    ('sqlitePoolDrop', 'pony/orm/dbproviders/sqlite.py', 'SQLitePool', 'drop'),
    ('dbapiCommit', 'pony/orm/dbapiprovider.py', 'DBAPIProvider', 'commit'),
    ('dbapiRollback', 'pony/orm/dbapiprovider.py', 'DBAPIProvider', 'rollback'),
    ('dbapiDrop', 'pony/orm/dbapiprovider.py', 'DBAPIProvider', 'drop'),
    ('dbapiRelease', 'pony/orm/dbapiprovider.py', 'DBAPIProvider', 'release'),
    ('poolRelease', 'pony/orm/dbapiprovider.py', 'Pool', 'release'),
    ('poolDrop', 'pony/orm/dbapiprovider.py', 'Pool', 'drop'),
]


def flush_shape(repo):
    """is `cache.immediate` still saved, forced to True and restored in a `finally` (not an `except`) of SessionCache.flush"""
    tree = ast.parse(open(os.path.join(repo, 'pony/orm/core.py')).read())
    f = find_method(tree, 'SessionCache', 'flush')
    texts = [ast.unparse(st) for st in f.body]
    try:
        i, j = texts.index('prev_immediate = cache.immediate'), texts.index('cache.immediate = True')
    except ValueError:
        return False, f.lineno
    tries = [(k, st) for k, st in enumerate(f.body) if isinstance(st, ast.Try)]
    if len(tries) != 1 or not (i < j < tries[0][0]): return False, f.lineno
    t = tries[0][1]
    ok = (not t.handlers and not t.orelse and len(t.finalbody) == 1 and
          ast.unparse(t.finalbody[0]) == 'if not cache.in_transaction:\n    cache.immediate = prev_immediate')
    return ok, f.lineno


def translate(repo):
    trees = {}
    lines = ['/- GENERATED by harness/gen_c19.py from the current source of /repo -- do not edit. -/',
             'import PonyVerif.Model.ConnLockSrc', 'namespace PonyVerif.Gen.ConnLockSrc', 'open PonyVerif.Model.ConnLock PonyVerif.Model.ConnLock.Src', '']
    info = {}
    for lean, file, cls, meth in METHODS:
        if file not in trees: trees[file] = ast.parse(open(os.path.join(repo, file)).read())
        f = find_method(trees[file], cls, meth)
        decos = [ast.unparse(d) for d in f.decorator_list]
        if any(d != 'wrap_dbapi_exceptions' for d in decos): raise Untranslatable('%s.%s: unknown decorator %r' % (cls, meth, decos))
        body = f.body
        if body and isinstance(body[0], ast.Expr) and isinstance(body[0].value, ast.Constant) and isinstance(body[0].value.value, str): body = body[1:]
        term = block(body, Ctx())
        if decos: term = '(.wrapped %s)' % term
        lines += ['/-- `%s.%s` (%s:%d) -/' % (cls, meth, file, f.lineno), 'def %s : Stmt :=' % lean, '  ' + term, '']
        info['%s.%s' % (cls, meth)] = {'file': file, 'line': f.lineno, 'statements': sum(isinstance(n, ast.stmt) for n in ast.walk(f)) - 1,
                                       'wrapped': bool(decos)}
    ok, line = flush_shape(repo)
    lines += ['/-- `SessionCache.flush` (pony/orm/core.py:%s): `prev_immediate = cache.immediate; cache.immediate = True; try: ... finally:' % line,
              '    if not cache.in_transaction: cache.immediate = prev_immediate` -- the restore runs on EVERY exit of the try block -/',
              'def flushRestoresImmediateInFinally : Bool := %s' % ('true' if ok else 'false'), '']
    info['SessionCache.flush'] = {'file': 'pony/orm/core.py', 'line': line, 'restores_immediate_in_finally': ok}
    lines += ['end PonyVerif.Gen.ConnLockSrc', '']
    return '\n'.join(lines), info


def regenerate(repo, lean_dir, only=None):
    if only and MODULE not in only: return {}
    path = os.path.join(lean_dir, 'PonyVerif', 'Gen', MODULE + '.lean')
    try:
        text, info = translate(repo)
    except (Untranslatable, SyntaxError, OSError) as e:
        return {MODULE: {'ok': False, 'error': str(e), 'info': {}, 'changed': False}}
    old = open(path).read() if os.path.exists(path) else None
    if old != text:
        os.makedirs(os.path.dirname(path), exist_ok=True)
        with open(path, 'w') as f: f.write(text)
    return {MODULE: {'ok': True, 'error': None, 'info': info, 'changed': old != text}}


if __name__ == '__main__':
    import sys, json
    r = regenerate(sys.argv[1] if len(sys.argv) > 1 else '/repo', os.path.join(os.path.dirname(os.path.abspath(__file__)), '..', 'lean'))
    print(json.dumps(r, indent=1))
