"""C05: generate lean/PonyVerif/Gen/CacheKeys.lean — the cache KEYS AS CODED — from the current source of pony/orm.

For every cache whose key is a tuple / HashableDict of named inputs the generator finds, by walking the AST of the
function that owns the cache, the expression the cache is looked up with and the expression it is stored under, and
emits the list of key components as constructors of `PonyVerif.Model.Memo.Field`.  A component the model does not know
makes the generator fail (ok=False): the model no longer describes the code.  Also emitted: structural facts the models of
Part 3/4 depend on (is the `Database.insert` key one flat concatenated tuple; is `attrs` rebound between lookup and store in
`Entity._load_`; which functions clear `cache.query_results`; does `Entity.flush` clear it; does `Query._aggregate` call
`prepare_connection_for_query_execution` before looking the result up).
Pure source analysis (ast): nothing of the repo is imported.
"""
import ast, json, os, sys

# source spelling of a key component -> Field constructor
FIELD = {
    'batch_size': 'batch_size', 'attr': 'attr', 'from_seeds': 'from_seeds', 'attrs_to_prefetch': 'attrs_to_prefetch',
    'sorted_query_attrs': 'sorted_query_attrs', 'order_by_pk': 'order_by_pk', 'limit': 'limit', 'for_update': 'for_update',
    'nowait': 'nowait', 'skip_locked': 'skip_locked', 'attrs': 'attrs', 'update_columns': 'update_columns',
    'optimistic_columns': 'optimistic_columns', 'optimistic_ops': 'optimistic_ops', 'query._key': 'query_key',
    'vartypes': 'vartypes', 'fixed_param_values': 'fixed_param_values', 'offset': 'offset', 'distinct': 'distinct',
    'aggr_func_name': 'aggr_func_name', 'aggr_func_distinct': 'aggr_func_distinct', 'sep': 'sep', 'inner_join_syntax': 'inner_join_syntax', 'sql_command': 'sql_command', 'code_key': 'code_key',
    'left_join': 'left_join', 'filters': 'filters', 'sql_key': 'sql_key', 'arguments_key': 'arguments_key', 'sql': 'sql',
    'original_sql': 'sql', 'paramstyle': 'paramstyle', 's': 'source_text', 'codeobject': 'codeobject_id',
    # components a repaired key may carry
    'tree.__class__': 'tree_kind', 'scope_classification': 'scope_classification', 'call_kinds': 'scope_classification', 'outer_names': 'outer_names',
}


class Unknown(Exception):
    pass


# keyword components of the HashableDict keys: the value expression each is built from (an input passed through unchanged)
KW_VALUES = {
    'vartypes': ['HashableDict(query._translator.vartypes)', 'vartypes'],
    'fixed_param_values': ['HashableDict(translator.fixed_param_values)'],
    'limit': ['limit'], 'offset': ['offset'], 'distinct': ['query._distinct'], 'for_update': ['query._for_update'], 'nowait': ['query._nowait'],
    'skip_locked': ['query._skip_locked'], 'inner_join_syntax': ['options.INNER_JOIN_SYNTAX'], 'attrs_to_prefetch': ['attrs_to_prefetch'],
    'sql_command': ["'DELETE'"], 'code_key': ['code_key'], 'left_join': ['left_join'], 'filters': ['()'], 'arguments_key': ['arguments_key'],
}


def src(node):
    return ast.unparse(node)


def find_func(tree, qual):
    parts = qual.split('.')
    body = tree.body
    node = None
    for p in parts:
        node = next((n for n in body if isinstance(n, (ast.FunctionDef, ast.ClassDef)) and n.name == p), None)
        if node is None: raise Unknown('function %s not found' % qual)
        body = node.body
    return node


def components(expr):
    """key expression -> list of component spellings"""
    if isinstance(expr, ast.Tuple):
        out = []
        for e in expr.elts:
            if isinstance(e, ast.Call) and isinstance(e.func, ast.Name) and e.func.id == 'tuple' and len(e.args) == 1:
                e = e.args[0]
            out.append(src(e))
        return out
    if isinstance(expr, ast.Call) and isinstance(expr.func, ast.Name) and expr.func.id == 'HashableDict':
        out = [src(a) for a in expr.args]
        for k in expr.keywords:
            v = src(k.value)
            if k.arg == 'aggr_func':
                # the component is itself a tuple of inputs: each must be passed through UNCHANGED (a wrapped input, e.g. bool(x), loses values)
                if not (isinstance(k.value, ast.Tuple) and all(isinstance(e, ast.Name) for e in k.value.elts)):
                    raise Unknown('sql_key component aggr_func is built as %s: not a tuple of the plain inputs' % v)
                out += [e.id for e in k.value.elts]
                continue
            allowed = KW_VALUES.get(k.arg)
            if allowed is not None and v not in allowed:
                raise Unknown('key component %s is built as %s (expected %s): the model does not cover a transformed input' % (k.arg, v, ' or '.join(allowed)))
            out.append(k.arg)
        return out
    return [src(expr)]


def fields(comps, where):
    out = []
    for c in comps:
        if c not in FIELD: raise Unknown('%s: key component %r is not in the model' % (where, c))
        out.append(FIELD[c])
    return out


def assigns(func, name):
    """all `name = expr` statements in func, in source order"""
    out = []
    for n in ast.walk(func):
        if isinstance(n, ast.Assign) and len(n.targets) == 1 and src(n.targets[0]) == name:
            out.append(n)
    return sorted(out, key=lambda n: n.lineno)


def cache_get(func, cache_suffix):
    """the `X.get(KEY)` call whose receiver source ends with cache_suffix"""
    for n in ast.walk(func):
        if isinstance(n, ast.Call) and isinstance(n.func, ast.Attribute) and n.func.attr == 'get' and src(n.func.value).endswith(cache_suffix):
            return n
    raise Unknown('no %s.get(...) in %s' % (cache_suffix, func.name))


def cache_sets(func, cache_suffix):
    out = []
    for n in ast.walk(func):
        if isinstance(n, ast.Assign):
            for t in n.targets:
                if isinstance(t, ast.Subscript) and src(t.value).endswith(cache_suffix): out.append((n, t))
    return out


def key_of_site(func, cache_suffix):
    """resolve the lookup key expression of a site to its component list"""
    g = cache_get(func, cache_suffix)
    k = g.args[0]
    if isinstance(k, ast.Name):
        a = [x for x in assigns(func, k.id) if x.lineno <= g.lineno]
        if a and isinstance(a[-1].value, (ast.Tuple, ast.Call)) and not (isinstance(a[-1].value, ast.Call) and src(a[-1].value.func) != 'HashableDict'):
            return components(a[-1].value), g
        return [k.id], g
    return components(k), g


# ---- what the miss branch of a cache READS (free names / attribute paths of the block), classified

BUILTIN = {'enumerate', 'len', 'zip', 'list', 'range', 'sorted', 'tuple', 'repeat', 'issubclass', 'throw', 'NotImplementedError', 'Entity', 'HashableDict'}
STATIC_ATTRS = {'_table_', '_pk_columns_', '_pk_converters_', '_pk_attrs_', '_database_', '_database_.provider.translator_cls.row_value_syntax', '_discriminator_attr_',
                '_construct_discriminator_criteria_', '__class__', '_attrs_with_columns_', '_attrs_with_bit_', 'columns', 'converters', 'reverse', 'reverse_columns',
                'symmetric', 'table', 'entity._database_', '_ast2sql', 'provider.dialect', 'provider.ast2sql', '_get_cache'}
STATIC_FUNCS = {'construct_batchload_criteria_list', 'populate_criteria_list'}
# name / path -> the key fields it is (a function of); per site
READ_CLASS = {
    '_construct_batchload_sql_': {'attr': ['attr'], 'batch_size': ['batch_size'], 'from_seeds': ['from_seeds'],
                                  'entity._construct_select_clause_': ['attrs_to_prefetch']},    # the select list reads the prefetch context the key's frozen set was taken from
    '_construct_sql_': {'for_update': ['for_update'], 'limit': ['limit'], 'nowait': ['nowait'], 'order_by_pk': ['order_by_pk'], 'skip_locked': ['skip_locked'],
                        'sorted_query_attrs': ['sorted_query_attrs'], 'query_attrs': ['sorted_query_attrs'], 'query_attrs.get': ['sorted_query_attrs'],
                        'entity._construct_select_clause_': ['sorted_query_attrs', 'active_prefetch_context']},
    '_save_created_': {'attrs': ['attrs'], 'auto_pk': ['attrs']},                               # auto_pk <=> the pk attribute was skipped
    '_save_updated_': {'update_columns': ['update_columns'], 'optimistic_columns': ['optimistic_columns'], 'optimistic_converters': ['optimistic_columns'],
                       'optimistic_ops': ['optimistic_ops'], 'obj._wbits_': ['update_columns']},   # the written attributes are those whose columns are update_columns
    '_save_deleted_': {},
    '_construct_sql_and_arguments': {'aggr_func_distinct': ['aggr_func_distinct'], 'aggr_func_name': ['aggr_func_name'], 'sep': ['sep'], 'limit': ['limit'], 'offset': ['offset'],
                                     'query._distinct': ['distinct'], 'query._for_update': ['for_update'], 'query._nowait': ['nowait'], 'query._skip_locked': ['skip_locked'],
                                     'translator.construct_sql_ast': ['query_key', 'vartypes', 'fixed_param_values', 'attrs_to_prefetch', 'active_prefetch_context'],
                                     'database.provider.ast2sql': ['inner_join_syntax']},
}


def miss_block(fn, var):
    for n in ast.walk(fn):
        if isinstance(n, ast.If) and src(n.test) == '%s is None' % var: return n.body
    def scan(body):
        for i, st in enumerate(body):
            if isinstance(st, ast.If) and src(st.test) == '%s is not None' % var and isinstance(st.body[0], ast.Return): return body[i + 1:]
        return None
    return scan(fn.body)


def free_reads(block):
    """names / attribute paths loaded in the block before the block itself assigns the root name"""
    stored = set(); out = []
    def chain(n):
        parts = []
        while isinstance(n, ast.Attribute): parts.append(n.attr); n = n.value
        return '.'.join([n.id] + parts[::-1]) if isinstance(n, ast.Name) else None
    def loads(node):
        if node is None: return
        if isinstance(node, ast.Attribute) and isinstance(node.ctx, ast.Load):
            c = chain(node)
            if c is not None:
                if c.split('.')[0] not in stored: out.append(c)
                return
        if isinstance(node, ast.Name):
            if isinstance(node.ctx, ast.Load) and node.id not in stored: out.append(node.id)
            return
        if isinstance(node, (ast.ListComp, ast.GeneratorExp, ast.SetComp, ast.DictComp)):
            for gen_ in node.generators:
                loads(gen_.iter); store(gen_.target)
                for c in gen_.ifs: loads(c)
            for part in ([node.elt] if not isinstance(node, ast.DictComp) else [node.key, node.value]): loads(part)
            return
        for ch in ast.iter_child_nodes(node): loads(ch)
    def store(t):
        for n in ast.walk(t):
            if isinstance(n, ast.Name): stored.add(n.id)
    def stmt(st):
        if isinstance(st, ast.Assign):
            loads(st.value)
            for t in st.targets:
                if isinstance(t, (ast.Subscript, ast.Attribute)): loads(t)
                else: store(t)
        elif isinstance(st, ast.For):
            loads(st.iter); store(st.target)
            for x in st.body + st.orelse: stmt(x)
        elif isinstance(st, (ast.If, ast.While)):
            loads(st.test)
            for x in st.body + st.orelse: stmt(x)
        elif isinstance(st, ast.With):
            for it in st.items: loads(it.context_expr)
            for x in st.body: stmt(x)
        elif isinstance(st, ast.Try):
            for x in st.body: stmt(x)
            for h in st.handlers:
                if h.type is not None: loads(h.type)
                if h.name: stored.add(h.name)
                for x in h.body: stmt(x)
            for x in st.orelse + st.finalbody: stmt(x)
        elif isinstance(st, ast.AugAssign):
            loads(st.value); loads(st.target)
        else: loads(st)
    for st in block: stmt(st)
    return sorted(set(out))


def classify_reads(site, reads):
    """-> list of Field names the block's value can depend on; raises Unknown for a read the model has no account of"""
    table = READ_CLASS[site]
    fields = []
    for r in reads:
        root, _, rest = r.partition('.')
        if r in table: fields += table[r]; continue
        if r in BUILTIN or r in STATIC_FUNCS: continue
        if r in ('query_key', 'sql_key', 'cache_key') or r.endswith('_cache_') or r.endswith('_cache') or r.endswith('cached_load_sql'): continue   # the key / the cache itself
        if root in ('entity', 'obj', 'attr', 'database', 'rentity', 'reverse') and (rest in STATIC_ATTRS or rest.split('.')[0] == '__class__'): continue   # schema constants
        raise Unknown('%s: the miss branch reads %r, which the model does not account for' % (site, r))
    return sorted(set(fields), key=fields.index)


def analyse(repo):
    core = ast.parse(open(os.path.join(repo, 'pony', 'orm', 'core.py')).read())
    asttr = ast.parse(open(os.path.join(repo, 'pony', 'orm', 'asttranslation.py')).read())
    decomp = ast.parse(open(os.path.join(repo, 'pony', 'orm', 'decompiling.py')).read())
    f = {}
    sites = [
        ('batchloadKey', core, 'EntityMeta._construct_batchload_sql_', '_batchload_sql_cache_'),
        ('findKey', core, 'EntityMeta._construct_sql_', '_find_sql_cache_'),
        ('insertSqlKey', core, 'Entity._save_created_', '_insert_sql_cache_'),
        ('updateSqlKey', core, 'Entity._save_updated_', '_update_sql_cache_'),
        ('deleteSqlKey', core, 'Entity._save_deleted_', '_delete_sql_cache_'),
        ('constructedSqlKey', core, 'Query._construct_sql_and_arguments', '_constructed_sql_cache'),
        ('bulkDeleteSqlKey', core, 'Query.delete', '_constructed_sql_cache'),
        ('string2astKey', core, 'string2ast', 'string2ast_cache'),
        ('extractorsKey', asttr, 'create_extractors', 'extractors_cache'),
    ]
    for name, tree, qual, suffix in sites:
        fn = find_func(tree, qual)
        comps, g = key_of_site(fn, suffix)
        if comps == ['()']: comps = []
        f[name] = fields(comps, qual)
        # the store must use the same expression as the lookup
        for st, target in cache_sets(fn, suffix):
            sk = target.slice
            lk = g.args[0]
            if src(sk) != src(lk): raise Unknown('%s: stored under %s, looked up with %s' % (qual, src(sk), src(lk)))
    # ormtypes.parse_raw_sql: raw_sql_cache keyed by the fragment text; the miss branch reads nothing but the text
    ormt = ast.parse(open(os.path.join(repo, 'pony', 'orm', 'ormtypes.py')).read())
    prs = find_func(ormt, 'parse_raw_sql')
    comps, g = key_of_site(prs, 'raw_sql_cache')
    f['rawSqlKey'] = fields(comps, 'parse_raw_sql')
    sets_ = cache_sets(prs, 'raw_sql_cache')
    if len(sets_) != 1 or src(sets_[0][1].slice) != src(g.args[0]): raise Unknown('parse_raw_sql: stored under another key than looked up with')
    blk = miss_block(prs, 'result')
    if not blk: raise Unknown('parse_raw_sql: miss branch not found')
    raw = [r for r in free_reads(blk) if r not in ('isinstance', 'str', 'TypeError', 'ValueError', 'compile', 'parse_expr', 'len', 'tuple', 'throw', 'raw_sql_cache')]
    bad = [r for r in raw if r.split('.')[0] != 'sql']
    if bad: raise Unknown('parse_raw_sql: the miss branch reads %r' % bad)
    f['rawSqlReads'] = ['sql']
    if assigns(prs, 'sql'): raise Unknown('parse_raw_sql: sql is rebound')
    # what each miss branch reads, from the source
    for name, qual, var in (('batchloadReads', 'EntityMeta._construct_batchload_sql_', 'cached_sql'), ('findReads', 'EntityMeta._construct_sql_', 'cached_sql'),
                            ('insertSqlReads', 'Entity._save_created_', 'cached_sql'), ('updateSqlReads', 'Entity._save_updated_', 'cached_sql'),
                            ('deleteSqlReads', 'Entity._save_deleted_', 'cached_sql'), ('constructedSqlReads', 'Query._construct_sql_and_arguments', 'cache_entry')):
        fn = find_func(core, qual)
        blk = miss_block(fn, var)
        if not blk: raise Unknown('%s: miss branch not found' % qual)
        raw = free_reads(blk)
        f[name + 'Raw'] = raw
        f[name] = classify_reads(qual.split('.')[1], raw)
    # the translator key: Query.__init__  `query._key = HashableDict(code_key=…, vartypes=…, left_join=…, filters=())`
    qi = find_func(core, 'Query.__init__')
    a = assigns(qi, 'query._key')
    if not a: raise Unknown('Query.__init__: query._key is not assigned')
    f['translatorKey'] = fields(components(a[-1].value), 'Query.__init__')
    # the result key: `query_key = HashableDict(sql_key, arguments_key=arguments_key)`
    cs = find_func(core, 'Query._construct_sql_and_arguments')
    a = [x for x in assigns(cs, 'query_key') if isinstance(x.value, ast.Call)]
    if not a: raise Unknown('_construct_sql_and_arguments: query_key')
    f['resultKey'] = fields(components(a[-1].value), 'result key')
    # decompile: ast_cache.get(key), key = get_codeobject_id(codeobject)
    dc = find_func(decomp, 'decompile')
    a = assigns(dc, 'key')
    if not (a and isinstance(a[-1].value, ast.Call) and src(a[-1].value.func) == 'get_codeobject_id'):
        raise Unknown('decompile: key is not get_codeobject_id(codeobject)')
    f['astKey'] = fields([src(a[-1].value.args[0])], 'decompile')
    # adapt_sql: lookup (sql, paramstyle), store (original_sql, paramstyle) with original_sql = sql
    ad = find_func(core, 'adapt_sql')
    g = cache_get(ad, 'adapted_sql_cache')
    f['adaptLookupKey'] = fields(components(g.args[0]), 'adapt_sql')
    sets = cache_sets(ad, 'adapted_sql_cache')
    if len(sets) != 1: raise Unknown('adapt_sql: %d stores' % len(sets))
    stc = components(sets[0][1].slice)
    if 'original_sql' in stc:
        oa = assigns(ad, 'original_sql')
        if not (len(oa) == 1 and src(oa[0].value) == 'sql'): raise Unknown('adapt_sql: original_sql is not the unmodified statement')
        # `sql` itself must not be rebound
        if assigns(ad, 'sql'): raise Unknown('adapt_sql: sql is rebound')
    f['adaptStoreKey'] = fields(stc, 'adapt_sql store')
    # Entity._load_: lookup with attrs, stored after attrs was rebound
    ld = find_func(core, 'Entity.load')
    g = cache_get(ld, 'sql_cache')
    sets = cache_sets(ld, 'sql_cache')
    if src(g.args[0]) != 'attrs' or len(sets) != 1 or src(sets[0][1].slice) != 'attrs': raise Unknown('Entity.load: unexpected key expressions')
    reb = [x for x in assigns(ld, 'attrs') if g.lineno < x.lineno < sets[0][0].lineno]
    f['loadStoreRebinds'] = [src(x.value) for x in reb]
    ok_rebinds = ([], ['(entity._discriminator_attr_,) + attrs', 'entity._pk_attrs_ + attrs'])
    if f['loadStoreRebinds'] not in ok_rebinds: raise Unknown('Entity.load: attrs rebound as %r' % f['loadStoreRebinds'])
    # Database.insert key shape
    ins = find_func(core, 'Database.insert')
    a = assigns(ins, 'query_key')
    shapes = [src(x.value) for x in a]
    if shapes == ['(table_name,) + tuple(kwargs)', 'query_key + (returning,)']: f['dbInsertKeyFlat'] = True
    elif len(shapes) == 1 and isinstance(a[0].value, ast.Tuple) and len(a[0].value.elts) == 3 and 'returning' in shapes[0] and '+' not in shapes[0]:
        f['dbInsertKeyFlat'] = False
    else: raise Unknown('Database.insert: key built as %r' % shapes)
    f['dbInsertKeySource'] = shapes
    # m2m load key
    m2m = find_func(core, 'Set.construct_sql_m2m')
    a = [src(x.value) for x in assigns(m2m, 'cache_key')]
    if a != ['-items_count', 'batch_size']: raise Unknown('Set.construct_sql_m2m: cache_key = %r' % a)
    # id()-keyed caches: does get_codeobject_id keep the code object alive (module dict `codeobjects`)
    utils = ast.parse(open(os.path.join(repo, 'pony', 'utils', 'utils.py')).read())
    gid = find_func(utils, 'get_codeobject_id')
    module_dicts = [src(n.targets[0]) for n in utils.body if isinstance(n, ast.Assign) and isinstance(n.value, ast.Dict)]
    stores = [n for n in ast.walk(gid) if isinstance(n, ast.Assign) and isinstance(n.targets[0], ast.Subscript)
              and src(n.targets[0].value) in module_dicts and src(n.value) == 'codeobject']
    returns_id = any(isinstance(n, ast.Return) and (src(n.value) in ('id(codeobject)', 'codeobject_id')) for n in ast.walk(gid))
    if not returns_id: raise Unknown('get_codeobject_id does not return id(codeobject)')
    f['codeobjectsPinned'] = bool(stores)
    # the code keys id(f_code) / id(func.__code__) are taken from objects that decompile() numbers (and pins) in the same call
    mq = src(find_func(core, 'make_query')); pl = src(find_func(core, 'Query._process_lambda'))
    f['codeKeyFromDecompiledObject'] = ('decompile(gen)' in mq and 'id(gen.gi_frame.f_code)' in mq and mq.index('decompile(gen)') < mq.index('id(gen.gi_frame.f_code)')
                                        and 'id(func.__code__)' in pl and 'decompile(func)' in pl)
    if not f['codeKeyFromDecompiledObject']: raise Unknown('make_query / _process_lambda: the code key is not taken from the decompiled (pinned) code object')
    # pinned parameter values are recorded on the ROOT translator (the one the cache re-check and sql_key read)
    sqlt = ast.parse(open(os.path.join(repo, 'pony', 'orm', 'sqltranslation.py')).read())
    parents = {}
    for n in ast.walk(sqlt):
        for ch in ast.iter_child_nodes(n): parents[ch] = n
    def enclosing_funcs(n):
        out = []
        while n in parents:
            n = parents[n]
            if isinstance(n, ast.FunctionDef): out.append(n)
        return out
    def resolve(name, funcs):
        for fn in funcs:
            a = assigns(fn, name)
            if a: return a[-1].value
        return None
    sites = []
    for n in ast.walk(sqlt):
        if isinstance(n, ast.Assign) and isinstance(n.targets[0], ast.Subscript) and 'fixed_param_values' in src(n.targets[0].value):
            funcs = enclosing_funcs(n)
            tv = n.targets[0].value
            if isinstance(tv, ast.Name): tv = resolve(tv.id, funcs)
            recv = tv.value if isinstance(tv, ast.Attribute) and tv.attr == 'fixed_param_values' else None
            if isinstance(recv, ast.Name): recv = resolve(recv.id, funcs)
            sites.append((funcs[0].name if funcs else '?', src(recv) if recv is not None else '?'))
    if not sites: raise Unknown('sqltranslation.py: no site records fixed_param_values')
    f['pinSites'] = ['%s: %s' % s_ for s_ in sites]
    f['pinsRecordedAtRoot'] = all(r.endswith('.root_translator') for _, r in sites)
    # a cached translator is never mutated after the store: every consumer works on a deepcopy
    import re as _re
    problems = []
    for qual in ('SQLTranslator.dispatch_external', 'SQLTranslator.init'):
        fn = find_func(sqlt, qual)
        uses = [n for n in ast.walk(fn) if isinstance(n, ast.Assign) and _re.search(r'\b(t|iterable)\.translator\b', src(n.value))]
        if not uses: problems.append('%s: no use of a query-typed variable\'s translator found' % qual)
        for n in uses:
            if not _re.fullmatch(r'(t|iterable)\.translator\.deepcopy\(\)', src(n.value)): problems.append('%s: %s' % (qual, src(n)))
    for name in ('without_order', 'order_by_numbers', 'order_by_attributes', 'apply_kwfilters', 'apply_lambda'):
        fn = find_func(sqlt, 'SQLTranslator.' + name)
        first = None
        for st in fn.body:
            touched = [n for n in ast.walk(st) if isinstance(n, ast.Assign) and any('translator' in src(t).split('[')[0] for t in n.targets)]
            if touched or (isinstance(st, ast.With) and 'translator' in src(st.items[0].context_expr)):
                first = st; break
        if first is None or src(first) != 'translator = translator.deepcopy()':
            problems.append('SQLTranslator.%s: first statement that touches the translator is %s' % (name, src(first)[:80] if first is not None else None))
    dc = src(find_func(sqlt, 'SQLTranslator.deepcopy'))
    if 'result = deepcopy(translator)' not in dc: problems.append('SQLTranslator.deepcopy does not deep-copy')
    f['translatorAliasingProblems'] = problems
    f['cachedTranslatorsCopiedBeforeMutation'] = not problems
    # Query._process_lambda: the label of the filters-key entry must tell apart every pair (order_by, effective original_names) that
    # apply_lambda can be called with for ONE func_id (the func_id fixes whether the lambda has arguments)
    import re as _re
    plf = find_func(core, 'Query._process_lambda')
    tups = [n for n in ast.walk(plf) if isinstance(n, ast.Assign) and src(n.targets[0]) == 'tup']
    if len(tups) != 1 or not (isinstance(tups[0].value, ast.Tuple) and len(tups[0].value.elts) == 1 and isinstance(tups[0].value.elts[0], ast.Tuple)):
        raise Unknown('_process_lambda: tup is not a one-entry tuple')
    entry = tups[0].value.elts[0]
    if [src(e) for e in entry.elts[1:]] != ['func_id', 'vartypes']: raise Unknown('_process_lambda: filters-key entry is %s' % src(entry))
    label = entry.elts[0]
    names_used = set(n.id for n in ast.walk(label) if isinstance(n, ast.Name))
    if not names_used <= {'order_by', 'original_names'}: raise Unknown('_process_lambda: label reads %s' % sorted(names_used))
    if not _re.search(r'else:\n\s+original_names = True', src(plf)): raise Unknown('_process_lambda: an argument-less lambda no longer forces original_names')
    applies = [n for n in ast.walk(plf) if isinstance(n, ast.Call) and src(n.func).endswith('.apply_lambda')]
    for c in applies:
        a = [src(x) for x in c.args]
        if a[2:3] != ['order_by'] or 'original_names' not in a: raise Unknown('_process_lambda: apply_lambda is called as %s' % src(c)[:120])
    code = compile(ast.Expression(label), '<label>', 'eval')
    LAB = {'order_by': 0, 'where': 1, 'filter': 2}
    rows = []
    for has_args in (True, False):
        for method, ob, on in (('filter', False, False), ('where', False, True), ('order_by', True, False)):
            eff = on if has_args else True
            lab = eval(code, {'order_by': ob, 'original_names': eff})
            if lab not in LAB: raise Unknown('_process_lambda: label %r' % (lab,))
            rows.append((has_args, ob, eff, LAB[lab], method))
    f['lambdaLabels'] = [list(r) for r in rows]
    # the other filters-key entries: the entry carries exactly what the derivation is computed from
    ob = src(find_func(core, 'Query._order_by'))
    for need in ("tup = (('without_order',),)", "tup = (('order_by_numbers' if numbers else 'order_by_attributes', args),)"):
        if need not in ob: raise Unknown('Query._order_by: filters-key entry is no longer %s' % need)
    if ob.count("new_key = HashableDict(query._key, filters=query._key['filters'] + tup)") != 2: raise Unknown('Query._order_by: key is not built from tup')
    if 'order_by_numbers(args)' not in ob or 'order_by_attributes(args)' not in ob: raise Unknown('Query._order_by: derivation arguments changed')
    ak = src(find_func(core, 'Query._apply_kwargs'))
    if "tup = (('apply_kwfilters', filterattrs, original_names),)" not in ak or "new_key = HashableDict(query._key, filters=query._key['filters'] + tup)" not in ak \
            or 'apply_kwfilters(filterattrs, original_names)' not in ak or 'filterattrs.append((attr, id, val is None))' not in ak:
        raise Unknown('Query._apply_kwargs: the filters-key entry is not (apply_kwfilters, filterattrs, original_names) with filterattrs = (attr, id, val is None)')
    f['derivationKeyEntriesCarryArguments'] = True
    # Query._get_translator: a hit is re-validated against the function vartypes and the pinned parameter values
    gt = src(find_func(core, 'Query._get_translator'))
    f['translatorHitRechecked'] = bool(_re.search(r'if all_func_vartypes != translator\.func_vartypes:\n\s+return \(?None, vars\.copy\(\)\)?', gt)
                                       and _re.search(r'for key, val in translator\.fixed_param_values\.items\(\):\n\s+assert key in new_vars\n\s+if val != new_vars\[key\]:\n\s+database\._translator_cache\.pop\(query_key, None\)\n\s+return \(?None, vars\.copy\(\)\)?', gt))
    # create_extractors: is a hit re-validated against the classification of the called names in the new scope
    ce = find_func(asttr, 'create_extractors')
    ces = src(ce)
    f['extractorsRecheck'] = ('call_kinds' in ces and 'classify_callable' in ces and 'outer_names)' in ces and 'frozenset(outer_names)' in ces)
    # clear points of the result cache
    clear_points = []
    for cls in core.body:
        if isinstance(cls, ast.ClassDef):
            for fn in cls.body:
                if isinstance(fn, ast.FunctionDef) and 'query_results.clear()' in src(fn):
                    clear_points.append('%s.%s' % (cls.name, fn.name))
    f['resultClearPoints'] = sorted(clear_points)
    for need in ('SessionCache.flush', 'SessionCache.commit', 'Query.delete'):
        if need not in clear_points: raise Unknown('%s no longer clears cache.query_results' % need)
    f['entityFlushClearsResults'] = 'Entity.flush' in clear_points
    # SessionCache.flush: the clear comes after the before-hooks and before the first statement
    fl = find_func(core, 'SessionCache.flush'); s = src(fl)
    if not (s.index('_before_save_()') < s.index('query_results.clear()') < s.index('remove_m2m(') < s.index('obj._save_()')):
        raise Unknown('SessionCache.flush: order of hooks / clear / statements changed')
    # prepare_connection_for_query_execution flushes when modified and not inside flush_disabled
    pc = src(find_func(core, 'SessionCache.prepare_connection_for_query_execution'))
    if 'if not cache.noflush_counter and cache.modified:\n        cache.flush()' not in pc and 'if not cache.noflush_counter and cache.modified: cache.flush()' not in pc:
        raise Unknown('prepare_connection_for_query_execution: auto-flush condition changed')
    # _aggregate and _actual_fetch: prepare (auto-flush) BEFORE the lookup
    for qual in ('Query._aggregate', 'Query._actual_fetch'):
        s = src(find_func(core, qual))
        i = s.find('prepare_connection_for_query_execution()'); j = s.find('cache.query_results')
        f[qual.split('.')[1].strip('_') + 'FlushesBeforeLookup'] = (0 <= i < j)
    # Query._aggregate: the value put into cache.query_results is the FINAL one (after the SUM default and converter.sql2py)
    ag = find_func(core, 'Query._aggregate')
    order = []
    for n in ast.walk(ag):
        if isinstance(n, ast.Assign):
            t = src(n.targets[0]); v = src(n.value)
            if t == 'cache.query_results[query_key]' and v == 'result': order.append(('store', n.lineno))
            elif t == 'result' and v == 'converter.sql2py(result)': order.append(('sql2py', n.lineno))
            elif t == 'result' and v == '0': order.append(('sumdefault', n.lineno))
            elif t == 'result' and v == 'row[0]': order.append(('fetch', n.lineno))
    kinds = [k for k, _ in sorted(order, key=lambda x: x[1])]
    if sorted(kinds) != ['fetch', 'sql2py', 'store', 'sumdefault']: raise Unknown('Query._aggregate: statements found: %s' % kinds)
    f['aggregateStoresFinalValue'] = kinds.index('store') > kinds.index('sql2py') and kinds.index('store') > kinds.index('sumdefault')
    ret = [n for n in ast.walk(ag) if isinstance(n, ast.Return)]
    if len(ret) != 1 or src(ret[0].value) != 'result': raise Unknown('Query._aggregate: return')
    # rollback closes the session (the next one gets a fresh SessionCache with an empty dict)
    if 'cache.close(rollback=True)' not in src(find_func(core, 'SessionCache.rollback')): raise Unknown('SessionCache.rollback')
    return f


def render(f):
    def lst(name):
        return 'def %s : List Field := [%s]' % (name, ', '.join('.' + x for x in f[name]))
    def b(x): return 'true' if x else 'false'
    lines = ['/- GENERATED by harness/gen_c05.py from pony/orm/core.py, asttranslation.py, decompiling.py — do not edit.',
             '   The cache keys as coded (components as `Model.Memo.Field`) and the structural facts the C05 models rely on. -/',
             'import PonyVerif.Model.Memo', 'namespace PonyVerif.Gen.CacheKeys', 'open PonyVerif.Model.Memo', '']
    for name in ('batchloadKey', 'findKey', 'insertSqlKey', 'updateSqlKey', 'deleteSqlKey', 'constructedSqlKey', 'bulkDeleteSqlKey',
                 'translatorKey', 'resultKey', 'string2astKey', 'extractorsKey', 'astKey', 'adaptLookupKey', 'adaptStoreKey'):
        lines.append(lst(name))
    lines.append('/-- the input fields each miss branch READS (free names and attribute paths of the block, extracted from the source and classified:')
    lines.append('    schema constants and pure helpers dropped, aliases and derived values mapped to the inputs they are functions of) -/')
    for name in ('batchloadReads', 'findReads', 'insertSqlReads', 'updateSqlReads', 'deleteSqlReads', 'constructedSqlReads', 'rawSqlKey', 'rawSqlReads'):
        lines.append(lst(name))
    lines.append('/-- `Entity._load_` stores under `pk_attrs + (discriminator,)? + attrs` although it looks up with `attrs` -/')
    lines.append('def loadStoreRebound : Bool := %s' % b(f['loadStoreRebinds']))
    lines.append('/-- `Database.insert`: the key is ONE flat tuple `(table,) + columns [+ (returning,)]` -/')
    lines.append('def dbInsertKeyFlat : Bool := %s' % b(f['dbInsertKeyFlat']))
    lines.append('/-- `create_extractors` re-validates a hit: classification of the called names in the new scope + the outer names -/')
    lines.append('def extractorsRecheck : Bool := %s' % b(f['extractorsRecheck']))
    lines.append('/-- `get_codeobject_id` keeps every code object it numbers alive (module dict `codeobjects`): id() stays a key -/')
    lines.append('def codeobjectsPinned : Bool := %s' % b(f['codeobjectsPinned']))
    lines.append('/-- every site that bakes a parameter value into a translator records it in the ROOT translator\'s `fixed_param_values` -/')
    lines.append('def pinsRecordedAtRoot : Bool := %s' % b(f['pinsRecordedAtRoot']))
    lines.append('/-- every consumer of a cached translator (`for x in <query>`, query-typed externals, order_by / filter / where derivations) works on `translator.deepcopy()` -/')
    lines.append('def cachedTranslatorsCopiedBeforeMutation : Bool := %s' % b(f['cachedTranslatorsCopiedBeforeMutation']))
    lines.append('/-- `Query._process_lambda`: (lambda has arguments, order_by, effective original_names, label of the filters-key entry: 0 order_by / 1 where / 2 filter)')
    lines.append('    for filter / where / order_by called with a lambda with and without arguments (label expression evaluated from the source) -/')
    lines.append('def lambdaLabels : List (Bool × Bool × Bool × Nat) := [%s]' % ', '.join('(%s, %s, %s, %d)' % (b(r[0]), b(r[1]), b(r[2]), r[3]) for r in f['lambdaLabels']))
    lines.append('/-- `Query._get_translator` rejects a hit whose function vartypes or pinned parameter values differ from the new query\'s -/')
    lines.append('def translatorHitRechecked : Bool := %s' % b(f['translatorHitRechecked']))
    lines.append('/-- `Query._aggregate` stores the post-processed value (after `None -> 0` for SUM and `converter.sql2py`) -/')
    lines.append('def aggregateStoresFinalValue : Bool := %s' % b(f['aggregateStoresFinalValue']))
    lines.append('/-- `Entity.flush` contains `query_results.clear()` -/')
    lines.append('def entityFlushClearsResults : Bool := %s' % b(f['entityFlushClearsResults']))
    lines.append('/-- `Query._aggregate` / `Query._actual_fetch` call `prepare_connection_for_query_execution()` before the lookup -/')
    lines.append('def aggregateFlushesBeforeLookup : Bool := %s' % b(f['aggregateFlushesBeforeLookup']))
    lines.append('def fetchFlushesBeforeLookup : Bool := %s' % b(f['actual_fetchFlushesBeforeLookup']))
    lines += ['', 'end PonyVerif.Gen.CacheKeys', '']
    return '\n'.join(lines)


def regenerate(repo, lean_dir):
    path = os.path.join(lean_dir, 'PonyVerif', 'Gen', 'CacheKeys.lean')
    try:
        f = analyse(repo)
        text = render(f)
    except Exception as e:
        return {'CacheKeys': {'ok': False, 'error': '%s: %s' % (type(e).__name__, e), 'info': {}, 'changed': False}}
    old = open(path).read() if os.path.exists(path) else None
    if old != text:
        os.makedirs(os.path.dirname(path), exist_ok=True)
        with open(path, 'w') as fh: fh.write(text)
    return {'CacheKeys': {'ok': True, 'error': None, 'info': f, 'changed': old != text}}


if __name__ == '__main__':
    here = os.path.dirname(os.path.abspath(__file__))
    repo = os.environ.get('VERIF_REPO', '/repo')
    lean = os.environ.get('VERIF_LEAN') or os.path.join(here, '..', 'lean')
    print(json.dumps(regenerate(repo, lean), indent=1))
