"""C10: generate lean/PonyVerif/Gen/FlushQueryCache.lean from the CURRENT source of pony/orm/core.py.

The query-result cache of a session (`cache.query_results`) is emptied inside SessionCache.flush.  Where that happens relative to
the before_* hooks (which may run queries - flushing is disabled inside them, so they see the database as it was - and thereby
fill the cache) and to the statements that write the pending rows decides whether a read after the flush can be answered from a
stale entry.  This generator re-derives, from the abstract syntax tree on every run, the order of these events in one round of the
flush loop (`for i in range(50):` of SessionCache.flush), in source order, descending into with / for / if blocks:
  hooks              a call of obj._before_save_()
  clearQueryResults  cache.query_results.clear()
  write              a call of remove_m2m / _save_ / add_m2m
  afterHooks         cache.call_after_save_hooks()
  queryPath          Database._exec_sql: calls of prepare_connection_for_query_execution / provider.execute in source order
  prepareFlushTests  tests of the `if ..: cache.flush()` statements of prepare_connection_for_query_execution
`Props/C10.lean` (part 5, C10_bridge_query_flushes_first) states that every ORM statement is prepared before it is executed and that the
preparation flushes exactly when `not cache.noflush_counter and cache.modified` - what `runQuery` of the session model assumes.
  cacheVerify        body of the final `for attr, val in avdict.items():` loop of EntityMeta._find_in_cache_ (the object the cache found
                     is checked against EVERY criterion of the lookup, None included) - Props/C10.lean C10_bridge_cache_lookup_verifies_all_criteria
`Props/C10.lean` (part 4) proves over `flushEvents` that no entry computed before a write survives the flush; a change of the
order in the source changes the generated list and breaks those theorems on the next run (fail closed: if the loop or the clear
is not found the list lacks the event and the theorems fail as well).
`regenerate(repo, lean_dir)` has the shape of py2lean.regenerate.
"""
import ast, json, os

WRITES = ('remove_m2m', '_save_', 'add_m2m')


def events_of(stmts, out):
    for st in stmts:
        if isinstance(st, (ast.With, ast.For, ast.While)):
            events_of(st.body, out)
            if getattr(st, 'orelse', None): events_of(st.orelse, out)
        elif isinstance(st, ast.If):
            # the calls of the test come first, then both branches in source order
            call_events(st.test, out); events_of(st.body, out); events_of(st.orelse, out)
        elif isinstance(st, ast.Try):
            events_of(st.body, out)
            for h in st.handlers: events_of(h.body, out)
            events_of(st.orelse, out); events_of(st.finalbody, out)
        else:
            call_events(st, out)


def call_events(node, out):
    calls = [c for c in ast.walk(node) if isinstance(c, ast.Call) and isinstance(c.func, ast.Attribute)]
    calls.sort(key=lambda c: (c.lineno, c.col_offset))
    for c in calls:
        f = c.func
        if f.attr == '_before_save_': out.append('hooks')
        elif f.attr == 'clear' and isinstance(f.value, ast.Attribute) and f.value.attr == 'query_results': out.append('clearQueryResults')
        elif f.attr in WRITES: out.append('write')
        elif f.attr == 'call_after_save_hooks': out.append('afterHooks')


def analyse(repo):
    tree = ast.parse(open(os.path.join(repo, 'pony', 'orm', 'core.py')).read())
    flush = None
    for node in tree.body:
        if isinstance(node, ast.ClassDef) and node.name == 'SessionCache':
            for f in node.body:
                if isinstance(f, ast.FunctionDef) and f.name == 'flush': flush = f
    if flush is None: raise LookupError('SessionCache.flush not found')
    loops = [n for n in ast.walk(flush) if isinstance(n, ast.For) and isinstance(n.iter, ast.Call) and getattr(n.iter.func, 'id', None) == 'range']
    if len(loops) != 1: raise LookupError('the round loop of SessionCache.flush not found (%d candidates)' % len(loops))
    out = []
    events_of(loops[0].body, out)
    # anything of these kinds outside the loop would escape the model: list it as well (before / after), the theorems expect none
    inside = {id(n) for n in ast.walk(loops[0])}
    outside = []
    for st in flush.body:
        for n in ast.walk(st):
            if id(n) in inside or not isinstance(n, ast.Expr): continue
            tmp = []; call_events(n, tmp); outside += tmp
    # ---- the path of every ORM query: Database._exec_sql = prepare_connection_for_query_execution (which flushes a modified session),
    #      then provider.execute
    ex = None; pc = None
    for node in tree.body:
        if isinstance(node, ast.ClassDef) and node.name == 'Database':
            for f in node.body:
                if isinstance(f, ast.FunctionDef) and f.name == '_exec_sql': ex = f
        if isinstance(node, ast.ClassDef) and node.name == 'SessionCache':
            for f in node.body:
                if isinstance(f, ast.FunctionDef) and f.name == 'prepare_connection_for_query_execution': pc = f
    if ex is None or pc is None: raise LookupError('Database._exec_sql / SessionCache.prepare_connection_for_query_execution not found')
    calls = [c for c in ast.walk(ex) if isinstance(c, ast.Call) and isinstance(c.func, ast.Attribute)]
    calls.sort(key=lambda c: (c.lineno, c.col_offset))
    path = ['prepare' if c.func.attr == 'prepare_connection_for_query_execution' else 'execute'
            for c in calls if c.func.attr == 'prepare_connection_for_query_execution' or (c.func.attr == 'execute' and ast.unparse(c.func.value) == 'provider')]
    # the top-level statements of prepare_connection_for_query_execution that call cache.flush(): test and position relative to `return`
    flush_tests = []
    returned = False
    for st in pc.body:
        if isinstance(st, ast.Return): returned = True
        if isinstance(st, ast.If) and not returned and [ast.unparse(x) for x in st.body] == ['cache.flush()'] and not st.orelse:
            flush_tests.append(ast.unparse(st.test))
    # ---- EntityMeta._find_in_cache_: the final verification of the object the cache found against ALL criteria of the lookup:
    #      the statements of the last `for attr, val in avdict.items():` loop inside `if obj is not None:`
    fic = None
    for node in tree.body:
        if isinstance(node, ast.ClassDef) and node.name == 'EntityMeta':
            for f in node.body:
                if isinstance(f, ast.FunctionDef) and f.name == '_find_in_cache_': fic = f
    if fic is None: raise LookupError('EntityMeta._find_in_cache_ not found')
    verify = []
    for n in ast.walk(fic):
        if isinstance(n, ast.If) and ast.unparse(n.test) == 'obj is not None':
            loops2 = [st for st in n.body if isinstance(st, ast.For) and ast.unparse(st.iter) == 'avdict.items()']
            if loops2: verify = [ast.unparse(st).replace('\n', ' ; ') for st in loops2[-1].body]
    return {'flushEvents': out, 'outsideLoop': outside, 'queryPath': path, 'prepareFlushTests': flush_tests, 'cacheVerify': verify}


def render(f):
    def lst(xs): return '[' + ', '.join('.' + x for x in xs) + ']'
    return ('/- GENERATED by harness/gen_c10.py from the abstract syntax tree of /repo/pony/orm/core.py -- do not edit.\n'
            '   Order of the events of one round of SessionCache.flush that matter for the query-result cache (see the generator\'s docstring). -/\n'
            'namespace PonyVerif.Gen.FlushQueryCache\n'
            'inductive FlushEv where\n  | hooks | clearQueryResults | write | afterHooks\nderiving DecidableEq, Repr\n'
            'def flushEvents : List FlushEv := %s\n'
            'def outsideLoop : List FlushEv := %s\n'
            '/-- Database._exec_sql: the calls of prepare_connection_for_query_execution / provider.execute in source order -/\n'
            'inductive QueryEv where\n  | prepare | execute\nderiving DecidableEq, Repr\n'
            'def queryPath : List QueryEv := %s\n'
            '/-- tests of the top-level `if ..: cache.flush()` statements of prepare_connection_for_query_execution (before its return) -/\n'
            'def prepareFlushTests : List String := [%s]\n'
            '/-- EntityMeta._find_in_cache_: body of the loop that checks the object found in the cache against every criterion of the lookup -/\n'
            'def cacheVerify : List String := [%s]\n'
            'end PonyVerif.Gen.FlushQueryCache\n') % (lst(f['flushEvents']), lst(f['outsideLoop']), lst(f['queryPath']),
                                                     ', '.join(json.dumps(t) for t in f['prepareFlushTests']),
                                                     ', '.join(json.dumps(t) for t in f['cacheVerify']))


def regenerate(repo, lean_dir):
    path = os.path.join(lean_dir, 'PonyVerif', 'Gen', 'FlushQueryCache.lean')
    try:
        f = analyse(repo)
        text = render(f)
    except Exception as e:
        return {'FlushQueryCache': {'ok': False, 'error': '%s: %s' % (type(e).__name__, e), 'info': {}, 'changed': False}}
    old = open(path).read() if os.path.exists(path) else None
    if old != text:
        os.makedirs(os.path.dirname(path), exist_ok=True)
        with open(path, 'w') as fh: fh.write(text)
    return {'FlushQueryCache': {'ok': True, 'error': None, 'info': f, 'changed': old != text}}


if __name__ == '__main__':
    here = os.path.dirname(os.path.abspath(__file__))
    repo = os.environ.get('VERIF_REPO', '/repo')
    lean = os.environ.get('VERIF_LEAN') or os.path.join(here, '..', 'lean')
    print(json.dumps(regenerate(repo, lean), indent=1))
