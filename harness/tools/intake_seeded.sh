#!/bin/sh
# intake_seeded.sh <id like c17-2> <PROP like C17> "<needs>" [extra check ids...] — store a mutant from /tmp/mut-<id>, try it, drop the worktree
set -e
ID="$1"; PROP="$2"; NEEDS="$3"; shift 3
W=/tmp/mut-$ID
DEMO=$(cd $W && ls demo_*.py | head -1)
/verif/harness/tools/keep_seeded.sh $W $ID $PROP $DEMO "$NEEDS"
if [ -n "$*" ]; then python3 - "$ID" "$PROP" "$@" <<'PY'
import json,sys
i,p,*extra=sys.argv[1:]
f='/verif/seeded/%s/meta.json'%i; m=json.load(open(f)); m['checks']=[p]+extra; json.dump(m,open(f,'w'),indent=1)
PY
fi
git -C /repo worktree remove --force $W; rm -f /tmp/mut-$ID.diff
/verif/harness/tools/try_seeded.sh $ID
