#!/bin/sh
# keep_seeded.sh <worktree> <seeded-id> <property> <demo-file-name> "<needs>"  — confirm a seeded change and store it under /verif/seeded/<id>/
set -e
W="$1"; ID="$2"; PROP="$3"; DEMO="$4"; NEEDS="$5"
D=/verif/seeded/$ID; mkdir -p $D
cd $W
git diff -- . ':(exclude)demo_*' > $D/patch.diff
cp $W/$DEMO $D/$DEMO
echo "--- demo WITH change"; (/venv/bin/python $DEMO > $D/.with.txt 2>&1; echo "exit=$?" >> $D/.with.txt) || true; tail -3 $D/.with.txt
git diff > $D/.all.diff; git checkout -q -- pony
echo "--- demo WITHOUT change"; (/venv/bin/python $DEMO > $D/.without.txt 2>&1; echo "exit=$?" >> $D/.without.txt) || true; tail -2 $D/.without.txt
git apply $D/.all.diff; rm -f $D/.all.diff
echo "--- suite WITH change"; /venv/bin/python -m pytest -q -p no:cacheprovider --timeout=900 --continue-on-collection-errors 2>&1 | tail -1 | tee $D/.suite.txt
python3 - "$D" "$ID" "$PROP" "$DEMO" "$NEEDS" <<'PY'
import json, sys, os
D, ID, PROP, DEMO, NEEDS = sys.argv[1:6]
w = open(D + '/.with.txt').read(); wo = open(D + '/.without.txt').read(); suite = open(D + '/.suite.txt').read().strip()
meta = {'id': ID, 'property': PROP, 'breaks': PROP, 'needs_to_manifest': NEEDS, 'demo': DEMO,
        'confirmed': {'demo_with_change': w[-600:], 'demo_without_change': wo[-200:], 'suite_with_change': suite,
                      'commands': ['git -C /repo worktree add --detach <wt> HEAD; git -C <wt> apply patch.diff', '/venv/bin/python %s  (with and without the change)' % DEMO,
                                   '/venv/bin/python -m pytest -q -p no:cacheprovider --timeout=900 --continue-on-collection-errors']},
        'base_commit': os.popen('git -C /repo rev-parse --short HEAD').read().strip()}
json.dump(meta, open(D + '/meta.json', 'w'), indent=1)
for f in ('.with.txt', '.without.txt', '.suite.txt'): os.remove(D + '/' + f)
print('stored', D)
PY
