#!/bin/sh
# try_seeded.sh <seeded-id> [check args...]  — run the check(s) for a seeded change WITHOUT touching /repo:
# scratch worktree of /repo HEAD + patch, private copy of the lean project, evidence/replays redirected.
# (The registered way — git -C /repo apply; ./check; git -C /repo checkout -- . — is equivalent; this one is safe while others use /repo.)
set -e
ID="$1"; shift
S=/verif/seeded/$ID
PROPS=$(python3 -c "import json;m=json.load(open('$S/meta.json'));print(' '.join(m.get('checks') or [m['property']]))")
W=/tmp/pv-seed-$ID-$$
git -C /repo worktree remove --force $W 2>/dev/null || true
rm -rf $W $W-lean $W-out
git -C /repo worktree add -q --detach $W HEAD
git -C $W apply $S/patch.diff
rsync -a --exclude "driver.[0-9]*" /verif/lean/ $W-lean/ || rsync -a --exclude "driver.[0-9]*" /verif/lean/ $W-lean/
mkdir -p $W-out
rc=0
for P in $PROPS; do
  echo "== seeded $ID against $P"
  VERIF_REPO=$W VERIF_LEAN=$W-lean VERIF_OUT=$W-out /verif/check $P "$@" > $W-out/$P.log 2>&1 || true
  grep -E "^(VIOLATION|KNOWN-FINDING|OK|FAIL|INFRA)" $W-out/$P.log | cut -c1-300 || true
  python3 - "$S" "$P" "$W-out" <<'PY'
import json, sys, glob, os, time
S, P, OUT = sys.argv[1:4]
log = open(os.path.join(OUT, P + '.log')).read()
viol = [l for l in log.splitlines() if l.startswith('VIOLATION')]
if not viol: outcome = 'MISSED (check printed no VIOLATION)' if '\nOK ' in '\n' + log else 'INFRASTRUCTURE'
elif all('no-failing-input-found' in l for l in viol): outcome = 'VIOLATION no-failing-input-found'
else: outcome = 'VIOLATION with concrete failing input'
ex = None
for f in sorted(glob.glob(os.path.join(OUT, 'replays', P + '-*.json'))):
    d = json.load(open(f))
    if d.get('kind') == 'failing-input': ex = {'what': str(d.get('what'))[:300], 'input': str(d.get('input'))[:400]}; break
tp = os.path.join(S, 'trial.json')
t = json.load(open(tp)) if os.path.exists(tp) else {}
t[P] = {'outcome': outcome, 'violation_lines': len(viol), 'example': ex, 'at': time.strftime('%Y-%m-%dT%H:%MZ', time.gmtime()),
        'base_commit': os.popen('git -C /repo rev-parse --short HEAD').read().strip()}
json.dump(t, open(tp, 'w'), indent=1)
PY
  for f in $W-out/replays/$P-*.json; do [ -f "$f" ] && python3 -c "
import json,sys; d=json.load(open('$f')); print('   replay:', d.get('kind'), '|', str(d.get('what'))[:160], '| input:', str(d.get('input'))[:200], '| broken:', [b[:120] for b in d.get('broken_obligations', [])][:2])"; done
done
git -C /repo worktree remove --force $W
rm -rf $W $W-lean $W-out
