"""print the prompt for an independent 'break this property' sub-agent (gets only the property text + a scratch worktree)"""
import json, sys
pid, n = sys.argv[1], sys.argv[2]
p = [json.loads(l) for l in open('/tmp/mutkit/properties.jsonl') if json.loads(l)['id'] == pid][0]
wt = '/tmp/mut-%s-%s' % (pid.lower(), n)
avoid = [l.split(": ",1)[1].strip() for l in open("/tmp/mutkit/avoid.txt") if l.startswith(pid+":")]
avoid_txt = ("\n\nEarlier seeded changes already used these sites — do NOT touch them, pick a different part of the code involved in the property: " + "; ".join(avoid) + ".") if avoid else ""
print(f"""You are testing a verification effort by seeding a realistic defect. You work ONLY in your own scratch git worktree of the Python project ponyorm/pony (Pony ORM), which you must create first:

    git -C /repo worktree add --detach {wt} HEAD

Work only inside {wt} (never edit /repo itself, never look at or touch /verif). Python to use: /venv/bin/python (run things from inside the worktree so that `import pony` resolves to the worktree: `cd {wt} && /venv/bin/python -c "import pony; print(pony.__file__)"` must print a path under {wt}). The test-suite command is: `cd {wt} && /venv/bin/python -m pytest -q -p no:cacheprovider --timeout=900 --continue-on-collection-errors` (about 10 s; on the unmodified tree exactly 1 test fails and 1 errors in test_decompiler.py — test_ast_multiline, test_method — those are the known baseline failures; 3875 pass). Only SQLite is available as a backend; there is no network.

The semantic property of Pony that your change must BREAK:

  {p['id']} — {p['title']}
  Statement: {p['statement']}
  Quantified over: {p['quantifier']['text']}
  Code areas involved: {', '.join(p['anchors']['files'])}

Task: make ONE small, realistic change to the Pony source in your worktree (the kind of slip a maintainer could make in a refactoring or optimisation: a wrong comparison, a missing undo/cleanup step, a swapped order, an off-by-one, a stale cache key, a forgotten case) such that
  1. the project still imports and the existing test-suite gives exactly the same results as before (3875 passed; same 2 baseline failures),
  2. the property above no longer holds,
  3. the breakage needs something SPECIFIC to manifest — a particular multi-step sequence of operations, an unusual input or boundary value, a particular interleaving or fault point, or two code sites that each look fine alone — NOT something ordinary use would expose at once.
Write a demonstration script `{wt}/demo_{pid.lower()}_{n}.py` (a small standalone program using only pony + stdlib + sqlite) that exits 0 and prints PASS on the unmodified tree and exits 1 and prints FAIL (with what it observed vs expected) with your change applied. Verify both directions yourself with `git diff > /tmp/<your-worktree-name>.diff; git checkout -- pony; <run demo>; git apply /tmp/<your-worktree-name>.diff` (do NOT use `git stash`: the stash is shared by all worktrees of /repo and other people work in parallel). Run the full test-suite with your change and confirm the counts.

Leave your change applied (uncommitted) in the worktree at the end. Final report: the path of the worktree, `git diff` output, the demo script path, what the change breaks and exactly what is needed for it to manifest, the demo's output with and without the change, and the test-suite summary line with the change. Try to think of a change that a reviewer skimming the diff would plausibly accept. If your first idea is caught by the existing tests, try another.{avoid_txt}""")
