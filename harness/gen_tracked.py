"""C28: generate lean/PonyVerif/Gen/TrackedTable.lean from the REAL classes TrackedList / TrackedDict / TrackedArray.

`regenerate(repo, lean_dir)` has the shape of `py2lean.regenerate` (module -> {'ok','error','info','changed'}); it is picked up
by framework.regenerate_all (every harness/gen_<name>.py) before the Lean build.

What is generated (model structure `PonyVerif.Model.Tracked.Cfg`):
  listOv / dictOv / arrOv : the mutating methods of list / dict which, looked up along the MRO of the Tracked class,
                            are found in a non-built-in class (`cls.__dict__`, including inherited overrides)
  tupleMode               : what TrackedValue.make does with a tuple: leave / items (containers among the items wrapped) / list (probed)
  iterUnwrapped           : (method, kind of iterable argument) for which a container element of the iterable is stored
                            as a plain (unwrapped) dict/list (probed on instances bound to a probe object)
  listNotify / ...        : methods whose call on a bound instance reaches obj._attr_changed_ (probed; cross-check only)
The introspection runs in a subprocess with PYTHONPATH=<repo> so that the classes of `repo` are the ones inspected.
"""
import json, os, subprocess, sys

LM = {'__setitem__': 'setitem', '__delitem__': 'delitem', 'append': 'append', 'extend': 'extend', 'insert': 'insert',
      'pop': 'pop', 'remove': 'remove', 'reverse': 'reverse', 'sort': 'sort', 'clear': 'clear', '__iadd__': 'iadd', '__imul__': 'imul'}
DM = {'__setitem__': 'setitem', '__delitem__': 'delitem', 'update': 'update', 'setdefault': 'setdefault', 'pop': 'pop',
      'popitem': 'popitem', 'clear': 'clear', '__ior__': 'ior'}
LM_ORDER = list(LM); DM_ORDER = list(DM)
ITER_PROBES = [('extend', k) for k in ('list', 'tuple', 'gen')] + [('iadd', k) for k in ('list', 'tuple', 'gen')] + \
              [('setslice', k) for k in ('list', 'tuple', 'gen')] + [('update', k) for k in ('dict', 'list', 'tuple', 'gen', 'kw')] + \
              [('ior', k) for k in ('dict', 'list', 'tuple', 'gen')]


def introspect():
    """runs inside the subprocess: returns the raw facts as a dict"""
    from pony.orm import ormtypes
    from pony.orm.ormtypes import TrackedValue, TrackedList, TrackedDict, TrackedArray

    class ProbeObj(object):
        def __init__(self): self.changed = 0
        def _attr_changed_(self, attr): self.changed += 1
    class ProbeAttr(object):
        class py_type(object):
            item_type = int

    def resolved_in(cls, name):
        for c in cls.__mro__:
            if name in c.__dict__: return c
        return None

    def overridden(cls, names):
        out = []
        for n in names:
            c = resolved_in(cls, n)
            if c is not None and c not in (list, dict, object): out.append(n)
        return out

    def other_overrides(cls, base):
        out = []
        for c in cls.__mro__:
            if c in (list, dict, object): continue
            for n in c.__dict__:
                if n in base.__dict__ and n not in LM and n not in DM and n not in ('__doc__', '__module__', '__dict__', '__weakref__'):
                    if (cls.__name__, n) not in out: out.append((cls.__name__, n))
        return sorted(out)

    def deep_wrapped(x):
        if isinstance(x, dict):
            return isinstance(x, TrackedValue) and all(deep_wrapped(v) for v in x.values())
        if isinstance(x, list):
            return isinstance(x, TrackedValue) and all(deep_wrapped(v) for v in x)
        if isinstance(x, tuple):
            return all(deep_wrapped(v) for v in x)
        return True

    res = {'errors': []}
    res['listOv'] = overridden(TrackedList, LM_ORDER)
    res['dictOv'] = overridden(TrackedDict, DM_ORDER)
    res['arrOv'] = overridden(TrackedArray, LM_ORDER)
    res['other'] = other_overrides(TrackedList, list) + other_overrides(TrackedDict, dict) + other_overrides(TrackedArray, list)
    res['mro'] = {c.__name__: [b.__name__ for b in c.__mro__] for c in (TrackedList, TrackedDict, TrackedArray)}

    obj = ProbeObj(); attr = ProbeAttr()
    try:
        made = TrackedValue.make(obj, attr, ({'k': []},))
        if isinstance(made, tuple): res['tupleMode'] = 'items' if deep_wrapped(made) else 'leave'
        elif isinstance(made, TrackedList) and deep_wrapped(made): res['tupleMode'] = 'list'
        else: res['errors'].append('make(tuple) returned %r' % type(made).__name__); res['tupleMode'] = 'leave'
    except Exception as e:
        res['errors'].append('make(tuple): %s: %s' % (type(e).__name__, e)); res['tupleMode'] = 'leave'

    # a wrapper that belongs to ANOTHER object handed to make(): is the result (and everything in it) bound to THIS object?
    def bound_here(x, o):
        if isinstance(x, (dict, list)) and not (isinstance(x, TrackedValue) and x.obj_ref() is o and x.attr is attr): return False
        if isinstance(x, dict): return all(bound_here(v, o) for v in x.values())
        if isinstance(x, (list, tuple)): return all(bound_here(v, o) for v in x)
        return True
    try:
        other = ProbeObj()
        foreign = TrackedDict(other, attr, {'l': [[1]]})
        res['rebinds'] = bool(bound_here(TrackedValue.make(obj, attr, foreign), obj) and bound_here(TrackedValue.make(obj, attr, [foreign['l']]), obj))
    except Exception as e:
        res['errors'].append('make(foreign wrapper): %s: %s' % (type(e).__name__, e)); res['rebinds'] = False
    # obj.attr = <value of another object> on a real entity (JsonConverter.validate)
    try:
        from pony.orm import Database, Required, Json, db_session
        db = Database()
        class ProbeEntity(db.Entity):
            data = Required(Json)
        db.bind('sqlite', ':memory:'); db.generate_mapping(create_tables=True)
        with db_session:
            a_ = ProbeEntity(data={'l': [[1]]}); b_ = ProbeEntity(data={})
            b_.data = a_.data
            v = b_.data; at = ProbeEntity.data
            def bound_to(x):
                if isinstance(x, (dict, list)) and not (isinstance(x, TrackedValue) and x.obj_ref() is b_ and x.attr is at): return False
                if isinstance(x, dict): return all(bound_to(y) for y in x.values())
                if isinstance(x, list): return all(bound_to(y) for y in x)
                return True
            res['assignRebinds'] = bool(bound_to(v))
            b_.data = b_.data['l'] if False else b_.data      # (same object, same attribute: kept as it is)
        # a wrapper of a VOLATILE attribute taken before a save (the value is dropped and read again afterwards): is a change
        # through it refused (and changes nothing), or accepted (the known finding: KeyError at the next save / silently not written)
        db.disconnect()
    except Exception as e:
        res['errors'].append('assignment of a foreign wrapper: %s: %s' % (type(e).__name__, e)); res['assignRebinds'] = False

    try:
        from pony.orm import Database, Required, Json, db_session, flush
        dbv = Database()
        class ProbeVol(dbv.Entity):
            v = Required(Json, volatile=True)
        dbv.bind('sqlite', ':memory:'); dbv.generate_mapping(create_tables=True)
        with db_session:
            pv = ProbeVol(v={'a': [1]})
        outcome = 'accepted'
        try:
            with db_session:
                pv = ProbeVol[pv.id]; x_ = pv.v['a']; x_.append(2); flush()
                try: x_.append(3)
                except Exception: outcome = 'refused' if list(x_) == [1, 2] else 'raised after the change'
                pv.v      # (read again: no pending stale bit must be left behind)
        except Exception:
            pass
        res['volatileStale'] = outcome
        dbv.disconnect()
    except Exception as e:
        res['errors'].append('volatile probe: %s: %s' % (type(e).__name__, e)); res['volatileStale'] = 'accepted'

    def elem(): return {'k': []}
    def iterable(kind, pairs):
        e = ('p', elem()) if pairs else elem()
        if kind == 'list': return [e]
        if kind == 'tuple': return (e,)
        if kind == 'gen': return (x for x in [e])
        if kind == 'dict': return {'p': elem()}
        raise ValueError(kind)
    unwrapped = []
    for m, kind in ITER_PROBES:
        try:
            if m in ('extend', 'iadd', 'setslice'):
                t = TrackedList(obj, attr, [0])
                it = iterable(kind, False)
                if m == 'extend': t.extend(it)
                elif m == 'iadd': t += it
                else: t[0:1] = it
                stored = t[-1]
            else:
                t = TrackedDict(obj, attr, {})
                if kind == 'kw': t.update(p=elem())
                elif m == 'update': t.update(iterable(kind, True))
                else: t |= iterable(kind, True)
                stored = t['p']
            if not (isinstance(stored, dict) and deep_wrapped(stored)): unwrapped.append([m, kind])
        except Exception as e:
            res['errors'].append('probe %s/%s: %s: %s' % (m, kind, type(e).__name__, e))
    res['iterUnwrapped'] = unwrapped

    def notifies_on_error(cls, sample, name, args, exc):
        o = ProbeObj(); t = cls(o, attr, sample)
        try: getattr(t, name)(*args)
        except exc: return o.changed > 0
        res['errors'].append('%s.%s%r did not raise %s' % (cls.__name__, name, args, exc.__name__)); return False
    ne = [notifies_on_error(TrackedList, [], 'pop', (), IndexError), notifies_on_error(TrackedDict, {}, 'pop', ('zz',), KeyError),
          notifies_on_error(TrackedArray, [], 'pop', (), IndexError)]
    if len(set(ne)) != 1: res['errors'].append('notification after an exception differs between the classes: %r' % ne)
    res['notifyOnError'] = all(ne)

    # an owner that refuses the change (session over / deleted object: `_check_attr_change_` raises): is it asked BEFORE the
    # built-in method runs, i.e. does a refused call leave the value as it was?
    class Refusing(ProbeObj):
        def _check_attr_change_(self, attr): raise RuntimeError('refused')
        def _attr_changed_(self, attr): raise RuntimeError('refused')
    def refuses_first(cls, sample, name, args):
        owner = Refusing(); t = cls(owner, attr, sample); before = list(t.items()) if isinstance(t, dict) else list(t)
        try: getattr(t, name)(*args)
        except RuntimeError: pass
        else: res['errors'].append('%s.%s on a refusing owner did not raise' % (cls.__name__, name))
        return (list(t.items()) if isinstance(t, dict) else list(t)) == before
    rf = [refuses_first(TrackedList, [1], 'append', (2,)), refuses_first(TrackedList, [2, 1], 'sort', ()), refuses_first(TrackedDict, {'a': 1}, '__setitem__', ('b', 2)),
          refuses_first(TrackedDict, {'a': 1}, 'update', ({'b': 2},)), refuses_first(TrackedArray, [1], 'append', (2,)), refuses_first(TrackedArray, [1], '__iadd__', ([2],))]
    if len(set(rf)) != 1: res['errors'].append('refusal before / after the change differs between the methods: %r' % rf)
    res['refusesFirst'] = all(rf)

    def notifies(cls, sample, name, args):
        o = ProbeObj()
        t = cls(o, attr, sample)
        try: getattr(t, name)(*args)
        except Exception as e:
            res['errors'].append('notify %s.%s: %s: %s' % (cls.__name__, name, type(e).__name__, e))
        return o.changed > 0
    largs = {'__setitem__': (0, 5), '__delitem__': (0,), 'append': (5,), 'extend': ([5],), 'insert': (0, 5), 'pop': (), 'remove': (2,),
             'reverse': (), 'sort': (), 'clear': (), '__iadd__': ([5],), '__imul__': (2,)}
    dargs = {'__setitem__': ('a', 5), '__delitem__': ('a',), 'update': ({'z': 1},), 'setdefault': ('z', 1), 'pop': ('a',), 'popitem': (),
             'clear': (), '__ior__': ({'z': 1},)}
    res['listNotify'] = [n for n in LM_ORDER if notifies(TrackedList, [3, 2, 1], n, largs[n])]
    res['arrNotify'] = [n for n in LM_ORDER if notifies(TrackedArray, [3, 2, 1], n, largs[n])]
    res['dictNotify'] = [n for n in DM_ORDER if notifies(TrackedDict, {'a': 1, 'b': 2}, n, dargs[n])]
    return res


def facts(repo):
    env = dict(os.environ)
    env['PYTHONPATH'] = repo + (os.pathsep + env['PYTHONPATH'] if env.get('PYTHONPATH') else '')
    p = subprocess.run([sys.executable, os.path.abspath(__file__), '--introspect'], env=env, stdout=subprocess.PIPE, stderr=subprocess.PIPE,
                       text=True, timeout=120, cwd=repo)
    if p.returncode != 0:
        raise RuntimeError('introspection of the Tracked classes failed: ' + p.stderr[-400:])
    return json.loads(p.stdout)


def render(f):
    def lst(names, table): return '[' + ', '.join('.' + table[n] for n in names) + ']'
    lines = ['/- GENERATED by harness/gen_tracked.py by introspecting pony.orm.ormtypes.TrackedList / TrackedDict / TrackedArray -- do not edit. -/',
             'import PonyVerif.Model.Tracked',
             'namespace PonyVerif.Gen.TrackedTable',
             'open PonyVerif.Model.Tracked',
             '',
             '/-- mutating methods found, along the MRO, in a non-built-in class; what `make` and the methods do with iterables (probed) -/',
             'def table : Cfg := {',
             '  listOv := %s,' % lst(f['listOv'], LM),
             '  dictOv := %s,' % lst(f['dictOv'], DM),
             '  arrOv := %s,' % lst(f['arrOv'], LM),
             '  tupleMode := .%s,' % f['tupleMode'],
             '  rebinds := %s,' % ('true' if f['rebinds'] else 'false'),
             '  assignRebinds := %s,' % ('true' if f['assignRebinds'] else 'false'),
             '  iterUnwrapped := [%s],' % ', '.join('(.%s, .%s)' % (m, k) for m, k in f['iterUnwrapped']),
             '  notifyOnError := %s,' % ('true' if f['notifyOnError'] else 'false'),
             '  refusesFirst := %s }' % ('true' if f['refusesFirst'] else 'false'),
             '',
             '/-- methods whose call on a bound instance reached `obj._attr_changed_` (probed; cross-check of `table`) -/',
             'def listNotify : List LM := %s' % lst(f['listNotify'], LM),
             'def dictNotify : List DM := %s' % lst(f['dictNotify'], DM),
             'def arrNotify : List LM := %s' % lst(f['arrNotify'], LM),
             '',
             '/-- other names of list / dict redefined in the Tracked classes (not mutators) -/',
             'def otherOverrides : List (String × String) := [%s]' % ', '.join('("%s", "%s")' % (c, n) for c, n in f['other']),
             '',
             'end PonyVerif.Gen.TrackedTable', '']
    return '\n'.join(lines)


def regenerate(repo, lean_dir):
    path = os.path.join(lean_dir, 'PonyVerif', 'Gen', 'TrackedTable.lean')
    try:
        f = facts(repo)
        text = render(f)
    except Exception as e:
        return {'TrackedTable': {'ok': False, 'error': '%s: %s' % (type(e).__name__, e), 'info': {}, 'changed': False}}
    old = open(path).read() if os.path.exists(path) else None
    if old != text:
        os.makedirs(os.path.dirname(path), exist_ok=True)
        with open(path, 'w') as fh: fh.write(text)
    err = '; '.join(f['errors']) if f['errors'] else None
    return {'TrackedTable': {'ok': err is None, 'error': err, 'info': {k: f[k] for k in f if k != 'errors'}, 'changed': old != text}}


extra_regenerate = regenerate

if __name__ == '__main__':
    if '--introspect' in sys.argv:
        print(json.dumps(introspect()))
    else:
        here = os.path.dirname(os.path.abspath(__file__))
        repo = os.environ.get('VERIF_REPO', '/repo')
        lean = os.environ.get('VERIF_LEAN') or os.path.join(here, '..', 'lean')
        print(json.dumps(regenerate(repo, lean), indent=1))
