"""C29: generate lean/PonyVerif/Gen/JsonLits.lean from the CURRENT source of /repo (read with `ast`, nothing imported):

  sqliteNonzeroLits / mysqlNonzeroLits / oracleNonzeroLits / pgNonzeroLits : the literal list of `JSON_NONZERO` (`… NOT IN (…)`)
  jsonPathRe : the pattern text of `sqlite.json_path_re`
  identRe    : the pattern text of `utils._ident_re`
  traverseCaught / traverseCatchesTypeError : the exception names in `_traverse`'s except clause
  arraySliceClampsNegative : probed on the real `py_array_slice`
  json1NegativeHash : does SQLiteBuilder.eval_json_path (JSON1 available) spell a negative index `[#-N]` (probed)
  sqliteNonzeroShape : 'plain' when JSON_NONZERO is `builder(expr), ' NOT IN (...)'` (no COALESCE) — the shape the model `jsonNonzero` mirrors

Props/C29.lean proves `baseLits ⊆ sqliteNonzeroLits ⊆ baseLits ++ floatZeroLits` and `jsonPathRe = <the regex the scanner was written for>`
against these definitions, so a change of the list / the regex in the source breaks a theorem instead of going unnoticed.
"""
import ast, os, re


def lean_str(s):
    out = ['"']
    for ch in s:
        if ch == '\\': out.append('\\\\')
        elif ch == '"': out.append('\\"')
        elif ch == '\n': out.append('\\n')
        elif ch == '\t': out.append('\\t')
        elif ord(ch) < 32 or ord(ch) == 127: out.append('\\x%02x' % ord(ch))
        else: out.append(ch)
    out.append('"')
    return ''.join(out)


def _func(tree, cls, name):
    for node in ast.walk(tree):
        if isinstance(node, ast.ClassDef) and node.name == cls:
            for f in node.body:
                if isinstance(f, ast.FunctionDef) and f.name == name: return f
    return None


def _strings(node):
    return [n.value for n in ast.walk(node) if isinstance(n, ast.Constant) and isinstance(n.value, str)]


def nonzero_lits(path, cls):
    """(literals, shape) of `cls.JSON_NONZERO` in the file `path`"""
    tree = ast.parse(open(path, encoding='utf-8').read())
    f = _func(tree, cls, 'JSON_NONZERO')
    if f is None: raise ValueError('%s.JSON_NONZERO not found' % cls)
    rets = [n for n in ast.walk(f) if isinstance(n, ast.Return)]
    if len(rets) != 1: raise ValueError('%s.JSON_NONZERO: one return statement expected' % cls)
    # adjacent string constants may be split (implicit concatenation is already folded by the parser; `\` continuation too)
    text = ''.join(_strings(rets[0].value))
    m = re.search(r'NOT IN \((.*)\)\s*$', text, re.S)
    if not m: raise ValueError('%s.JSON_NONZERO: no `NOT IN (...)` literal list' % cls)
    lits = re.findall(r"'((?:[^']|'')*)'(?:::jsonb)?", m.group(1))
    rest = re.sub(r"'((?:[^']|'')*)'(?:::jsonb)?", '', m.group(1)).replace(',', '').strip()
    if rest: raise ValueError('%s.JSON_NONZERO: unparsed text in the literal list: %r' % (cls, rest))
    before = text[:m.start()]
    shape = 'plain' if before.strip() == '' else 'coalesce' if 'coalesce' in before.lower() else 'other'
    v = rets[0].value
    if shape == 'plain':
        ok = isinstance(v, ast.Tuple) and len(v.elts) == 2 and isinstance(v.elts[0], ast.Call) and isinstance(v.elts[1], ast.Constant)
        if not ok: shape = 'other'
    return [l.replace("''", "'") for l in lits], shape


def module_regex(path, name):
    tree = ast.parse(open(path, encoding='utf-8').read())
    for node in tree.body:
        if isinstance(node, ast.Assign) and any(isinstance(t, ast.Name) and t.id == name for t in node.targets):
            c = node.value
            if isinstance(c, ast.Call) and c.args and isinstance(c.args[0], ast.Constant) and isinstance(c.args[0].value, str):
                flags = [ast.unparse(a) for a in c.args[1:]] + ['%s=%s' % (k.arg, ast.unparse(k.value)) for k in c.keywords]
                return c.args[0].value, ','.join(flags)
    raise ValueError('%s = re.compile(<str>) not found in %s' % (name, path))


def traverse_caught(path):
    """exception names of the `except` clause(s) inside `_traverse`"""
    tree = ast.parse(open(path, encoding='utf-8').read())
    for node in tree.body:
        if isinstance(node, ast.FunctionDef) and node.name == '_traverse':
            names = []
            for h in [h for t in ast.walk(node) if isinstance(t, ast.Try) for h in t.handlers]:
                if h.type is None: names.append('BaseException')
                else: names += [n.id for n in ast.walk(h.type) if isinstance(n, ast.Name)]
            return names
    raise ValueError('_traverse not found')


def contains_shape(path):
    """py_json_contains: the document is parsed unconditionally and the single `return` follows the traversal (no early exit on the raw text)"""
    tree = ast.parse(open(path, encoding='utf-8').read())
    for node in tree.body:
        if isinstance(node, ast.FunctionDef) and node.name == 'py_json_contains':
            returns = [n for n in ast.walk(node) if isinstance(n, ast.Return)]
            first = node.body[0]
            parses_first = isinstance(first, ast.Assign) and ast.unparse(first) == 'expr = json.loads(expr) if isinstance(expr, str) else expr'
            return len(returns) == 1 and parses_first and isinstance(node.body[-1], ast.Return)
    raise ValueError('py_json_contains not found')


def probe_array_slice(repo):
    """'unclamped' (array[start:stop] as is), 'clamped' (a negative bound is taken as 0) or 'other' — probed on the real function"""
    import subprocess, sys, json
    code = ("import json\nfrom pony.orm.dbproviders import sqlite as s\n"
            "b = object.__new__(s.SQLiteBuilder); b.json1_available = True\n"
            "print(json.dumps([s.py_array_slice('[1,2,3]', -2, 2), s.py_array_slice('[1,2,3]', 0, -1), s.py_array_slice('[1,2,3]', None, None), b.eval_json_path(['a', -1, 0])]))")
    env = dict(os.environ, PYTHONPATH=repo)
    p = subprocess.run([sys.executable, '-c', code], env=env, stdout=subprocess.PIPE, stderr=subprocess.PIPE, text=True, timeout=120)
    if p.returncode != 0: raise ValueError('probe of py_array_slice failed: ' + p.stderr[-200:])
    got = json.loads(p.stdout.strip().splitlines()[-1])
    j1 = {'$.a[-1][0]': 'plain', '$.a[#-1][0]': 'hash'}.get(got[3], 'other')
    got = got[:3]
    if got == ['[2]', '[1,2]', '[1,2,3]']: return 'unclamped', j1
    if got == ['[1,2]', '[]', '[1,2,3]']: return 'clamped', j1
    return 'other', j1


def regenerate(repo, lean_dir):
    out_path = os.path.join(lean_dir, 'PonyVerif', 'Gen', 'JsonLits.lean')
    info = {}
    try:
        prov = os.path.join(repo, 'pony', 'orm', 'dbproviders')
        sq, sq_shape = nonzero_lits(os.path.join(prov, 'sqlite.py'), 'SQLiteBuilder')
        my, _ = nonzero_lits(os.path.join(prov, 'mysql.py'), 'MySQLBuilder')
        orc, _ = nonzero_lits(os.path.join(prov, 'oracle.py'), 'OraBuilder')
        pg, _ = nonzero_lits(os.path.join(prov, 'postgres.py'), 'PGSQLBuilder')
        path_re, path_flags = module_regex(os.path.join(prov, 'sqlite.py'), 'json_path_re')
        ident_re, _ = module_regex(os.path.join(repo, 'pony', 'utils', 'utils.py'), '_ident_re')
        caught = traverse_caught(os.path.join(prov, 'sqlite.py'))
        contains_ok = contains_shape(os.path.join(prov, 'sqlite.py'))
        slice_kind, j1_neg = probe_array_slice(repo)
        if j1_neg == 'other': raise ValueError('SQLiteBuilder.eval_json_path with JSON1 writes a negative index neither as [-N] nor as [#-N]')
        if slice_kind == 'other': raise ValueError('py_array_slice is neither array[start:stop] nor its clamped variant')
        info = {'py_json_contains_parses_first_single_return': contains_ok, 'traverse_caught': caught, 'array_slice': slice_kind, 'json1_negative_index': j1_neg, 'sqlite': sq, 'mysql': my, 'oracle': orc, 'postgres': pg, 'sqlite_shape': sq_shape, 'json_path_re': path_re,
                'json_path_re_flags': path_flags, 'ident_re': ident_re}
        def lst(l): return '[' + ', '.join(lean_str(x) for x in l) + ']'
        text = '\n'.join([
            '/- GENERATED by harness/gen_c29.py from pony/orm/dbproviders/{sqlite,mysql,oracle,postgres}.py and pony/utils/utils.py -- do not edit. -/',
            'namespace PonyVerif.Gen.JsonLits',
            'def sqliteNonzeroLits : List String := ' + lst(sq),
            'def sqliteNonzeroShape : String := ' + lean_str(sq_shape),
            'def mysqlNonzeroLits : List String := ' + lst(my),
            'def oracleNonzeroLits : List String := ' + lst(orc),
            'def pgNonzeroLits : List String := ' + lst(pg),
            'def jsonPathRe : String := ' + lean_str(path_re),
            'def jsonPathReFlags : String := ' + lean_str(path_flags),
            'def identRe : String := ' + lean_str(ident_re),
            'def traverseCaught : List String := ' + lst(caught),
            'def traverseCatchesTypeError : Bool := ' + ('true' if ('TypeError' in caught or 'Exception' in caught or 'BaseException' in caught) else 'false'),
            'def arraySliceClampsNegative : Bool := ' + ('true' if slice_kind == 'clamped' else 'false'),
            'def json1NegativeHash : Bool := ' + ('true' if j1_neg == 'hash' else 'false'),
            'def pyJsonContainsParsesFirst : Bool := ' + ('true' if contains_ok else 'false'),
            'end PonyVerif.Gen.JsonLits', ''])
        ok, err = True, None
    except Exception as e:
        ok, err = False, '%s: %s' % (type(e).__name__, e)
        text = '\n'.join([
            '/- GENERATED by harness/gen_c29.py: the source could not be read (%s) -/' % err.replace('-/', '- /'),
            'namespace PonyVerif.Gen.JsonLits',
            'end PonyVerif.Gen.JsonLits', ''])
    old = open(out_path, encoding='utf-8').read() if os.path.exists(out_path) else None
    changed = old != text
    if changed:
        os.makedirs(os.path.dirname(out_path), exist_ok=True)
        with open(out_path, 'w', encoding='utf-8') as f: f.write(text)
    return {'JsonLits': {'ok': ok, 'error': err, 'info': info, 'changed': changed}}


if __name__ == '__main__':
    import json, sys
    print(json.dumps(regenerate(sys.argv[1] if len(sys.argv) > 1 else '/repo', os.path.join(os.path.dirname(os.path.dirname(os.path.abspath(__file__))), 'lean')), indent=1))
