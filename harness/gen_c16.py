"""C16: generate lean/PonyVerif/Gen/FlushShape.lean from the CURRENT source of pony/orm/core.py.

The save-order model (Model/SaveOrder.lean) is a hand mirror of SessionCache.flush, Entity._save_,
Entity._save_principal_objects_ and the status changes of _save_created_/_save_updated_/_save_deleted_.  This generator
re-derives, from the abstract syntax tree of the source on every run, the control skeleton those definitions mirror:
  flushPhases            order of the phases inside `with cache.flush_disabled():` of SessionCache.flush
  saveQueueLoop          iterable and guard of the loop that calls obj._save_()
  savePrincipalFor       statuses for which _save_ calls _save_principal_objects_ first
  saveDispatch           status -> method of the if/elif chain of _save_
  savedStatus            method -> the status literal it assigns to obj._status_
  slotTail               the statements of _save_ after `cache.saved_objects.append(...)` (queue bookkeeping)
  principalSteps         the steps of _save_principal_objects_ in source order (fresh list / cycle test / append / attribute
                         selection per status / skip test / recursion test / recursive call)
  dependentObjectsShrinks  does anything remove entries from dependent_objects
`Props/C16.lean: C16_bridge_source_shape` states that these equal the skeleton the model was written against
(`Model.SaveOrder.expectedShape`); a change of the source shape breaks that theorem on the next run.
`regenerate(repo, lean_dir)` has the shape of py2lean.regenerate.
"""
import ast, json, os

NAMES = ('_before_save_', '_calc_modified_m2m', 'remove_m2m', '_save_', 'add_m2m')


def find_method(tree, cls, name):
    for node in tree.body:
        if isinstance(node, ast.ClassDef) and node.name == cls:
            for f in node.body:
                if isinstance(f, ast.FunctionDef) and f.name == name: return f
    raise LookupError('%s.%s not found' % (cls, name))


def calls_in(node):
    return [c.func.attr for c in ast.walk(node) if isinstance(c, ast.Call) and isinstance(c.func, ast.Attribute)]


def analyse(repo):
    src = open(os.path.join(repo, 'pony', 'orm', 'core.py')).read()
    tree = ast.parse(src)
    f = {}
    # ---- SessionCache.flush
    fl = find_method(tree, 'SessionCache', 'flush')
    withs = [n for n in ast.walk(fl) if isinstance(n, ast.With) and 'flush_disabled' in ast.unparse(n.items[0].context_expr)]
    if len(withs) != 1: raise LookupError('flush: expected one `with cache.flush_disabled()` block')
    phases = []; loop = None
    for st in withs[0].body:
        for nm in calls_in(st):
            if nm in NAMES:
                phases.append(nm)
                if nm == '_save_' and isinstance(st, ast.For):
                    guard = st.body[0].test if isinstance(st.body[0], ast.If) else None
                    loop = [ast.unparse(st.iter), ast.unparse(guard) if guard is not None else '']
    f['flushPhases'] = phases
    f['saveQueueLoop'] = loop or []
    # what follows the block inside the round: the queue is emptied
    f['flushEmptiesQueue'] = any(isinstance(n, ast.Assign) and ast.unparse(n) == 'cache.objects_to_save[:] = ()' for n in ast.walk(fl))
    # ---- Entity._save_
    sv = find_method(tree, 'Entity', '_save_')
    principal_for = []; dispatch = []; tail = []; seen_saved = False
    for st in sv.body:
        if seen_saved:
            tail.append(ast.unparse(st).replace('\n', ' ; ')); continue
        if isinstance(st, ast.If):
            node = st
            while True:
                t = node.test; calls = [c for c in calls_in(node.body[0])] if node.body else []
                if isinstance(t, ast.Compare) and isinstance(t.ops[0], ast.In) and '_save_principal_objects_' in calls:
                    principal_for = [e.value for e in t.comparators[0].elts]
                elif isinstance(t, ast.Compare) and isinstance(t.ops[0], ast.Eq) and isinstance(t.comparators[0], ast.Constant) and calls:
                    dispatch.append([t.comparators[0].value, calls[0]])
                if len(node.orelse) == 1 and isinstance(node.orelse[0], ast.If): node = node.orelse[0]
                else: break
        if 'saved_objects.append' in ast.unparse(st): seen_saved = True
    f['savePrincipalFor'] = principal_for
    f['saveDispatch'] = dispatch
    f['slotTail'] = tail
    # ---- status literals assigned by the three writers
    saved = []
    for status, meth in dispatch:
        m = find_method(tree, 'Entity', meth)
        lits = [n.value.value for n in ast.walk(m) if isinstance(n, ast.Assign) and ast.unparse(n.targets[0]) == 'obj._status_'
                and isinstance(n.value, ast.Constant)]
        saved.append([meth, ','.join(lits)])
    f['savedStatus'] = saved
    # ---- Entity._save_principal_objects_
    pr = find_method(tree, 'Entity', '_save_principal_objects_')
    steps = []
    for st in pr.body:
        if isinstance(st, ast.If) and 'dependent_objects is None' in ast.unparse(st.test):
            steps.append('fresh-if:' + ast.unparse(st.test) + ' => ' + ast.unparse(st.body[0]))
            for e in st.orelse:
                if isinstance(e, ast.If):
                    raises = [ast.unparse(c.args[0]) for c in ast.walk(e) if isinstance(c, ast.Call) and getattr(c.func, 'id', '') == 'throw']
                    steps.append('cycle-if:' + ast.unparse(e.test) + ' => throw ' + ','.join(raises))
                    if e.orelse: steps.append('cycle-else:' + ast.unparse(e.orelse[0]))
        elif isinstance(st, ast.If) and 'status' in ast.unparse(st.test):
            node = st
            while True:
                steps.append('attrs-if:' + ast.unparse(node.test) + ' => ' + ' ; '.join(ast.unparse(b) for b in node.body))
                if len(node.orelse) == 1 and isinstance(node.orelse[0], ast.If): node = node.orelse[0]
                else:
                    steps.append('attrs-else:' + ' ; '.join(ast.unparse(b) for b in node.orelse)); break
        elif isinstance(st, ast.For):
            steps.append('for:' + ast.unparse(st.target) + ' in ' + ast.unparse(st.iter))
            for b in st.body:
                if isinstance(b, ast.If): steps.append('  if:' + ast.unparse(b.test) + ' => ' + ' ; '.join(ast.unparse(x) for x in b.body))
                else: steps.append('  ' + ast.unparse(b))
        else:
            steps.append(ast.unparse(st))
    f['principalSteps'] = steps
    f['dependentObjectsShrinks'] = any(isinstance(c, ast.Call) and isinstance(c.func, ast.Attribute) and c.func.attr in ('pop', 'remove', 'clear')
                                       and ast.unparse(c.func.value) == 'dependent_objects' for c in ast.walk(pr)) or \
                                   any(isinstance(n, ast.Delete) and 'dependent_objects' in ast.unparse(n) for n in ast.walk(pr))
    # ---- the transaction around the statements
    body = fl.body
    idx_try = next(i for i, st in enumerate(body) if isinstance(st, ast.Try))
    f['flushBeforeTry'] = [ast.unparse(st).replace('\n', ' ; ') for st in body[:idx_try] if not (isinstance(st, ast.Assert))]
    f['flushFinally'] = [ast.unparse(st).replace('\n', ' ; ') for st in body[idx_try].finalbody]
    start = []
    for cls, meth in (('Entity', '_save_created_'), ('Entity', '_save_updated_'), ('Entity', '_save_deleted_'), ('Set', 'remove_m2m'), ('Set', 'add_m2m')):
        m = find_method(tree, cls, meth)
        vals = set()
        for c in ast.walk(m):
            if isinstance(c, ast.Call) and isinstance(c.func, ast.Attribute) and c.func.attr == '_exec_sql':
                kw = [k for k in c.keywords if k.arg == 'start_transaction']
                vals.add(ast.unparse(kw[0].value) if kw else 'absent')
        start.append([meth, ','.join(sorted(vals))])
    f['startTransactionArgs'] = start
    ex = find_method(tree, 'Database', '_exec_sql')
    f['execSqlFlagLines'] = [ast.unparse(st).replace('\n', ' ; ') for st in ex.body
                             if isinstance(st, ast.If) and 'immediate' in ast.unparse(st)]
    f['execSqlOrder'] = [('flag' if isinstance(st, ast.If) and 'start_transaction' in ast.unparse(st.test) else
                          'prepare' if 'prepare_connection_for_query_execution' in ast.unparse(st) else
                          'execute' if 'provider.execute' in ast.unparse(st) else
                          'in_transaction' if isinstance(st, ast.If) and 'cache.in_transaction = True' in ast.unparse(st) else '')
                         for st in ex.body]
    f['execSqlOrder'] = [x for x in f['execSqlOrder'] if x]
    pc = find_method(tree, 'SessionCache', 'prepare_connection_for_query_execution')
    f['prepareBeginTests'] = [ast.unparse(n.test) for n in ast.walk(pc) if isinstance(n, ast.If) and 'set_transaction_mode' in ast.unparse(n.body)
                              and 'flush_and_commit' not in ast.unparse(n)]
    fc = find_method(tree, 'SessionCache', 'flush_and_commit')
    f['flushAndCommit'] = [ast.unparse(st).replace('\n', ' ; ') for st in fc.body]
    cm = find_method(tree, 'SessionCache', 'commit')
    f['commitSteps'] = [ast.unparse(n).replace('\n', ' ; ') for n in ast.walk(cm)
                        if (isinstance(n, ast.If) and 'in_transaction' in ast.unparse(n.test)) or
                           (isinstance(n, ast.Assign) and ast.unparse(n) == 'cache.immediate = True')]
    ssrc = open(os.path.join(repo, 'pony', 'orm', 'dbproviders', 'sqlite.py')).read()
    stree = ast.parse(ssrc)
    stm = find_method(stree, 'SQLiteProvider', 'set_transaction_mode')
    begin = []
    for n in ast.walk(stm):
        if isinstance(n, ast.If) and ast.unparse(n.test) == 'cache.immediate' and 'BEGIN' in ast.unparse(n):
            begin = [ast.unparse(n.test)] + [ast.unparse(x) for x in n.body if isinstance(x, ast.Assign)]
    f['sqliteBegin'] = begin
    return f


def lstr(s):
    return '"' + s.replace('\\', '\\\\').replace('"', '\\"') + '"'


def llist(xs):
    return '[' + ', '.join(lstr(x) for x in xs) + ']'


def lpairs(xs):
    return '[' + ', '.join('(%s, %s)' % (lstr(a), lstr(b)) for a, b in xs) + ']'


def render(f):
    L = ['/- GENERATED by harness/gen_c16.py from the abstract syntax tree of /repo/pony/orm/core.py -- do not edit.',
         '   Control skeleton of SessionCache.flush, Entity._save_, Entity._save_principal_objects_ (see the generator\'s docstring). -/',
         'namespace PonyVerif.Gen.FlushShape',
         'def flushPhases : List String := ' + llist(f['flushPhases']),
         'def saveQueueLoop : List String := ' + llist(f['saveQueueLoop']),
         'def flushEmptiesQueue : Bool := ' + ('true' if f['flushEmptiesQueue'] else 'false'),
         'def savePrincipalFor : List String := ' + llist(f['savePrincipalFor']),
         'def saveDispatch : List (String × String) := ' + lpairs(f['saveDispatch']),
         'def savedStatus : List (String × String) := ' + lpairs(f['savedStatus']),
         'def slotTail : List String := ' + llist(f['slotTail']),
         'def principalSteps : List String := ' + llist(f['principalSteps']),
         'def dependentObjectsShrinks : Bool := ' + ('true' if f['dependentObjectsShrinks'] else 'false'),
         'def flushBeforeTry : List String := ' + llist(f['flushBeforeTry']),
         'def flushFinally : List String := ' + llist(f['flushFinally']),
         'def startTransactionArgs : List (String × String) := ' + lpairs(f['startTransactionArgs']),
         'def execSqlFlagLines : List String := ' + llist(f['execSqlFlagLines']),
         'def execSqlOrder : List String := ' + llist(f['execSqlOrder']),
         'def prepareBeginTests : List String := ' + llist(f['prepareBeginTests']),
         'def flushAndCommit : List String := ' + llist(f['flushAndCommit']),
         'def commitSteps : List String := ' + llist(f['commitSteps']),
         'def sqliteBegin : List String := ' + llist(f['sqliteBegin']),
         'end PonyVerif.Gen.FlushShape', '']
    return '\n'.join(L)


def regenerate(repo, lean_dir):
    path = os.path.join(lean_dir, 'PonyVerif', 'Gen', 'FlushShape.lean')
    try:
        f = analyse(repo)
        text = render(f)
    except Exception as e:
        return {'FlushShape': {'ok': False, 'error': '%s: %s' % (type(e).__name__, e), 'info': {}, 'changed': False}}
    old = open(path).read() if os.path.exists(path) else None
    if old != text:
        os.makedirs(os.path.dirname(path), exist_ok=True)
        with open(path, 'w') as fh: fh.write(text)
    return {'FlushShape': {'ok': True, 'error': None, 'info': f, 'changed': old != text}}


if __name__ == '__main__':
    here = os.path.dirname(os.path.abspath(__file__))
    repo = os.environ.get('VERIF_REPO', '/repo')
    lean = os.environ.get('VERIF_LEAN') or os.path.join(here, '..', 'lean')
    print(json.dumps(regenerate(repo, lean), indent=1))
