"""C27: generate lean/PonyVerif/Gen/JoinGuards.lean from the CURRENT source of pony/orm/sqltranslation.py (read with `ast`, nothing imported).

For TableRef.make_join, StarTableRef.make_join and JoinedTableRef.make_join the generator finds the statement that appends the
discriminator criteria (`entity._construct_discriminator_criteria_(alias)`) and translates, into Lean Bool functions,
  * the guard of the `if` that contains it            -> tableRefDiscrGuard / starTableRefDiscrGuard / joinedDiscrGuard (pkOnly hasDiscr)
  * the guard(s) of the enclosing `if`s               -> tableRefOuterGuard / starTableRefOuterGuard (joined)
  * JoinedTableRef's leading early return (`if tableref.joined: if pk_only or not tableref.optimized: return ...`) -> joinedEarlyReturn
over the atoms pk_only, entity._discriminator_attr_, tableref.joined, tableref.optimized.  Model/JoinDiscr.lean runs on these
functions, so the theorems of Props/C27.lean about "which table references get the discriminator filter" are re-proved against
the guards of the source on every run; a guard the translator cannot express (another atom / shape) makes the module fail.
"""
import ast, os

ATOMS = {'pk_only': 'pkOnly', 'entity._discriminator_attr_': 'hasDiscr', 'tableref.joined': 'joined', 'tableref.optimized': 'optimized'}


def to_lean(e):
    if isinstance(e, ast.BoolOp):
        op = ' && ' if isinstance(e.op, ast.And) else ' || '
        return '(' + op.join(to_lean(v) for v in e.values) + ')'
    if isinstance(e, ast.UnaryOp) and isinstance(e.op, ast.Not):
        return '(!' + to_lean(e.operand) + ')'
    src = ast.unparse(e)
    if src in ATOMS: return ATOMS[src]
    raise ValueError('guard uses something else than pk_only / entity._discriminator_attr_ / tableref.joined / tableref.optimized: %r' % src)


def find_method(tree, cls, name):
    for node in tree.body:
        if isinstance(node, ast.ClassDef) and node.name == cls:
            for f in node.body:
                if isinstance(f, ast.FunctionDef) and f.name == name: return f
    raise ValueError('%s.%s not found' % (cls, name))


def contains_criteria(node):
    return any(isinstance(n, ast.Attribute) and n.attr == '_construct_discriminator_criteria_' for n in ast.walk(node))


def criteria_guards(func):
    """the chain of `if` tests (outermost first) around the statement that builds the discriminator criteria; exactly one such site expected"""
    sites = []
    def walk(stmts, chain):
        for st in stmts:
            if isinstance(st, ast.If):
                if any(contains_criteria(x) for x in st.body) and not any(isinstance(x, ast.If) and contains_criteria(x) for x in st.body):
                    sites.append(chain + [st.test])
                else:
                    walk(st.body, chain + [st.test])
                if any(contains_criteria(x) for x in st.orelse):
                    raise ValueError('discriminator criteria built in an else branch (shape not supported)')
            elif isinstance(st, (ast.For, ast.While, ast.With, ast.Try)):
                if contains_criteria(st): raise ValueError('discriminator criteria built inside a loop / with / try (shape not supported)')
            elif contains_criteria(st):
                sites.append(chain)
    walk(func.body, [])
    if len(sites) != 1: raise ValueError('%d sites build the discriminator criteria in %s (1 expected)' % (len(sites), func.name))
    return sites[0]


def early_return(func):
    """JoinedTableRef.make_join: `if tableref.joined: if <cond>: return ...` before anything else that matters"""
    for st in func.body:
        if isinstance(st, ast.If) and ast.unparse(st.test) == 'tableref.joined':
            if len(st.body) == 1 and isinstance(st.body[0], ast.If) and len(st.body[0].body) == 1 and isinstance(st.body[0].body[0], ast.Return) \
                    and not st.orelse and not st.body[0].orelse:
                return ast.BoolOp(op=ast.And(), values=[st.test, st.body[0].test])
            raise ValueError('the early return of JoinedTableRef.make_join has another shape')
    raise ValueError('JoinedTableRef.make_join: `if tableref.joined:` not found')


# ---------------------------------------------------------------------------------------------------------------------------------------
# Gen/LoadGuards.lean: the guards under which an object known only by its primary key (a "seed") is loaded before it is handed out

LOAD_SITES = [
    # (lean name, class, method, attribute name of the loading call, {source text of an atom: field of LoadCtx})
    ('attrGetLoadGuard', 'Attribute', 'get', '_load_', {
        'val is not None': 'notNone', 'attr.reverse': 'isRef', 'val._subclasses_': 'hasSub',
        "val._status_ not in ('deleted', 'cancelled')": 'alive', 'cache is not None': 'sessionAlive',
        'val in cache.seeds[val._pk_attrs_]': 'isSeed'}),
    ('setCopyLoadGuard', 'Set', 'copy', '_load_many_', {
        'reverse.is_collection': 'manyToMany', 'reverse.entity._subclasses_': 'hasSub', 'cache is not None': 'sessionAlive', 'cache.is_alive': 'sessionAlive'}),
    ('queryTupleLoadGuard', 'Query', '_actual_fetch', '_load_many_', {
        'items is None': 'notCached', 'isinstance(translator.expr_type, EntityMeta)': 'exprIsEntity', 'len(translator.row_layout) == 1': 'singleColumn',
        'isinstance(t, EntityMeta)': 'isEntity', 't._subclasses_': 'hasSub'}),
    ('findInCacheLoadGuard', 'EntityMeta', '_find_in_cache_', '_load_', {
        'obj is not None': 'notNone', 'obj._discriminator_ is not None': 'hasDiscr', 'obj._subclasses_': 'hasSub', 'obj in seeds': 'isSeed'}),
]
LOAD_FIELDS = ['notNone', 'isRef', 'hasSub', 'alive', 'sessionAlive', 'isSeed', 'manyToMany', 'notCached', 'exprIsEntity', 'singleColumn', 'isEntity', 'hasDiscr']


def load_guard_chain(func, call_attr):
    """the `if` tests (negated where the call sits in an else / elif branch) between the start of `func` and its single call of `.call_attr(...)`"""
    def has_call(node):
        return any(isinstance(n, ast.Call) and isinstance(n.func, ast.Attribute) and n.func.attr == call_attr for n in ast.walk(node))
    sites = []
    def walk(stmts, chain):
        for st in stmts:
            if not has_call(st): continue
            if isinstance(st, ast.If):
                if has_call(st.test): raise ValueError('loading call inside an `if` test')
                in_body = any(has_call(x) for x in st.body); in_else = any(has_call(x) for x in st.orelse)
                if in_body: walk(st.body, chain + [(st.test, False)])
                if in_else: walk(st.orelse, chain + [(st.test, True)])
            elif isinstance(st, (ast.For, ast.While)):
                walk(st.body, chain)                      # per item of the loop
                if any(has_call(x) for x in st.orelse): raise ValueError('loading call in a loop else')
            elif isinstance(st, (ast.With,)):
                walk(st.body, chain)
            elif isinstance(st, ast.Try):
                raise ValueError('loading call inside try (shape not supported)')
            else:
                sites.append(chain)
    walk(func.body, [])
    if len(sites) != 1: raise ValueError('%d calls of %s in %s (1 expected)' % (len(sites), call_attr, func.name))
    return sites[0]


def atoms_to_lean(e, table):
    if isinstance(e, ast.BoolOp):
        op = ' && ' if isinstance(e.op, ast.And) else ' || '
        return '(' + op.join(atoms_to_lean(v, table) for v in e.values) + ')'
    if isinstance(e, ast.UnaryOp) and isinstance(e.op, ast.Not):
        return '(!' + atoms_to_lean(e.operand, table) + ')'
    src = ast.unparse(e)
    if src in table: return 'c.' + table[src]
    raise ValueError('guard of a seed-loading site uses a condition the model does not know: %r' % src)


def full_row_flags(tree):
    """how an object is classified when it is built from a full row:
      fetchObjectsUsesParsedClass : in EntityMeta._fetch_objects the class returned by `entity._parse_row_(...)` is the receiver of `_get_from_identity_map_`
      parseRowUsesCode2cls        : in EntityMeta._parse_row_ that class is `discr_attr.code2cls[discr_value]` when there is a discriminator, `entity` otherwise"""
    f = find_method(tree, 'EntityMeta', '_fetch_objects')
    parsed_name = None
    for n in ast.walk(f):
        if isinstance(n, ast.Assign) and isinstance(n.value, ast.Call) and isinstance(n.value.func, ast.Attribute) and n.value.func.attr == '_parse_row_' \
                and isinstance(n.targets[0], ast.Tuple) and isinstance(n.targets[0].elts[0], ast.Name):
            if parsed_name is not None: raise ValueError('_fetch_objects: more than one call of _parse_row_')
            parsed_name = n.targets[0].elts[0].id
    if parsed_name is None: raise ValueError('_fetch_objects: `cls, pkval, avdict = entity._parse_row_(...)` not found')
    receivers = [ast.unparse(n.func.value) for n in ast.walk(f) if isinstance(n, ast.Call) and isinstance(n.func, ast.Attribute) and n.func.attr == '_get_from_identity_map_']
    if len(receivers) != 1: raise ValueError('_fetch_objects: one call of _get_from_identity_map_ expected, found %d' % len(receivers))
    uses_parsed = receivers[0] == parsed_name
    g = find_method(tree, 'EntityMeta', '_parse_row_')
    top = [st for st in g.body if isinstance(st, ast.If) and ast.unparse(st.test) == 'not discr_attr']
    if len(top) != 1: raise ValueError('_parse_row_: `if not discr_attr:` not found')
    def assigned(stmts, name):
        vals = [ast.unparse(st.value) for st in stmts if isinstance(st, ast.Assign) and any(isinstance(t, ast.Name) and t.id == name for t in st.targets)]
        return vals
    then_v = assigned(top[0].body, 'real_entity_subclass'); else_v = assigned(top[0].orelse, 'real_entity_subclass')
    if then_v != ['entity'] or len(else_v) != 1: raise ValueError('_parse_row_: real_entity_subclass is assigned in another way: %r / %r' % (then_v, else_v))
    rets = [ast.unparse(st.value) for st in g.body if isinstance(st, ast.Return)]
    if len(rets) != 1 or not rets[0].startswith('(real_entity_subclass,'): raise ValueError('_parse_row_ does not return (real_entity_subclass, ...)')
    return {'fetchObjectsUsesParsedClass': uses_parsed, 'parseRowUsesCode2cls': else_v[0] == 'discr_attr.code2cls[discr_value]',
            'info': {'_fetch_objects receiver': receivers[0], '_parse_row_ class with discriminator': else_v[0]}}


def select_random_guard(tree):
    """EntityMeta.select_random: the test of the `if` that sends the call to the ordinary (discriminator-filtered) `entity.select().random(limit)`
    instead of the fast path that batch-loads random primary keys of the TABLE without a class filter"""
    f = find_method(tree, 'EntityMeta', 'select_random')
    table = {'issubclass(pk.py_type, int)': 'c.pkInt', 'entity._discriminator_ is not None': 'c.hasDiscr', 'entity._root_ is not entity': '(!c.isRoot)',
             'entity._root_ is entity': 'c.isRoot', 'entity._subclasses_': 'c.hasSub', 'entity._pk_is_composite_': 'c.pkComposite'}
    def tr(e):
        if isinstance(e, ast.BoolOp): return '(' + (' && ' if isinstance(e.op, ast.And) else ' || ').join(tr(v) for v in e.values) + ')'
        if isinstance(e, ast.UnaryOp) and isinstance(e.op, ast.Not): return '(!' + tr(e.operand) + ')'
        src = ast.unparse(e)
        if src in table: return table[src]
        raise ValueError('select_random: the guard of the filtered path uses a condition the model does not know: %r' % src)
    guards = [st.test for st in f.body if isinstance(st, ast.If) and len(st.body) == 1 and isinstance(st.body[0], ast.Return)
              and ast.unparse(st.body[0].value) == 'entity.select().random(limit)' and '_discriminator_' in ast.unparse(st.test)]
    if len(guards) != 1: raise ValueError('select_random: %d guards mentioning the discriminator lead to entity.select().random(limit) (1 expected)' % len(guards))
    return ast.unparse(guards[0]), tr(guards[0])


def regenerate_load_guards(repo, lean_dir):
    out_path = os.path.join(lean_dir, 'PonyVerif', 'Gen', 'LoadGuards.lean')
    info = {}
    try:
        tree = ast.parse(open(os.path.join(repo, 'pony', 'orm', 'core.py'), encoding='utf-8').read())
        lines = ['/- GENERATED by harness/gen_c27.py from pony/orm/core.py (the guards around _load_() / _load_many_() at the sites that hand objects out) -- do not edit. -/',
                 'namespace PonyVerif.Gen.LoadGuards',
                 '/-- the facts a loading site tests (about the object / entity / session at hand) -/',
                 'structure LoadCtx where'] + ['  %s : Bool' % f for f in LOAD_FIELDS]
        for name, cls, meth, call, table in LOAD_SITES:
            chain = load_guard_chain(find_method(tree, cls, meth), call)
            info[name] = [('not ' if neg else '') + ast.unparse(t) for t, neg in chain]
            parts = [('(!%s)' % atoms_to_lean(t, table)) if neg else atoms_to_lean(t, table) for t, neg in chain]
            lines.append('/-- %s.%s: `%s` -/' % (cls, meth, ' ; '.join(info[name]).replace('-/', '- /')))
            lines.append('def %s (c : LoadCtx) : Bool := %s' % (name, ' && '.join(parts) if parts else 'true'))
        sr_src, sr_lean = select_random_guard(tree)
        info['select_random'] = sr_src
        lines += ['/-- what EntityMeta.select_random tests before choosing its path -/', 'structure RandomCtx where',
                  '  pkInt : Bool', '  pkComposite : Bool', '  hasDiscr : Bool', '  isRoot : Bool', '  hasSub : Bool',
                  '/-- select_random: `%s` → the ordinary, discriminator-filtered `entity.select().random(limit)` -/' % sr_src.replace('-/', '- /'),
                  'def selectRandomFilteredGuard (c : RandomCtx) : Bool := %s' % sr_lean]
        fr = full_row_flags(tree)
        info['full_row'] = fr['info']
        lines.append('/-- EntityMeta._fetch_objects: `%s._get_from_identity_map_(...)` -/' % fr['info']['_fetch_objects receiver'])
        lines.append('def fetchObjectsUsesParsedClass : Bool := %s' % ('true' if fr['fetchObjectsUsesParsedClass'] else 'false'))
        lines.append('/-- EntityMeta._parse_row_: `real_entity_subclass = %s` (with a discriminator), `entity` (without) -/' % fr['info']['_parse_row_ class with discriminator'])
        lines.append('def parseRowUsesCode2cls : Bool := %s' % ('true' if fr['parseRowUsesCode2cls'] else 'false'))
        lines += ['end PonyVerif.Gen.LoadGuards', '']
        text = '\n'.join(lines); ok, err = True, None
    except Exception as e:
        ok, err = False, '%s: %s' % (type(e).__name__, e)
        text = '\n'.join(['/- GENERATED by harness/gen_c27.py: the source could not be translated (%s) -/' % err.replace('-/', '- /'),
                          'namespace PonyVerif.Gen.LoadGuards', 'end PonyVerif.Gen.LoadGuards', ''])
    old = open(out_path, encoding='utf-8').read() if os.path.exists(out_path) else None
    changed = old != text
    if changed:
        with open(out_path, 'w', encoding='utf-8') as fh: fh.write(text)
    return {'LoadGuards': {'ok': ok, 'error': err, 'info': info, 'changed': changed}}


def regenerate(repo, lean_dir):
    res = regenerate_join_guards(repo, lean_dir)
    res.update(regenerate_load_guards(repo, lean_dir))
    return res


def regenerate_join_guards(repo, lean_dir):
    out_path = os.path.join(lean_dir, 'PonyVerif', 'Gen', 'JoinGuards.lean')
    info = {}
    try:
        tree = ast.parse(open(os.path.join(repo, 'pony', 'orm', 'sqltranslation.py'), encoding='utf-8').read())
        lines = ['/- GENERATED by harness/gen_c27.py from pony/orm/sqltranslation.py (TableRef / StarTableRef / JoinedTableRef .make_join) -- do not edit. -/',
                 'namespace PonyVerif.Gen.JoinGuards']
        for cls, prefix in (('TableRef', 'tableRef'), ('StarTableRef', 'starTableRef')):
            chain = criteria_guards(find_method(tree, cls, 'make_join'))
            if len(chain) != 2: raise ValueError('%s.make_join: the criteria are expected under `if not tableref.joined:` and one more `if` (found %d)' % (cls, len(chain)))
            info[cls] = [ast.unparse(t) for t in chain]
            lines.append('/-- `%s` -/' % ast.unparse(chain[0]))
            lines.append('def %sOuterGuard (joined : Bool) : Bool := %s' % (prefix, to_lean(chain[0])))
            lines.append('/-- `%s` -/' % ast.unparse(chain[1]))
            lines.append('def %sDiscrGuard (pkOnly hasDiscr : Bool) : Bool := %s' % (prefix, to_lean(chain[1])))
        f = find_method(tree, 'JoinedTableRef', 'make_join')
        chain = criteria_guards(f)
        if len(chain) != 1: raise ValueError('JoinedTableRef.make_join: the criteria are expected under one top-level `if` (found %d)' % len(chain))
        er = early_return(f)
        info['JoinedTableRef'] = {'criteria': ast.unparse(chain[0]), 'early_return': ast.unparse(er)}
        lines.append('/-- `%s` -/' % ast.unparse(chain[0]))
        lines.append('def joinedDiscrGuard (pkOnly hasDiscr : Bool) : Bool := %s' % to_lean(chain[0]))
        lines.append('/-- `%s` -/' % ast.unparse(er))
        lines.append('def joinedEarlyReturn (joined pkOnly optimized : Bool) : Bool := %s' % to_lean(er))
        lines += ['end PonyVerif.Gen.JoinGuards', '']
        text = '\n'.join(lines)
        ok, err = True, None
    except Exception as e:
        ok, err = False, '%s: %s' % (type(e).__name__, e)
        text = '\n'.join(['/- GENERATED by harness/gen_c27.py: the source could not be translated (%s) -/' % err.replace('-/', '- /'),
                          'namespace PonyVerif.Gen.JoinGuards', 'end PonyVerif.Gen.JoinGuards', ''])
    old = open(out_path, encoding='utf-8').read() if os.path.exists(out_path) else None
    changed = old != text
    if changed:
        os.makedirs(os.path.dirname(out_path), exist_ok=True)
        with open(out_path, 'w', encoding='utf-8') as fh: fh.write(text)
    return {'JoinGuards': {'ok': ok, 'error': err, 'info': info, 'changed': changed}}


if __name__ == '__main__':
    import json, sys
    print(json.dumps(regenerate(sys.argv[1] if len(sys.argv) > 1 else '/repo', os.path.join(os.path.dirname(os.path.dirname(os.path.abspath(__file__))), 'lean')), indent=1))
