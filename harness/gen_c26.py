"""C26: generate lean/PonyVerif/Gen/SchemaParams.lean from the CURRENT source of /repo (read with `ast`, nothing imported):

  maxNameLen <dialect>      : the `max_name_len = N` class attribute of the dialect's provider class
  fold <dialect>            : what `normalize_name` does after `name[:provider.max_name_len]`: "keep" | "lower" | "upper"
                              (any other body -> the module is reported as not translatable)
  namedForeignKeys <dialect>: `named_foreign_keys` of the dialect's schema class (DBSchema default True)
  indexFlagUpdates          : the statements of the `for column in columns:` loop of DBIndex.__init__ (is_pk / is_pk_part / is_unique flags)
  templates                 : the literal fragments of get_default_index_name / get_default_fk_name (`pk_%s`, `unq_%(tname)s__%(cnames)s`, ...)
                              and the separators of the `join`s, the `_2` / `_%d` suffixes of core.py

Props/C26.lean proves that the hand model's `maxNameLen`, `normalizeName` case folding, `namedForeignKeys` and name
templates are these values (C26_bridge_params), so a change of a constant, of the folding or of a template in the
source breaks a theorem (in addition to the differential run).
"""
import ast, os

PROVIDERS = [('sqlite', 'pony/orm/dbproviders/sqlite.py', 'SQLiteProvider', 'SQLiteSchema'),
             ('postgres', 'pony/orm/dbproviders/postgres.py', 'PGProvider', 'PGSchema'),
             ('mysql', 'pony/orm/dbproviders/mysql.py', 'MySQLProvider', 'MySQLSchema'),
             ('oracle', 'pony/orm/dbproviders/oracle.py', 'OraProvider', 'OraSchema')]


def lean_str(s):
    return '"' + s.replace('\\', '\\\\').replace('"', '\\"') + '"'


def _cls(tree, name):
    for node in ast.walk(tree):
        if isinstance(node, ast.ClassDef) and node.name == name: return node
    raise ValueError('class %s not found' % name)


def _attr(cls, name):
    for st in cls.body:
        if isinstance(st, ast.Assign) and len(st.targets) == 1 and isinstance(st.targets[0], ast.Name) and st.targets[0].id == name:
            if isinstance(st.value, ast.Constant): return st.value.value
            raise ValueError('%s.%s is not a literal' % (cls.name, name))
    return None


def _func(cls, name):
    for st in cls.body:
        if isinstance(st, ast.FunctionDef) and st.name == name: return st
    return None


BASE = 'name[:provider.max_name_len]'

def fold_of(func):
    body = [st for st in func.body if not (isinstance(st, ast.Expr) and isinstance(st.value, ast.Constant))]
    if len(body) != 1 or not isinstance(body[0], ast.Return): raise ValueError('normalize_name: single return expected')
    text = ast.unparse(body[0].value)
    if text == BASE: return 'keep'
    if text == BASE + '.lower()': return 'lower'
    if text == BASE + '.upper()': return 'upper'
    raise ValueError('normalize_name returns %r: outside the modelled forms' % text)


def _strings(node):
    return [n.value for n in ast.walk(node) if isinstance(n, ast.Constant) and isinstance(n.value, str)]


def collect(repo):
    info = {'maxNameLen': {}, 'fold': {}, 'namedForeignKeys': {}}
    base_tree = ast.parse(open(os.path.join(repo, 'pony/orm/dbapiprovider.py'), encoding='utf-8').read())
    base = _cls(base_tree, 'DBAPIProvider')
    base_len = _attr(base, 'max_name_len'); base_fold = fold_of(_func(base, 'normalize_name'))
    schema_tree = ast.parse(open(os.path.join(repo, 'pony/orm/dbschema.py'), encoding='utf-8').read())
    base_named = _attr(_cls(schema_tree, 'DBSchema'), 'named_foreign_keys')
    for dialect, path, pcls, scls in PROVIDERS:
        tree = ast.parse(open(os.path.join(repo, path), encoding='utf-8').read())
        p = _cls(tree, pcls)
        n = _attr(p, 'max_name_len')
        info['maxNameLen'][dialect] = base_len if n is None else n
        f = _func(p, 'normalize_name')
        info['fold'][dialect] = base_fold if f is None else fold_of(f)
        named = _attr(_cls(tree, scls), 'named_foreign_keys')
        info['namedForeignKeys'][dialect] = base_named if named is None else named
    # name templates of the base provider (no dialect overrides them)
    for dialect, path, pcls, scls in PROVIDERS:
        tree = ast.parse(open(os.path.join(repo, path), encoding='utf-8').read())
        for fn in ('get_default_index_name', 'get_default_fk_name', 'get_default_column_names', 'get_default_m2m_column_names',
                   'get_default_m2m_table_name', 'get_default_entity_table_name'):
            if _func(_cls(tree, pcls), fn) is not None: raise ValueError('%s overrides %s: not modelled' % (pcls, fn))
    info['indexTemplates'] = _strings(_func(base, 'get_default_index_name'))
    info['fkTemplates'] = _strings(_func(base, 'get_default_fk_name'))
    info['columnTemplates'] = _strings(_func(base, 'get_default_column_names')) + _strings(_func(base, 'get_default_m2m_column_names')) \
        + _strings(_func(base, 'get_default_m2m_table_name'))
    core_tree = ast.parse(open(os.path.join(repo, 'pony/orm/core.py'), encoding='utf-8').read())
    info['m2mColumnSuffixes'] = sorted(set(_strings(_func(_cls(core_tree, 'Set'), 'get_m2m_columns'))) & {'_2'})
    gm = _func(_cls(core_tree, 'Database'), 'generate_mapping')
    info['tableSuffixTemplates'] = sorted(set(s for s in _strings(gm) if s.startswith('_%')))
    # the flag updates of DBIndex.__init__ (`for column in columns:` body), as source text
    init = _func(_cls(schema_tree, 'DBIndex'), '__init__')
    loops = [n for n in ast.walk(init) if isinstance(n, ast.For) and ast.unparse(n.target) == 'column' and
             any(isinstance(st, ast.Assign) for st in n.body)]
    if len(loops) != 1: raise ValueError('DBIndex.__init__: the column-flag loop was not found')
    info['indexFlagUpdates'] = [ast.unparse(st) for st in loops[0].body]
    return info


def render(info):
    L = ['/- GENERATED by harness/gen_c26.py from the source of /repo (providers, dbschema.py, core.py) -- do not edit. -/',
         'namespace PonyVerif.Gen.SchemaParams', '']
    def table(name, typ, f):
        L.append('def %s : String → Option %s' % (name, typ))
        for d, _, _, _ in PROVIDERS: L.append('  | "%s" => some %s' % (d, f(d)))
        L.append('  | _ => none'); L.append('')
    table('maxNameLen', 'Nat', lambda d: str(info['maxNameLen'][d]))
    table('fold', 'String', lambda d: lean_str(info['fold'][d]))
    table('namedForeignKeys', 'Bool', lambda d: 'true' if info['namedForeignKeys'][d] else 'false')
    for k in ('indexTemplates', 'fkTemplates', 'columnTemplates', 'm2mColumnSuffixes', 'tableSuffixTemplates', 'indexFlagUpdates'):
        L.append('def %s : List String := [%s]' % (k, ', '.join(lean_str(x) for x in info[k]))); L.append('')
    L.append('end PonyVerif.Gen.SchemaParams'); L.append('')
    return '\n'.join(L)


def regenerate(repo, lean_dir):
    path = os.path.join(lean_dir, 'PonyVerif', 'Gen', 'SchemaParams.lean')
    try:
        info = collect(repo)
        text = render(info)
    except (ValueError, SyntaxError, OSError) as e:
        return {'SchemaParams': {'ok': False, 'error': str(e), 'info': {}, 'changed': False}}
    old = open(path).read() if os.path.exists(path) else None
    if old != text:
        os.makedirs(os.path.dirname(path), exist_ok=True)
        with open(path, 'w') as f: f.write(text)
    return {'SchemaParams': {'ok': True, 'error': None, 'info': info, 'changed': old != text}}


if __name__ == '__main__':
    import json, sys
    print(json.dumps(regenerate(sys.argv[1] if len(sys.argv) > 1 else '/repo', os.path.join(os.path.dirname(os.path.abspath(__file__)), '..', 'lean')), indent=1))
