"""C22: generate lean/PonyVerif/Gen/StoreLast.lean from the SOURCE of the functions that publish a value in a process-wide
cache (pony/orm/asttranslation.py, decompiling.py, core.py).

The concurrent memo model (PonyVerif/Model/SharedMemo.lean) publishes a value with ONE dict store of the finished value.
That is a fact about the code: the object handed to `cache[key] = value` must not be mutated afterwards by the publishing
function (another thread may already hold it).  For every publishing site this generator finds the store statement in the
function's AST, collects the names of the stored object(s) (the right-hand side, the elements of a stored tuple, the other
targets of a chained assignment) and reports whether any statement that can run AFTER the store -- the rest of its block, the
rest of every enclosing block, the whole body of an enclosing loop -- assigns to an attribute / item of a stored name, deletes
one, or calls a mutating method on it.  `Props/C22.lean` proves `allStoresLast = true` (decide) and states the memo theorem for
the code AS CODED through this flag; a source change that fills a published object after the store breaks both on the next run.
`regenerate(repo, lean_dir)` has the shape of `py2lean.regenerate`.
"""
import ast, os

MUTATORS = {'append', 'extend', 'update', 'add', 'pop', 'popitem', 'remove', 'clear', 'insert', 'setdefault', 'discard',
            'sort', 'reverse', '__setitem__', '__delitem__', 'difference_update', 'intersection_update', 'appendleft'}

# (file, qualified function name, cache attribute/variable name)
SITES = [('pony/orm/asttranslation.py', 'create_extractors', 'extractors_cache'),
         ('pony/orm/core.py', 'string2ast', 'string2ast_cache'),
         ('pony/orm/decompiling.py', 'decompile', 'ast_cache'),
         ('pony/orm/core.py', 'adapt_sql', 'adapted_sql_cache'),
         ('pony/orm/core.py', 'Query._construct_sql_and_arguments', '_constructed_sql_cache'),
         ('pony/orm/core.py', 'Query.__init__', '_translator_cache'),
         ('pony/orm/core.py', 'Query._order_by', '_translator_cache'),
         ('pony/orm/core.py', 'Query._process_lambda', '_translator_cache'),
         ('pony/orm/core.py', 'Query._apply_kwargs', '_translator_cache')]


def find_func(tree, qual):
    parts = qual.split('.')
    body = tree.body
    node = None
    for i, p in enumerate(parts):
        node = next((n for n in body if isinstance(n, (ast.FunctionDef, ast.ClassDef)) and n.name == p), None)
        if node is None: return None
        body = node.body
    return node


def root_name(node):
    while isinstance(node, (ast.Attribute, ast.Subscript)): node = node.value
    return node.id if isinstance(node, ast.Name) else None


def is_store(stmt, cache):
    if not isinstance(stmt, ast.Assign): return False
    for t in stmt.targets:
        if isinstance(t, ast.Subscript):
            v = t.value
            name = v.attr if isinstance(v, ast.Attribute) else v.id if isinstance(v, ast.Name) else None
            if name == cache: return True
    return False


def stored_names(stmt):
    names = set()
    for n in ast.walk(stmt.value):
        if isinstance(n, ast.Name): names.add(n.id)
    for t in stmt.targets:
        if isinstance(t, ast.Name): names.add(t.id)
    return names


def mutates(stmt, names):
    """does the statement (or a nested one) change an object bound to one of `names` in place?"""
    for n in ast.walk(stmt):
        targets = []
        if isinstance(n, ast.Assign): targets = n.targets
        elif isinstance(n, (ast.AugAssign, ast.AnnAssign)): targets = [n.target]
        elif isinstance(n, ast.Delete): targets = n.targets
        elif isinstance(n, (ast.For, ast.AsyncFor)): targets = [n.target]
        for t in targets:
            for tt in (t.elts if isinstance(t, (ast.Tuple, ast.List)) else [t]):
                if isinstance(tt, (ast.Attribute, ast.Subscript)) and root_name(tt) in names: return True
        if isinstance(n, ast.Call) and isinstance(n.func, ast.Attribute) and n.func.attr in MUTATORS and root_name(n.func.value) in names:
            return True
    return False


def analyse_func(func, cache):
    """list of (lineno of the store, nothing mutates the stored object afterwards)"""
    out = []
    def visit(block, after, in_loop_bodies):
        # `after`: statements that run after this block finishes; `in_loop_bodies`: bodies of enclosing loops
        for i, stmt in enumerate(block):
            rest = block[i + 1:] + after
            if is_store(stmt, cache):
                names = stored_names(stmt)
                later = list(rest)
                for lb in in_loop_bodies: later += lb
                out.append((stmt.lineno, not any(mutates(s, names) for s in later)))
            for field in ('body', 'orelse', 'finalbody', 'handlers'):
                sub = getattr(stmt, field, None)
                if not sub: continue
                if field == 'handlers':
                    for h in sub: visit(h.body, rest, in_loop_bodies)
                    continue
                loops = in_loop_bodies + ([stmt.body] if isinstance(stmt, (ast.For, ast.While, ast.AsyncFor)) and field == 'body' else [])
                visit(sub, rest, loops)
    visit(func.body, [], [])
    return out


def analyse(repo):
    res = []; errors = []
    trees = {}
    for path, qual, cache in SITES:
        if path not in trees: trees[path] = ast.parse(open(os.path.join(repo, path)).read())
        func = find_func(trees[path], qual)
        if func is None:
            errors.append('%s: function %s not found' % (path, qual)); continue
        stores = analyse_func(func, cache)
        if not stores:
            errors.append('%s: %s has no store into %s' % (path, qual, cache)); continue
        res.append(('%s:%s' % (qual, cache), all(ok for _, ok in stores), len(stores)))
    return res, errors


def render(res):
    L = ['/- GENERATED by harness/gen_c22.py from pony/orm/asttranslation.py, decompiling.py, core.py -- do not edit.',
         '   For every function that publishes a value in a process-wide cache: no statement that can run after the store mutates',
         '   the published object (the store is the last thing the miss branch does to it). -/',
         'namespace PonyVerif.Gen.StoreLast', '',
         'def sites : List (String × Bool) := [' + ', '.join('("%s", %s)' % (n, 'true' if ok else 'false') for n, ok, _ in res) + ']',
         'def allStoresLast : Bool := sites.all (fun s => s.2)', '',
         'end PonyVerif.Gen.StoreLast', '']
    return '\n'.join(L)


def regenerate(repo, lean_dir):
    path = os.path.join(lean_dir, 'PonyVerif', 'Gen', 'StoreLast.lean')
    try:
        res, errors = analyse(repo)
        text = render(res)
    except Exception as e:
        return {'StoreLast': {'ok': False, 'error': '%s: %s' % (type(e).__name__, e), 'info': {}, 'changed': False}}
    old = open(path).read() if os.path.exists(path) else None
    if old != text:
        os.makedirs(os.path.dirname(path), exist_ok=True)
        with open(path, 'w') as fh: fh.write(text)
    return {'StoreLast': {'ok': not errors, 'error': '; '.join(errors) or None,
                          'info': {n: {'stores': k, 'last': ok} for n, ok, k in res}, 'changed': old != text}}


if __name__ == '__main__':
    import json
    here = os.path.dirname(os.path.abspath(__file__))
    print(json.dumps(regenerate(os.environ.get('VERIF_REPO', '/repo'), os.environ.get('VERIF_LEAN') or os.path.join(here, '..', 'lean')), indent=1))
