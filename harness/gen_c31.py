"""C31: generate lean/PonyVerif/Gen/ReducePk.lean from the CURRENT source of /repo (read with `ast`, nothing imported):

  sep           : the separator string of `','.join(...)` in `Bag._reduce_composite_pk`
  replacements  : the chain of `str(item).replace(a, b)` calls, in application order
  dictKeyTest / collectionKeyTest / entityCollectionKeyTest :
                  the source text of the tests that decide between the reduced composite text and the bare column value in
                  `Bag.to_dict`, in the collection branch of `Bag._process_object` and in `Entity.to_dict` (core.py)
  walk*         : the shape of the traversal in `Bag.to_dict` / `Bag._process_object` the model `BagWalk` mirrors
                  (given objects processed unconditionally; related objects only when absent; entry stored last)

Props/C31.lean proves equalities against these definitions (`C31_source_*`), so a change of the escape chain, the separator,
one of the tests or the traversal shape breaks a theorem instead of leaving the hand model silently stale.  The generator
fails (-> broken obligation `translator:ReducePk`) when the functions no longer have the shape it can read.
"""
import ast, os


def lean_str(s):
    return '"' + s.replace('\\', '\\\\').replace('"', '\\"').replace('\n', '\\n') + '"'


def _method(tree, cls, name):
    for node in ast.walk(tree):
        if isinstance(node, ast.ClassDef) and node.name == cls:
            for f in node.body:
                if isinstance(f, ast.FunctionDef) and f.name == name: return f
    raise ValueError('%s.%s not found' % (cls, name))


def reduce_shape(f):
    body = [s for s in f.body if not (isinstance(s, ast.Expr) and isinstance(s.value, ast.Constant))]
    if len(body) != 1 or not isinstance(body[0], ast.Return): raise ValueError('_reduce_composite_pk: a single return expected')
    call = body[0].value
    if not (isinstance(call, ast.Call) and isinstance(call.func, ast.Attribute) and call.func.attr == 'join'
            and isinstance(call.func.value, ast.Constant) and isinstance(call.func.value.value, str) and len(call.args) == 1):
        raise ValueError("_reduce_composite_pk: `<sep>.join(<generator>)` expected")
    sep = call.func.value.value
    gen = call.args[0]
    if not (isinstance(gen, ast.GeneratorExp) and len(gen.generators) == 1 and not gen.generators[0].ifs
            and isinstance(gen.generators[0].target, ast.Name) and isinstance(gen.generators[0].iter, ast.Name)
            and gen.generators[0].iter.id == f.args.args[1].arg):
        raise ValueError('_reduce_composite_pk: `... for item in pk` expected')
    item = gen.generators[0].target.id
    e = gen.elt; reps = []
    while isinstance(e, ast.Call) and isinstance(e.func, ast.Attribute) and e.func.attr == 'replace':
        if len(e.args) != 2 or e.keywords or not all(isinstance(a, ast.Constant) and isinstance(a.value, str) for a in e.args):
            raise ValueError('_reduce_composite_pk: replace(<str>, <str>) expected')
        reps.append((e.args[0].value, e.args[1].value)); e = e.func.value
    if not (isinstance(e, ast.Call) and isinstance(e.func, ast.Name) and e.func.id == 'str' and len(e.args) == 1
            and isinstance(e.args[0], ast.Name) and e.args[0].id == item):
        raise ValueError('_reduce_composite_pk: the chain must start at str(item)')
    return sep, list(reversed(reps))


def _if_test_guarding(f, needle):
    """source text of the test of the innermost `if` whose BODY contains a call of `needle`"""
    best = None
    for node in ast.walk(f):
        if isinstance(node, ast.If):
            for sub in node.body:
                if any(isinstance(n, ast.Attribute) and n.attr == needle for n in ast.walk(sub)) or \
                   any(isinstance(n, ast.Name) and n.id == needle for n in ast.walk(sub)):
                    if best is None or any(n is node for n in ast.walk(best)): best = node
    if best is None: raise ValueError('no `if` guarding %s in %s' % (needle, f.name))
    return ast.unparse(best.test)


def walk_shape(to_dict, process):
    # 1. the loop over the given objects calls _process_object unconditionally
    unconditional = False
    for node in ast.walk(to_dict):
        if isinstance(node, ast.For) and isinstance(node.iter, ast.Name):
            for st in node.body:
                if isinstance(st, ast.Expr) and isinstance(st.value, ast.Call) and isinstance(st.value.func, ast.Attribute) \
                        and st.value.func.attr == '_process_object' and len(st.value.args) == 1 and not st.value.keywords:
                    unconditional = True
    # 2. every recursive call passes process_related=False and is guarded by `<obj> not in bag.dicts[<obj>.__class__]`
    guards = []
    for node in ast.walk(process):
        if isinstance(node, ast.If):
            for st in node.body:
                if isinstance(st, ast.Expr) and isinstance(st.value, ast.Call) and isinstance(st.value.func, ast.Attribute) \
                        and st.value.func.attr == '_process_object':
                    kws = {k.arg: ast.unparse(k.value) for k in st.value.keywords}
                    guards.append((ast.unparse(node.test), ast.unparse(st.value.args[0]), kws.get('process_related')))
    calls = sum(1 for n in ast.walk(process) if isinstance(n, ast.Call) and isinstance(n.func, ast.Attribute) and n.func.attr == '_process_object')
    # 3. the entry is stored by the last statement
    last = ast.unparse(process.body[-1])
    return unconditional, guards, calls, last


def regenerate(repo, lean_dir):
    path = os.path.join(lean_dir, 'PonyVerif', 'Gen', 'ReducePk.lean')
    try:
        ser = ast.parse(open(os.path.join(repo, 'pony', 'orm', 'serialization.py'), encoding='utf-8').read())
        core = ast.parse(open(os.path.join(repo, 'pony', 'orm', 'core.py'), encoding='utf-8').read())
        sep, reps = reduce_shape(_method(ser, 'Bag', '_reduce_composite_pk'))
        to_dict = _method(ser, 'Bag', 'to_dict'); process = _method(ser, 'Bag', '_process_object')
        dict_test = None
        for node in ast.walk(to_dict):
            if isinstance(node, ast.Assign) and isinstance(node.targets[0], ast.Name) and node.targets[0].id == 'composite_pk':
                dict_test = ast.unparse(node.value)
        if dict_test is None: raise ValueError('Bag.to_dict: `composite_pk = ...` not found')
        coll_test = _if_test_guarding(process, '_reduce_composite_pk')
        ent = _method(core, 'Entity', 'to_dict')
        # Entity.to_dict: `elif <test>: value = sorted(item._get_raw_pkval_() for item in value)` (whole raw tuples for multi-column keys)
        ent_test = None
        for node in ast.walk(ent):
            if isinstance(node, ast.If):
                for st in node.body:
                    if isinstance(st, ast.Assign) and ast.unparse(st.value).replace('((', '(').replace('))', ')') == 'sorted(item._get_raw_pkval_() for item in value)': ent_test = ast.unparse(node.test)
        if ent_test is None: raise ValueError('Entity.to_dict: branch `sorted(item._get_raw_pkval_() for item in value)` not found')
        unconditional, guards, calls, last = walk_shape(to_dict, process)
        # EntityMeta._get_attrs_: the cache key, the lookup, the store and the miss test
        ga = _method(core, 'EntityMeta', '_get_attrs_')
        ga_key = ga_lookup = ga_miss = None; ga_stores = []
        for node in ast.walk(ga):
            if isinstance(node, ast.Assign) and isinstance(node.targets[0], ast.Name) and node.targets[0].id == 'key': ga_key = ast.unparse(node.value)
            if isinstance(node, ast.Assign) and isinstance(node.targets[0], ast.Name) and node.targets[0].id == 'attrs' and '_attrnames_cache_' in ast.unparse(node.value): ga_lookup = ast.unparse(node.value)
            if isinstance(node, ast.Assign) and isinstance(node.targets[0], ast.Subscript) and '_attrnames_cache_' in ast.unparse(node.targets[0]): ga_stores.append(ast.unparse(node))
            if isinstance(node, ast.If) and ga_miss is None and any(isinstance(n, ast.Subscript) and '_attrnames_cache_' in ast.unparse(n) for st in node.body for n in ast.walk(st)): ga_miss = ast.unparse(node.test)
        if ga_key is None or ga_lookup is None or ga_miss is None or len(ga_stores) != 1: raise ValueError('_get_attrs_: key / cache lookup / miss test / single store not found')
        ga_params = [a.arg for a in ga.args.args[1:]]
        # QueryResult._get_items / __getstate__ and Query.__reduce__
        gi = _method(core, 'QueryResult', '_get_items'); gs = _method(core, 'QueryResult', '__getstate__'); qr = _method(core, 'Query', '__reduce__')
        fetch_calls = [ast.unparse(n) for n in ast.walk(gi) if isinstance(n, ast.Call) and isinstance(n.func, ast.Attribute) and n.func.attr == '_actual_fetch']
        if len(fetch_calls) != 1: raise ValueError('QueryResult._get_items: exactly one _actual_fetch call expected')
        gs_body = [st for st in gs.body if not (isinstance(st, ast.Expr) and isinstance(st.value, ast.Constant))]
        qr_body = [st for st in qr.body if not (isinstance(st, ast.Expr) and isinstance(st.value, ast.Constant))]
        if len(gs_body) != 1 or len(qr_body) != 1: raise ValueError('QueryResult.__getstate__ / Query.__reduce__: a single statement expected')
        lines = ['/- GENERATED by harness/gen_c31.py from pony/orm/serialization.py and pony/orm/core.py -- do not edit. -/',
                 'namespace PonyVerif.Gen.ReducePk',
                 'def sep : String := %s' % lean_str(sep),
                 'def replacements : List (String × String) := [%s]' % ', '.join('(%s, %s)' % (lean_str(a), lean_str(b)) for a, b in reps),
                 'def dictKeyTest : String := %s' % lean_str(dict_test),
                 'def collectionKeyTest : String := %s' % lean_str(coll_test),
                 'def entityCollectionKeyTest : String := %s' % lean_str(ent_test),
                 'def walkGivenUnconditional : Bool := %s' % ('true' if unconditional else 'false'),
                 'def walkRecursiveCalls : Nat := %d' % calls,
                 'def walkGuards : List (String × String × String) := [%s]' % ', '.join('(%s, %s, %s)' % (lean_str(t), lean_str(a), lean_str(str(k))) for t, a, k in guards),
                 'def walkLastStatement : String := %s' % lean_str(last),
                 'def attrsParams : List String := [%s]' % ', '.join(lean_str(a) for a in ga_params),
                 'def attrsCacheKey : String := %s' % lean_str(ga_key),
                 'def attrsCacheLookup : String := %s' % lean_str(ga_lookup),
                 'def attrsCacheMissTest : String := %s' % lean_str(ga_miss),
                 'def attrsCacheStore : String := %s' % lean_str(ga_stores[0]),
                 'def resultFetchCall : String := %s' % lean_str(fetch_calls[0]),
                 'def resultGetstate : String := %s' % lean_str(ast.unparse(gs_body[0])),
                 'def queryReduce : String := %s' % lean_str(ast.unparse(qr_body[0])),
                 'end PonyVerif.Gen.ReducePk', '']
        text = '\n'.join(lines)
        old = open(path).read() if os.path.exists(path) else None
        if old != text:
            os.makedirs(os.path.dirname(path), exist_ok=True)
            with open(path, 'w') as f: f.write(text)
        return {'ReducePk': {'ok': True, 'error': None, 'changed': old != text,
                             'info': {'sep': sep, 'replacements': reps, 'dictKeyTest': dict_test, 'collectionKeyTest': coll_test,
                                      'entityCollectionKeyTest': ent_test, 'walkGuards': guards, 'attrsCacheKey': ga_key}}}
    except (ValueError, SyntaxError, OSError, IndexError) as e:
        return {'ReducePk': {'ok': False, 'error': str(e), 'info': {}, 'changed': False}}
