/-
  C02 — the LIMIT / OFFSET clause each dialect's statement carries, and what each backend does with it.
  `combineT` / `window` (Model/Limit.lean, C24's typed mirror of combine_limit_and_offset, imported read-only) give the combined
  (limit, offset) of composed windows; this file adds the per-dialect SPELLING of that pair (construct_sql_ast: -1 on SQLite,
  18446744073709551615 on MySQL, NULL on PostgreSQL for "no limit"; OraBuilder.SELECT: ROWNUM wrappers) and the documented meaning
  of the spelled numbers on each backend: a negative LIMIT is "no limit" on SQLite, an error on PostgreSQL (`LIMIT must not be
  negative`) and on MySQL (syntax error) — so only non-negative numbers, or the dialect's own spelling of "unbounded", mean the same
  thing everywhere.
-/
import PonyVerif.Model.Limit
namespace PonyVerif.Model.Q
open PonyVerif.Model.Limit

inductive WDialect | sqlite | pg | mysql | oracle
  deriving DecidableEq, Repr

def WDialect.ofString? : String → Option WDialect
  | "sqlite" => some .sqlite | "postgres" => some .pg | "mysql" => some .mysql | "oracle" => some .oracle | _ => none

/-- what a statement says about its window: nothing, `LIMIT lim [OFFSET off]` (`lim = none`: `LIMIT null`), or Oracle's
    `… WHERE ROWNUM <= le) … WHERE "row-num" > gt` wrappers -/
inductive Clause
  | absent
  | limit (lim : Option Int) (off : Option Nat)
  | rownum (le : Option Nat) (gt : Option Nat)
  deriving DecidableEq, Repr

def mysqlMax : Nat := 18446744073709551615

/-- the clause Pony writes for a combined (limit, offset): construct_sql_ast spells a missing limit per dialect; OraBuilder.SELECT (with LIMIT 0 restricting to no row) -/
def limitClause (d : WDialect) (lo : Option Nat × Option Nat) : Clause :=
  match lo.1, lo.2 with
  | none, none => .absent
  | l, o0 =>
    -- a LIMIT section is written as soon as limit or offset is not None (an offset of 0 included: `LIMIT -1` / `LIMIT null`);
    -- the OFFSET part only for a non-zero offset (`if offset:`)
    let o : Option Nat := match o0 with
      | some 0 => none
      | x => x
    match d with
    | .sqlite => .limit (some (match l with | some n => (n : Int) | none => -1)) o
    | .mysql => .limit (some ((l.getD mysqlMax : Nat) : Int)) o
    | .pg => .limit (l.map Int.ofNat) o
    | .oracle =>
      match l, o with
      | none, none => .absent
      | none, some k => .rownum none (some k)
      | some n, none => .rownum (some n) none
      | some n, some k => if n = 0 then .rownum (some 0) none else .rownum (some (n + k)) (some k)

/-- what the backend of dialect `d` returns for the ordered result `R` under a clause; `none` = the backend rejects the statement -/
def clauseWindow (d : WDialect) (c : Clause) (R : List α) : Option (List α) :=
  match c with
  | .absent => some R
  | .limit lim off =>
    let dr := R.drop (off.getD 0)
    match lim with
    | none => if d = .pg then some dr else none
    | some z =>
      if d = .oracle then none
      else if 0 ≤ z then some (dr.take z.toNat)
      else if d = .sqlite then some dr
      else none
  | .rownum le gt =>
    match d with
    | .oracle => some (((match le with | none => R | some n => R.take n)).drop (gt.getD 0))
    | _ => none

/-- composition of a chain of windows, innermost first (limit-then-slice, page of a limited query, three levels …) -/
def combineAll (ws : List (Option Nat × Option Nat)) : Option Nat × Option Nat :=
  ws.foldl (fun acc x => combineT acc.1 acc.2 x.1 x.2) (none, none)

/-- the Python reading: apply the windows one after another to the list -/
def windowAll (ws : List (Option Nat × Option Nat)) (R : List α) : List α :=
  ws.foldl (fun acc w => window w acc) R

end PonyVerif.Model.Q
