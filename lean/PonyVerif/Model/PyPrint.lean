/-
  C04 — model of `pony/orm/asttranslation.py: PythonTranslator` (AST → source text) AS WRITTEN, and a reference
  parser for the Python expression grammar over the token language.  Core Lean only (linked into the driver).

  * `Expr` …            the external-expression grammar (what `PythonTranslator` has a `post…` method for and prints
                        without raising).  A folded negative numeric constant is the separate node `negConst`.
  * `codePrio`          the number the code leaves in `node.priority` (decorator `@priority(p)`, manual assignments,
                        0 for nodes that never set one: JoinedStr/FormattedValue).
  * `wrap p c`          the decorator rule: `if getattr(child, 'priority', 0) >= p: child.src = '(%s)' % child.src`.
  * `prim c`            `primary_src`: parenthesise when priority > 2.
  * `pr…`               the text produced, as pieces (tokens and the single spaces the code inserts); `render` gives
                        the exact string, `toks` the token list (spaces dropped = what Python's tokenizer does).
  * `pE`                recursive-descent parser by grammar level (level numbers = Pony's priority numbers, which are
                        the levels of the Python reference grammar: 16 lambda, 15 conditional, 14 or, 13 and, 12 not,
                        11 comparison, 10 |, 9 ^, 8 &, 7 shifts, 6 + -, 5 * / // %, 4 unary, 3 **, 2 primary, 1 atom).
-/
namespace PonyVerif.Model.PyPrint

inductive BinOp | bitOr | bitXor | bitAnd | lshift | rshift | add | sub | mult | div | floorDiv | mod | pow
  deriving DecidableEq, Repr, Inhabited
inductive CmpOp | eq | ne | lt | le | gt | ge | is | isNot | in_ | notIn
  deriving DecidableEq, Repr, Inhabited
inductive UnOp | neg | pos
  deriving DecidableEq, Repr, Inhabited

/-- `@priority(p)` of the `post<Op>` method -/
def BinOp.prio : BinOp → Nat
  | .bitOr => 10 | .bitXor => 9 | .bitAnd => 8 | .lshift => 7 | .rshift => 7 | .add => 6 | .sub => 6
  | .mult => 5 | .div => 5 | .floorDiv => 5 | .mod => 5 | .pow => 3

mutual
inductive Expr
  | name (s : String)
  | const (s : String)                       -- repr of a constant that does not start with '-'
  | negConst (s : String)                    -- folded negative number; text is "-" ++ s
  | boolOp (isOr : Bool) (a b : Expr) (more : Exprs)
  | not (e : Expr)
  | compare (l : Expr) (op : CmpOp) (r : Expr) (more : CmpTail)
  | bin (op : BinOp) (l r : Expr)
  | unary (op : UnOp) (e : Expr)
  | ifExp (body test orelse : Expr)
  | lambda (ps : Params) (body : Expr)
  | attr (e : Expr) (a : String)
  | call (f : Expr) (args : Args)
  | subscript (e : Expr) (i : Idx)            -- slice is not a Tuple
  | subscriptT (e : Expr) (is : Idxs)         -- slice is a non-empty Tuple
  | list (es : Args)
  | tuple (es : Args)
  | dict (kvs : KVs)
  | fstr (ps : FParts)
inductive Exprs | nil | cons (e : Expr) (t : Exprs)
inductive CmpTail | nil | cons (op : CmpOp) (e : Expr) (t : CmpTail)
inductive Args
  | nil | pos (e : Expr) (t : Args) | star (e : Expr) (t : Args)
  | kw (n : String) (e : Expr) (t : Args) | dstar (e : Expr) (t : Args)
inductive OptE | none | some (e : Expr)
inductive Idx | ie (e : Expr) | sl (lo hi st : OptE)
inductive Idxs | nil | cons (i : Idx) (t : Idxs)
inductive Params
  | nil | plain (n : String) (t : Params) | dflt (n : String) (e : Expr) (t : Params)
  | var (n : String) (t : Params) | kwvar (n : String) (t : Params)
inductive KVs | nil | cons (k v : Expr) (t : KVs)
inductive FParts
  | nil | lit (s : String) (t : FParts) | field (e : Expr) (conv : String) (spec : FSpec) (t : FParts)
inductive FSpec | none | some (ps : FParts)
end

deriving instance Repr for Expr
deriving instance Repr for Exprs
deriving instance Repr for CmpTail
deriving instance Repr for Args
deriving instance Repr for OptE
deriving instance Repr for Idx
deriving instance Repr for Idxs
deriving instance Repr for Params
deriving instance Repr for KVs
deriving instance Repr for FParts
deriving instance Repr for FSpec

mutual
def Expr.beq : Expr → Expr → Bool
  | .name a, .name b => a == b
  | .const a, .const b => a == b
  | .negConst a, .negConst b => a == b
  | .boolOp o a b m, .boolOp o' a' b' m' => o == o' && a.beq a' && b.beq b' && m.beq m'
  | .not a, .not b => a.beq b
  | .compare l o r m, .compare l' o' r' m' => l.beq l' && o == o' && r.beq r' && m.beq m'
  | .bin o l r, .bin o' l' r' => o == o' && l.beq l' && r.beq r'
  | .unary o e, .unary o' e' => o == o' && e.beq e'
  | .ifExp a b c, .ifExp a' b' c' => a.beq a' && b.beq b' && c.beq c'
  | .lambda p b, .lambda p' b' => p.beq p' && b.beq b'
  | .attr e a, .attr e' a' => e.beq e' && a == a'
  | .call f a, .call f' a' => f.beq f' && a.beq a'
  | .subscript e i, .subscript e' i' => e.beq e' && i.beq i'
  | .subscriptT e i, .subscriptT e' i' => e.beq e' && i.beq i'
  | .list a, .list b => a.beq b
  | .tuple a, .tuple b => a.beq b
  | .dict a, .dict b => a.beq b
  | .fstr a, .fstr b => a.beq b
  | _, _ => false
def Exprs.beq : Exprs → Exprs → Bool
  | .nil, .nil => true
  | .cons e t, .cons e' t' => e.beq e' && t.beq t'
  | _, _ => false
def CmpTail.beq : CmpTail → CmpTail → Bool
  | .nil, .nil => true
  | .cons o e t, .cons o' e' t' => o == o' && e.beq e' && t.beq t'
  | _, _ => false
def Args.beq : Args → Args → Bool
  | .nil, .nil => true
  | .pos e t, .pos e' t' => e.beq e' && t.beq t'
  | .star e t, .star e' t' => e.beq e' && t.beq t'
  | .kw n e t, .kw n' e' t' => n == n' && e.beq e' && t.beq t'
  | .dstar e t, .dstar e' t' => e.beq e' && t.beq t'
  | _, _ => false
def OptE.beq : OptE → OptE → Bool
  | .none, .none => true
  | .some a, .some b => a.beq b
  | _, _ => false
def Idx.beq : Idx → Idx → Bool
  | .ie a, .ie b => a.beq b
  | .sl a b c, .sl a' b' c' => a.beq a' && b.beq b' && c.beq c'
  | _, _ => false
def Idxs.beq : Idxs → Idxs → Bool
  | .nil, .nil => true
  | .cons i t, .cons i' t' => i.beq i' && t.beq t'
  | _, _ => false
def Params.beq : Params → Params → Bool
  | .nil, .nil => true
  | .plain n t, .plain n' t' => n == n' && t.beq t'
  | .dflt n e t, .dflt n' e' t' => n == n' && e.beq e' && t.beq t'
  | .var n t, .var n' t' => n == n' && t.beq t'
  | .kwvar n t, .kwvar n' t' => n == n' && t.beq t'
  | _, _ => false
def KVs.beq : KVs → KVs → Bool
  | .nil, .nil => true
  | .cons k v t, .cons k' v' t' => k.beq k' && v.beq v' && t.beq t'
  | _, _ => false
def FParts.beq : FParts → FParts → Bool
  | .nil, .nil => true
  | .lit s t, .lit s' t' => s == s' && t.beq t'
  | .field e c sp t, .field e' c' sp' t' => e.beq e' && c == c' && sp.beq sp' && t.beq t'
  | _, _ => false
def FSpec.beq : FSpec → FSpec → Bool
  | .none, .none => true
  | .some a, .some b => a.beq b
  | _, _ => false
end

/-! ### tokens and pieces -/

inductive Tok
  | name (s : String) | const (s : String)
  | lpar | rpar | lbrk | rbrk | lbrc | rbrc | comma | colon | dot | assign
  | kLambda | kIf | kElse | kOr | kAnd | kNot
  | bin (op : BinOp)          -- `-` `+` `*` `**` are the same token in prefix and infix position
  | cmp (op : CmpOp)
  deriving DecidableEq, Repr, Inhabited

/-- a token, or one of the single spaces the code writes -/
inductive Piece | t (k : Tok) | sp
  deriving DecidableEq, Repr, Inhabited

def BinOp.text : BinOp → String
  | .bitOr => "|" | .bitXor => "^" | .bitAnd => "&" | .lshift => "<<" | .rshift => ">>" | .add => "+" | .sub => "-"
  | .mult => "*" | .div => "/" | .floorDiv => "//" | .mod => "%" | .pow => "**"
def CmpOp.text : CmpOp → String
  | .eq => "==" | .ne => "!=" | .lt => "<" | .le => "<=" | .gt => ">" | .ge => ">="
  | .is => "is" | .isNot => "is not" | .in_ => "in" | .notIn => "not in"
def Tok.text : Tok → String
  | .name s => s | .const s => s
  | .lpar => "(" | .rpar => ")" | .lbrk => "[" | .rbrk => "]" | .lbrc => "{" | .rbrc => "}"
  | .comma => "," | .colon => ":" | .dot => "." | .assign => "="
  | .kLambda => "lambda" | .kIf => "if" | .kElse => "else" | .kOr => "or" | .kAnd => "and" | .kNot => "not"
  | .bin op => op.text | .cmp op => op.text
def Piece.text : Piece → String
  | .t k => k.text | .sp => " "

def render (ps : List Piece) : String := String.join (ps.map Piece.text)
/-- what the tokenizer sees: the spaces are dropped -/
def strip : List Piece → List Tok
  | [] => []
  | .t k :: r => k :: strip r
  | .sp :: r => strip r

/-! ### priorities as the code assigns them -/

def codePrio : Expr → Nat
  | .name _ => 1 | .const _ => 1
  | .negConst _ => 4                       -- postConstant: `if src.startswith('-'): node.priority = 4`
  | .boolOp isOr _ _ _ => if isOr then 14 else 13
  | .not _ => 12 | .compare .. => 11
  | .bin op _ _ => op.prio
  | .unary _ _ => 4
  | .ifExp .. => 15 | .lambda .. => 16
  | .attr .. => 2 | .call .. => 2 | .subscript .. => 2 | .subscriptT .. => 2
  | .list _ => 1 | .tuple _ => 1 | .dict _ => 1
  | .fstr _ => 0                           -- postJoinedStr / postFormattedValue set no priority

def parens (ps : List Piece) : List Piece := [.t .lpar] ++ ps ++ [.t .rpar]

/-- markers around the literal text of an f-string (escaped by Python's `repr` in the glue) and around the whole f-string -/
def markL : String := ""
def markR : String := ""

def doubleBraces (s : String) : String := (s.replace "{" "{{").replace "}" "}}"
def hasSub (s : String) (c : Char) : Bool := s.toList.contains c

def UnOp.tok : UnOp → Tok
  | .neg => .bin .sub | .pos => .bin .add

mutual
/-- `node.src` of an expression node -/
def prE : Expr → List Piece
  | .name s => [.t (.name s)]
  | .const s => [.t (.const s)]
  | .negConst s => [.t (.bin .sub), .t (.const s)]
  | .boolOp isOr a b more =>
      let p := if isOr then 14 else 13
      let k := if isOr then Tok.kOr else Tok.kAnd
      (if codePrio a ≥ p then parens (prE a) else prE a) ++ [.sp, .t k, .sp] ++
      (if codePrio b ≥ p then parens (prE b) else prE b) ++ prEs p k more
  | .not e => [.t .kNot, .sp] ++ (if codePrio e ≥ 12 then parens (prE e) else prE e)
  | .compare l op r more =>
      (if codePrio l ≥ 11 then parens (prE l) else prE l) ++ [.sp, .t (.cmp op), .sp] ++
      (if codePrio r ≥ 11 then parens (prE r) else prE r) ++ prCmp more
  | .bin op l r =>
      (if codePrio l ≥ op.prio then parens (prE l) else prE l) ++ [.sp, .t (.bin op), .sp] ++
      (if codePrio r ≥ op.prio then parens (prE r) else prE r)
  | .unary op e => [.t op.tok] ++ (if codePrio e ≥ 4 then parens (prE e) else prE e)
  | .ifExp b t o =>
      (if codePrio b ≥ 15 then parens (prE b) else prE b) ++ [.sp, .t .kIf, .sp] ++
      (if codePrio t ≥ 15 then parens (prE t) else prE t) ++ [.sp, .t .kElse, .sp] ++
      (if codePrio o ≥ 15 then parens (prE o) else prE o)
  | .lambda ps body =>
      [.t .kLambda, .sp] ++ prParams ps ++ [.t .colon, .sp] ++ (if codePrio body ≥ 16 then parens (prE body) else prE body)
  | .attr e a => (if codePrio e > 2 then parens (prE e) else prE e) ++ [.t .dot, .t (.name a)]
  | .call f args => (if codePrio f > 2 then parens (prE f) else prE f) ++ [.t .lpar] ++ prArgs args ++ [.t .rpar]
  | .subscript e i => (if codePrio e > 2 then parens (prE e) else prE e) ++ [.t .lbrk] ++ prIdx i ++ [.t .rbrk]
  | .subscriptT e is =>
      (if codePrio e > 2 then parens (prE e) else prE e) ++ [.t .lbrk] ++
      prIdxs is ++ (match is with
       | .cons _ .nil => [.t .comma]                      -- `if len(x.elts) == 1: key += ','`
       | _ => []) ++ [.t .rbrk]
  | .list es => [.t .lbrk] ++ prArgs es ++ [.t .rbrk]
  | .tuple es =>                                           -- '(%s,)' for one element
      [.t .lpar] ++ prArgs es ++ (match es with
       | .pos _ .nil => [.t .comma]
       | .star _ .nil => [.t .comma]
       | _ => []) ++ [.t .rpar]
  | .dict kvs => [.t .lbrc] ++ prKVs kvs ++ [.t .rbrc]
  | .fstr ps =>
      let body := prF ps
      let exprs := prFExprs ps
      let q := if hasSub exprs '\'' && !hasSub exprs '"' then "\"" else "'"
      [.t (.const ("f" ++ q ++ body ++ q))]
def prEs (p : Nat) (k : Tok) : Exprs → List Piece
  | .nil => []
  | .cons e t => [.sp, .t k, .sp] ++ (if codePrio e ≥ p then parens (prE e) else prE e) ++ prEs p k t
def prCmp : CmpTail → List Piece
  | .nil => []
  | .cons op e t => [.sp, .t (.cmp op), .sp] ++ (if codePrio e ≥ 11 then parens (prE e) else prE e) ++ prCmp t
/-- call arguments / display elements, joined with ", " -/
def prArgs : Args → List Piece
  | .nil => []
  | .pos e t => prE e ++ (match t with | .nil => [] | _ => [.t .comma, .sp] ++ prArgs t)
  | .star e t => [.t (.bin .mult)] ++ prE e ++ (match t with | .nil => [] | _ => [.t .comma, .sp] ++ prArgs t)
  | .kw n e t => [.t (.name n), .t .assign] ++ prE e ++ (match t with | .nil => [] | _ => [.t .comma, .sp] ++ prArgs t)
  | .dstar e t => [.t (.bin .pow)] ++ prE e ++ (match t with | .nil => [] | _ => [.t .comma, .sp] ++ prArgs t)
def prOpt : OptE → List Piece
  | .none => []
  | .some e => prE e
def prIdx : Idx → List Piece
  | .ie e => prE e
  | .sl lo hi st => prOpt lo ++ [.t .colon] ++ prOpt hi ++ (match st with | .none => [] | .some e => [.t .colon] ++ prE e)
def prIdxs : Idxs → List Piece
  | .nil => []
  | .cons i t => prIdx i ++ (match t with | .nil => [] | _ => [.t .comma, .sp] ++ prIdxs t)
def prParams : Params → List Piece
  | .nil => []
  | .plain n t => [.t (.name n)] ++ (match t with | .nil => [] | _ => [.t .comma, .sp] ++ prParams t)
  | .dflt n e t => [.t (.name n), .t .assign] ++ prE e ++ (match t with | .nil => [] | _ => [.t .comma, .sp] ++ prParams t)
  | .var n t => [.t (.bin .mult), .t (.name n)] ++ (match t with | .nil => [] | _ => [.t .comma, .sp] ++ prParams t)
  | .kwvar n t => [.t (.bin .pow), .t (.name n)] ++ (match t with | .nil => [] | _ => [.t .comma, .sp] ++ prParams t)
def prKVs : KVs → List Piece
  | .nil => []
  | .cons k v t => prE k ++ [.t .colon] ++ prE v ++ (match t with | .nil => [] | _ => [.t .comma, .sp] ++ prKVs t)
/-- `joined_str_body(node)[0]`; literal text is left between markers for `repr`-escaping by the glue -/
def prF : FParts → String
  | .nil => ""
  | .lit s t => markL ++ doubleBraces s ++ markR ++ prF t
  | .field e conv spec t =>
      let src := render (prE e)
      let src := if src.startsWith "{" then " " ++ src else src
      "{" ++ src ++ (if conv = "" then "" else "!" ++ conv) ++
        (match spec with | .none => "" | .some ps => ":" ++ prF ps) ++ "}" ++ prF t
/-- `joined_str_body(node)[1]`: the sources of all replacement fields -/
def prFExprs : FParts → String
  | .nil => ""
  | .lit _ t => prFExprs t
  | .field e _ spec t =>
      render (prE e) ++ (match spec with | .none => "" | .some ps => prFExprs ps) ++ prFExprs t
end

def toks (e : Expr) : List Tok := strip (prE e)
def srcText (e : Expr) : String := render (prE e)

/-! ### what re-parsing yields: a folded negative constant comes back as unary minus, an f-string as one atom -/

mutual
def norm : Expr → Expr
  | .name s => .name s
  | .const s => .const s
  | .negConst s => .unary .neg (.const s)
  | .boolOp o a b m => .boolOp o (norm a) (norm b) (normEs m)
  | .not e => .not (norm e)
  | .compare l o r m => .compare (norm l) o (norm r) (normCmp m)
  | .bin o l r => .bin o (norm l) (norm r)
  | .unary o e => .unary o (norm e)
  | .ifExp a b c => .ifExp (norm a) (norm b) (norm c)
  | .lambda ps b => .lambda (normParams ps) (norm b)
  | .attr e a => .attr (norm e) a
  | .call f a => .call (norm f) (normArgs a)
  | .subscript e i => .subscript (norm e) (normIdx i)
  | .subscriptT e i => .subscriptT (norm e) (normIdxs i)
  | .list a => .list (normArgs a)
  | .tuple a => .tuple (normArgs a)
  | .dict k => .dict (normKVs k)
  | .fstr ps => .const (match prE (.fstr ps) with | [.t (.const s)] => s | _ => "")
def normEs : Exprs → Exprs
  | .nil => .nil
  | .cons e t => .cons (norm e) (normEs t)
def normCmp : CmpTail → CmpTail
  | .nil => .nil
  | .cons o e t => .cons o (norm e) (normCmp t)
def normArgs : Args → Args
  | .nil => .nil
  | .pos e t => .pos (norm e) (normArgs t)
  | .star e t => .star (norm e) (normArgs t)
  | .kw n e t => .kw n (norm e) (normArgs t)
  | .dstar e t => .dstar (norm e) (normArgs t)
def normOpt : OptE → OptE
  | .none => .none
  | .some e => .some (norm e)
def normIdx : Idx → Idx
  | .ie e => .ie (norm e)
  | .sl a b c => .sl (normOpt a) (normOpt b) (normOpt c)
def normIdxs : Idxs → Idxs
  | .nil => .nil
  | .cons i t => .cons (normIdx i) (normIdxs t)
def normParams : Params → Params
  | .nil => .nil
  | .plain n t => .plain n (normParams t)
  | .dflt n e t => .dflt n (norm e) (normParams t)
  | .var n t => .var n (normParams t)
  | .kwvar n t => .kwvar n (normParams t)
def normKVs : KVs → KVs
  | .nil => .nil
  | .cons k v t => .cons (norm k) (norm v) (normKVs t)
end

/-! ### reference parser (Python expression grammar, recursive descent by level, fuel-bounded) -/

abbrev R (α : Type) := Option (α × List Tok)

/-- result of parsing what stands between `[` and `]` -/
inductive Sub | one (i : Idx) | many (is : Idxs)

def Sub.mk (e : Expr) : Sub → Expr
  | .one i => .subscript e i
  | .many is => .subscriptT e is

mutual
/-- `pE fuel lvl ts`: the longest prefix of `ts` that is an expression of grammar level ≤ `lvl` -/
def pE : Nat → Nat → List Tok → R Expr
  | 0, _, _ => none
  | f+1, lvl, ts =>
    if lvl ≥ 16 then
      match ts with
      | .kLambda :: r =>
        match pParams f r with
        | some (ps, r1) =>
          match pE f 16 r1 with
          | some (b, r2) => some (.lambda ps b, r2)
          | none => none
        | none => none
      | _ => pE f 15 ts
    else if lvl = 15 then
      match pE f 14 ts with
      | some (a, .kIf :: r1) =>
        match pE f 14 r1 with
        | some (c, .kElse :: r2) =>
          match pE f 16 r2 with
          | some (b, r3) => some (.ifExp a c b, r3)
          | none => none
        | _ => none
      | x => x
    else if lvl = 14 then
      match pE f 13 ts with
      | some (a, .kOr :: r1) =>
        match pE f 13 r1 with
        | some (b, r2) =>
          match pBoolTail f true r2 with
          | some (more, r3) => some (.boolOp true a b more, r3)
          | none => none
        | none => none
      | x => x
    else if lvl = 13 then
      match pE f 12 ts with
      | some (a, .kAnd :: r1) =>
        match pE f 12 r1 with
        | some (b, r2) =>
          match pBoolTail f false r2 with
          | some (more, r3) => some (.boolOp false a b more, r3)
          | none => none
        | none => none
      | x => x
    else if lvl = 12 then
      match ts with
      | .kNot :: r =>
        match pE f 12 r with
        | some (e, r1) => some (.not e, r1)
        | none => none
      | _ => pE f 11 ts
    else if lvl = 11 then
      match pE f 10 ts with
      | some (a, .cmp op :: r1) =>
        match pE f 10 r1 with
        | some (b, r2) =>
          match pCmpTail f r2 with
          | some (more, r3) => some (.compare a op b more, r3)
          | none => none
        | none => none
      | x => x
    else if lvl ≥ 5 then
      match pE f (lvl - 1) ts with
      | some (a, r) => pBin f lvl a r
      | none => none
    else if lvl = 4 then
      match ts with
      | .bin .sub :: r =>
        match pE f 4 r with
        | some (e, r1) => some (.unary .neg e, r1)
        | none => none
      | .bin .add :: r =>
        match pE f 4 r with
        | some (e, r1) => some (.unary .pos e, r1)
        | none => none
      | _ => pE f 3 ts
    else if lvl = 3 then
      match pE f 2 ts with
      | some (a, .bin .pow :: r1) =>
        match pE f 4 r1 with
        | some (b, r2) => some (.bin .pow a b, r2)
        | none => none
      | x => x
    else
      match ts with
      | .name s :: r => pPost f (.name s) r
      | .const s :: r => pPost f (.const s) r
      | .lpar :: .rpar :: r => pPost f (.tuple .nil) r
      | .lpar :: .bin .mult :: r =>
        match pE f 10 r with
        | some (e, .comma :: r1) =>
          match pItems f .rpar r1 with
          | some (more, r2) => pPost f (.tuple (.star e more)) r2
          | none => none
        | _ => none
      | .lpar :: r =>
        match pE f 16 r with
        | some (e, .rpar :: r1) => pPost f e r1
        | some (e, .comma :: r1) =>
          match pItems f .rpar r1 with
          | some (more, r2) => pPost f (.tuple (.pos e more)) r2
          | none => none
        | _ => none
      | .lbrk :: r =>
        match pItems f .rbrk r with
        | some (es, r1) => pPost f (.list es) r1
        | none => none
      | .lbrc :: r =>
        match pKVs f r with
        | some (kvs, r1) => pPost f (.dict kvs) r1
        | none => none
      | _ => none
/-- left-associative binary operators of level `lvl` (5 … 10) -/
def pBin : Nat → Nat → Expr → List Tok → R Expr
  | 0, _, _, _ => none
  | f+1, lvl, left, ts =>
    match ts with
    | .bin op :: r =>
      if op.prio = lvl then
        match pE f (lvl - 1) r with
        | some (rhs, r1) => pBin f lvl (.bin op left rhs) r1
        | none => none
      else some (left, ts)
    | _ => some (left, ts)
def pBoolTail : Nat → Bool → List Tok → R Exprs
  | 0, _, _ => none
  | f+1, isOr, ts =>
    match ts with
    | .kOr :: r =>
      if isOr then
        match pE f 13 r with
        | some (e, r1) =>
          match pBoolTail f isOr r1 with
          | some (t, r2) => some (.cons e t, r2)
          | none => none
        | none => none
      else some (.nil, ts)
    | .kAnd :: r =>
      if isOr then some (.nil, ts) else
        match pE f 12 r with
        | some (e, r1) =>
          match pBoolTail f isOr r1 with
          | some (t, r2) => some (.cons e t, r2)
          | none => none
        | none => none
    | _ => some (.nil, ts)
def pCmpTail : Nat → List Tok → R CmpTail
  | 0, _ => none
  | f+1, ts =>
    match ts with
    | .cmp op :: r =>
      match pE f 10 r with
      | some (e, r1) =>
        match pCmpTail f r1 with
        | some (t, r2) => some (.cons op e t, r2)
        | none => none
      | none => none
    | _ => some (.nil, ts)
/-- trailers of a primary: `.name`, `( args )`, `[ slices ]` -/
def pPost : Nat → Expr → List Tok → R Expr
  | 0, _, _ => none
  | f+1, left, ts =>
    match ts with
    | .dot :: .name a :: r => pPost f (.attr left a) r
    | .lpar :: r =>
      match pArgs f r with
      | some (args, r1) => pPost f (.call left args) r1
      | none => none
    | .lbrk :: r =>
      match pSub f r with
      | some (s, r1) => pPost f (s.mk left) r1
      | none => none
    | _ => some (left, ts)
/-- call arguments up to and including `)` -/
def pArgs : Nat → List Tok → R Args
  | 0, _ => none
  | f+1, ts =>
    match ts with
    | .rpar :: r => some (.nil, r)
    | .bin .mult :: r =>
      match pE f 16 r with
      | some (e, .comma :: r1) => (match pArgs f r1 with | some (t, r2) => some (.star e t, r2) | none => none)
      | some (e, .rpar :: r1) => some (.star e .nil, r1)
      | _ => none
    | .bin .pow :: r =>
      match pE f 16 r with
      | some (e, .comma :: r1) => (match pArgs f r1 with | some (t, r2) => some (.dstar e t, r2) | none => none)
      | some (e, .rpar :: r1) => some (.dstar e .nil, r1)
      | _ => none
    | .name n :: .assign :: r =>
      match pE f 16 r with
      | some (e, .comma :: r1) => (match pArgs f r1 with | some (t, r2) => some (.kw n e t, r2) | none => none)
      | some (e, .rpar :: r1) => some (.kw n e .nil, r1)
      | _ => none
    | _ =>
      match pE f 16 ts with
      | some (e, .comma :: r1) => (match pArgs f r1 with | some (t, r2) => some (.pos e t, r2) | none => none)
      | some (e, .rpar :: r1) => some (.pos e .nil, r1)
      | _ => none
/-- elements of a list / tuple display up to and including the closer; a starred element is `'*' bitwise_or` -/
def pItems : Nat → Tok → List Tok → R Args
  | 0, _, _ => none
  | f+1, closer, ts =>
    match ts with
    | [] => none
    | t0 :: r0 =>
      if t0 = closer then some (.nil, r0) else
      match ts with
      | .bin .mult :: r =>
        match pE f 10 r with
        | some (e, t1 :: r1) =>
          if t1 = .comma then (match pItems f closer r1 with | some (t, r2) => some (.star e t, r2) | none => none)
          else if t1 = closer then some (.star e .nil, r1) else none
        | _ => none
      | _ =>
        match pE f 16 ts with
        | some (e, t1 :: r1) =>
          if t1 = .comma then (match pItems f closer r1 with | some (t, r2) => some (.pos e t, r2) | none => none)
          else if t1 = closer then some (.pos e .nil, r1) else none
        | _ => none
/-- an optional expression in a slice: absent when the next token is `:` `,` or `]` -/
def pOpt : Nat → List Tok → R OptE
  | 0, _ => none
  | f+1, ts =>
    match ts with
    | .colon :: _ => some (.none, ts)
    | .comma :: _ => some (.none, ts)
    | .rbrk :: _ => some (.none, ts)
    | _ => match pE f 16 ts with
      | some (e, r) => some (.some e, r)
      | none => none
def pIdx : Nat → List Tok → R Idx
  | 0, _ => none
  | f+1, ts =>
    match pOpt f ts with
    | some (lo, .colon :: r1) =>
      match pOpt f r1 with
      | some (hi, .colon :: r2) =>
        match pOpt f r2 with
        | some (st, r3) => some (.sl lo hi st, r3)
        | none => none
      | some (hi, r2) => some (.sl lo hi .none, r2)
      | none => none
    | some (.some e, r1) => some (.ie e, r1)
    | _ => none
/-- slices up to and including `]` -/
def pSub : Nat → List Tok → R Sub
  | 0, _ => none
  | f+1, ts =>
    match pIdx f ts with
    | some (i, .rbrk :: r1) => some (.one i, r1)
    | some (i, .comma :: r1) =>
      match pIdxs f r1 with
      | some (t, r2) => some (.many (.cons i t), r2)
      | none => none
    | _ => none
def pIdxs : Nat → List Tok → R Idxs
  | 0, _ => none
  | f+1, ts =>
    match ts with
    | .rbrk :: r => some (.nil, r)
    | _ =>
      match pIdx f ts with
      | some (i, .rbrk :: r1) => some (.cons i .nil, r1)
      | some (i, .comma :: r1) =>
        match pIdxs f r1 with
        | some (t, r2) => some (.cons i t, r2)
        | none => none
      | _ => none
/-- lambda parameters up to and including `:` -/
def pParams : Nat → List Tok → R Params
  | 0, _ => none
  | f+1, ts =>
    match ts with
    | .colon :: r => some (.nil, r)
    | .bin .mult :: .name n :: .comma :: r => (match pParams f r with | some (t, r2) => some (.var n t, r2) | none => none)
    | .bin .mult :: .name n :: .colon :: r => some (.var n .nil, r)
    | .bin .pow :: .name n :: .comma :: r => (match pParams f r with | some (t, r2) => some (.kwvar n t, r2) | none => none)
    | .bin .pow :: .name n :: .colon :: r => some (.kwvar n .nil, r)
    | .name n :: .assign :: r =>
      match pE f 16 r with
      | some (e, .comma :: r1) => (match pParams f r1 with | some (t, r2) => some (.dflt n e t, r2) | none => none)
      | some (e, .colon :: r1) => some (.dflt n e .nil, r1)
      | _ => none
    | .name n :: .comma :: r => (match pParams f r with | some (t, r2) => some (.plain n t, r2) | none => none)
    | .name n :: .colon :: r => some (.plain n .nil, r)
    | _ => none
/-- `key : value` pairs up to and including `}` -/
def pKVs : Nat → List Tok → R KVs
  | 0, _ => none
  | f+1, ts =>
    match ts with
    | .rbrc :: r => some (.nil, r)
    | _ =>
      match pE f 16 ts with
      | some (k, .colon :: r1) =>
        match pE f 16 r1 with
        | some (v, .comma :: r2) => (match pKVs f r2 with | some (t, r3) => some (.cons k v t, r3) | none => none)
        | some (v, .rbrc :: r2) => some (.cons k v .nil, r2)
        | _ => none
      | _ => none
end

/-- parse a whole token list as one expression -/
def parseFuel (fuel : Nat) (ts : List Tok) : Option Expr :=
  match pE fuel 16 ts with
  | some (e, []) => some e
  | _ => none

def parse (ts : List Tok) : Option Expr := parseFuel (400 * ts.length + 400) ts

end PonyVerif.Model.PyPrint
