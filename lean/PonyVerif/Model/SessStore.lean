/-
  Model/SessStore.lean — session cache → database refinement model (properties C09 and C10).
  (DESIGN.md calls it `Model/Store.lean`; that file name is taken by the C07 value-conversion model.)

  Two machines over the same operations:

  * the IMPLEMENTATION model `step` mirrors, for explicit integer primary keys, pony/orm/core.py
      Entity.__init__ (status `created`, pk index check, queue)                 -> `create`
      Attribute.__set__ (wbits / status `modified` / objects_to_save)            -> `setAttr`
      SetInstance.add / remove + Set.reverse_add / reverse_remove bookkeeping
        of one many-to-many pair (`added` / `removed`)                           -> `linkOp` / `unlinkOp`
      Entity._delete_ (status part: cancelled / marked_to_delete, queue holes)   -> `deleteObj`
      Entity._find_one_ / _find_in_cache_ (pk path) / _find_in_db_ with the auto-flush of
        SessionCache.prepare_connection_for_query_execution                      -> `loadObj`
      SessionCache.flush (`_calc_modified_m2m`, remove_m2m → `_save_` in queue order → add_m2m,
        queue reset)                                                              -> `flushCore` / `flushIfModified`
      Entity._save_created_ (INSERT with the non-None columns), _save_updated_ (UPDATE of the written
        columns, rowcount check), _save_deleted_                                  -> `saveObj`
      SessionCache.commit / rollback / close, db_session.__exit__                 -> `commitOp`, `abort`, `endOk`
    over a database with a committed state and one open transaction (`txn` = what the session's connection sees).

  * the REFERENCE machine `specStep` is "what the program has": a logical database that every successful call updates at
    once (create adds the row, assignment changes the cell, add/remove changes the link, delete removes the row),
    commit copies working → committed, rollback / end-with-error copies committed → working.

  `abs` reads the logical database off an implementation state (cache over transaction).  Props/C09.lean proves that `abs`
  is a simulation for ALL histories; Props/C10.lean that reads answer from `abs`.

  Abstractions (tied by harness/engines/c09.py on every run): objects are identified by (entity, primary key); scalar
  values are integers or NULL; a reference value is the key of the target; relationship side effects of a high-level call
  (the reverse side, cascade) arrive as separate column-level operations (their consistency is C12/C15); loads other than
  `E[pk]` arrive as `seed`; `_save_principal_objects_` (the order of row writes, C16) is not replayed: rows are written in
  queue order; read bits / optimistic checks (C20/C21), hooks (C33), auto-generated keys, lazy attributes, inheritance are
  not modelled.  A failing flush is followed by the end of the session (the exception propagates out of `db_session`).
  Core Lean only.
-/
namespace PonyVerif.Model.SessStore

/-! ## 1. Database -/

structure Key where
  ent : Nat
  id : Nat
deriving DecidableEq, Repr, Inhabited

inductive Cell where
  | null
  | int (i : Int)
  | ref (k : Key)
deriving DecidableEq, Repr, Inhabited

/-- column index → value (columns the entity does not have are NULL) -/
abbrev Row := Nat → Cell

/-- one many-to-many link row: relationship, object of the first side, object of the second side -/
structure Link where
  rel : Nat
  a : Key
  b : Key
deriving DecidableEq, Repr, Inhabited

structure Db where
  rows : Key → Option Row
  links : Link → Bool

namespace Db
def empty : Db := ⟨fun _ => none, fun _ => false⟩
def setRow (d : Db) (k : Key) (r : Option Row) : Db := { d with rows := fun k' => if k' = k then r else d.rows k' }
def setLink (d : Db) (l : Link) (b : Bool) : Db := { d with links := fun l' => if l' = l then b else d.links l' }
end Db

def rowOfList (l : List Cell) : Row := fun c => l.getD c .null

def Row.set (r : Row) (c : Nat) (v : Cell) : Row := fun c' => if c' = c then v else r c'

/-! ## 2. Session cache -/

inductive Status where
  | created | loaded | modified | inserted | updated | markedToDelete | deleted | cancelled
deriving DecidableEq, Repr, Inhabited

/-- `status in ('created', 'modified', 'marked_to_delete')`: something to save -/
def Status.pending : Status → Bool
  | .created | .modified | .markedToDelete => true
  | _ => false

/-- `del_statuses` -/
def Status.isDel : Status → Bool
  | .markedToDelete | .deleted | .cancelled => true
  | _ => false

/-- still registered in `cache.indexes[pk_attrs]` (popped by `_save_deleted_` and by `_delete_` of a created object) -/
def Status.indexed : Status → Bool
  | .deleted | .cancelled => false
  | _ => true

structure Obj where
  status : Status
  vals : Row               -- `_vals_` (column attributes)
  wbits : List Nat         -- columns whose bit is set in `_wbits_` (ignored while `created`: `_wbits_ is None`)

structure Cache where
  objs : Key → Option Obj
  queue : List (Option Key)     -- `objects_to_save` with its `None` holes
  added : List Link             -- union of `SetData.added` of the modified many-to-many collections
  removed : List Link           -- union of `SetData.removed`
  modified : Bool               -- `cache.modified`

namespace Cache
def empty : Cache := ⟨fun _ => none, [], [], [], false⟩
def setObj (c : Cache) (k : Key) (o : Obj) : Cache := { c with objs := fun k' => if k' = k then some o else c.objs k' }
/-- `objects_to_save[save_pos] = None` -/
def clearSlot (c : Cache) (k : Key) : Cache := { c with queue := c.queue.map fun s => if s = some k then none else s }
def push (c : Cache) (k : Key) : Cache := { c with queue := c.queue ++ [some k] }
/-- the object is in the pk index -/
def inIndex (c : Cache) (k : Key) : Bool :=
  match c.objs k with
  | some o => o.status.indexed
  | none => false
end Cache

structure World where
  committed : Db
  txn : Db            -- the view of the session's connection (committed + the statements of the open transaction)
  cache : Cache

def World.init (d : Db) : World := ⟨d, d, Cache.empty⟩

/-! ## 3. Statements and outcomes -/

inductive Write where
  | insert (k : Key) (vals : Row)                        -- INSERT with the columns whose value is not None
  | update (k : Key) (cols : List Nat) (vals : Row)      -- UPDATE .. SET cols WHERE pk
  | delete (k : Key)
  | unlink (l : Link)                                    -- remove_m2m
  | link (l : Link)                                      -- add_m2m

inductive Refusal where
  | cacheIndexError      -- Cannot create: instance with primary key already exists
  | objectDeleted        -- OperationWithDeletedObjectError
  | noSuchObject         -- the program does not hold this object (not expressible in Python)
deriving DecidableEq, Repr

inductive DbErr where
  | integrity (k : Key)      -- INSERT of an existing primary key: TransactionIntegrityError
  | rowMissing (k : Key)     -- UPDATE rowcount 0: OptimisticCheckError
  | badStatus (k : Key)      -- the `assert False` of `_save_`
  | linkExists (l : Link)    -- INSERT of an existing link row
deriving DecidableEq, Repr

inductive Outcome where
  | ok
  | found (row : Row)        -- load: the object and its values
  | notFound                 -- load: ObjectNotFound
  | bool (b : Bool)          -- membership read
  | refused (e : Refusal)    -- the call raised before changing anything
  | dbError (e : DbErr)      -- a flush failed; the session is over and rolled back

/-! ## 4. Flush -/

/-- the row an INSERT listing only the non-None values produces (unlisted columns get NULL) -/
def insertRow (vals : Row) : Row := fun c =>
  match vals c with
  | .null => .null
  | v => v

/-- `attr.get_raw_values(val)` = `val._get_raw_pkval_()`: the column receives the target's primary key — which is `None` as long
    as the target is a new object whose key the database has not generated yet (`known t = false`).  The flush model below writes
    `vals` itself, i.e. it assumes every referenced key is known when a row is written; `_save_principal_objects_` (INSERT of the
    referenced new objects first, C16) is what establishes that in the real code.  Props/C09.lean: `C09_raw_fk_exact`,
    `C09_raw_fk_lost`. -/
def rawRow (known : Key → Bool) (vals : Row) : Row := fun c =>
  match vals c with
  | .ref t => if known t then .ref t else .null
  | v => v

/-- the row after `UPDATE .. SET cols = vals` -/
def updateRow (row : Row) (cols : List Nat) (vals : Row) : Row := fun c => if cols.contains c then vals c else row c

/-- `obj._save_()` without `_save_principal_objects_` -/
def saveObj (k : Key) (w : World) : Except DbErr (World × List Write) :=
  match w.cache.objs k with
  | none => .error (.badStatus k)
  | some o =>
    match o.status with
    | .created =>
      match w.txn.rows k with
      | some _ => .error (.integrity k)
      | none => .ok ({ w with txn := w.txn.setRow k (some (insertRow o.vals))
                              cache := w.cache.setObj k { o with status := .inserted, wbits := [] } }, [.insert k o.vals])
    | .modified =>
      if o.wbits.isEmpty then                                              -- `if update_columns:` is false: no statement
        .ok ({ w with cache := w.cache.setObj k { o with status := .updated } }, [])
      else match w.txn.rows k with
        | none => .error (.rowMissing k)
        | some row => .ok ({ w with txn := w.txn.setRow k (some (updateRow row o.wbits o.vals))
                                    cache := w.cache.setObj k { o with status := .updated, wbits := [] } },
                           [.update k o.wbits o.vals])
    | .markedToDelete =>
      .ok ({ w with txn := w.txn.setRow k none, cache := w.cache.setObj k { o with status := .deleted } }, [.delete k])
    | _ => .error (.badStatus k)

/-- `for obj in cache.objects_to_save: if obj is not None: obj._save_()` -/
def saveQueue : List (Option Key) → World → Except DbErr (World × List Write)
  | [], w => .ok (w, [])
  | none :: q, w => saveQueue q w
  | some k :: q, w =>
    match saveObj k w with
    | .error e => .error e
    | .ok (w', ws) =>
      match saveQueue q w' with
      | .error e => .error e
      | .ok (w'', ws') => .ok (w'', ws ++ ws')

/-- `remove_m2m`: DELETE of every removed link row -/
def removeLinks (d : Db) (removed : List Link) : Db := { d with links := fun l => d.links l && !removed.contains l }

/-- `add_m2m`: INSERT of every added link row (the link table's primary key refuses an existing row) -/
def addLinks (d : Db) : List Link → Except DbErr Db
  | [] => .ok d
  | l :: ls => if d.links l then .error (.linkExists l) else addLinks (d.setLink l true) ls

/-- one round of `SessionCache.flush` (no hooks) -/
def flushCore (w : World) : Except DbErr (World × List Write) :=
  let added := w.cache.added
  let removed := w.cache.removed
  -- _calc_modified_m2m: collect the pairs, reset added / removed
  let w1 : World := { w with cache := { w.cache with added := [], removed := [] }
                             txn := removeLinks w.txn removed }
  match saveQueue w1.cache.queue w1 with
  | .error e => .error e
  | .ok (w2, ws) =>
    match addLinks w2.txn added with
    | .error e => .error e
    | .ok d => .ok ({ w2 with txn := d, cache := { w2.cache with queue := [], modified := false } },
                    removed.map Write.unlink ++ ws ++ added.map Write.link)

/-- `if cache.modified: cache.flush()` -/
def flushIfModified (w : World) : Except DbErr (World × List Write) :=
  if w.cache.modified then flushCore w else .ok (w, [])

/-- `cache.rollback()`: the transaction is rolled back, the cache is closed -/
def abort (w : World) : World := { committed := w.committed, txn := w.committed, cache := Cache.empty }

/-! ## 5. Operations -/

inductive Op where
  | create (k : Key) (vals : List Cell)     -- E(pk, **vals)
  | set (k : Key) (c : Nat) (v : Cell)      -- obj.attr = v
  | link (l : Link)                         -- one pair of a.coll.add(..)
  | unlink (l : Link)                       -- one pair of a.coll.remove(..)
  | delete (k : Key)                        -- obj.delete() (its own row)
  | load (k : Key)                          -- E[pk] / E.get(pk=..): cache first, else auto-flush and SELECT
  | seed (k : Key)                          -- the object came into the cache as a side effect of another load (no flush)
  | hasLink (l : Link)                      -- `b in a.coll`
  | flush | commit | rollback | endOk | endErr

/-- current contents of a collection as the session sees it: `item in setdata`, resolved against the database for the part
    that is not loaded (`Set.load(obj, items)`) -/
def member (w : World) (l : Link) : Bool :=
  (w.txn.links l && !w.cache.removed.contains l) || w.cache.added.contains l

def alive (w : World) (k : Key) : Option Refusal :=
  match w.cache.objs k with
  | none => some .noSuchObject
  | some o => if o.status.isDel then some .objectDeleted else none

/-- `Entity.__init__` -/
def create (w : World) (k : Key) (vals : List Cell) : World × Outcome :=
  if w.cache.inIndex k then (w, .refused .cacheIndexError)
  else
    let c := (w.cache.setObj k { status := .created, vals := rowOfList vals, wbits := [] }).push k
    ({ w with cache := { c with modified := true } }, .ok)

/-- `Attribute.__set__` (value part; the reverse side arrives as its own operations) -/
def setAttr (w : World) (k : Key) (c : Nat) (v : Cell) : World × Outcome :=
  match w.cache.objs k with
  | none => (w, .refused .noSuchObject)
  | some o =>
    if o.status.isDel then (w, .refused .objectDeleted)
    else if o.status = .created then                                   -- `_wbits_ is None`
      ({ w with cache := w.cache.setObj k { o with vals := o.vals.set c v } }, .ok)
    else
      let o' : Obj := { status := .modified, vals := o.vals.set c v, wbits := if o.wbits.contains c then o.wbits else o.wbits ++ [c] }
      if o.status = .modified then ({ w with cache := w.cache.setObj k o' }, .ok)
      else ({ w with cache := { (w.cache.setObj k o').push k with modified := true } }, .ok)

/-- one pair of `SetInstance.add` on a many-to-many collection (both ends' SetData: `reverse_add` + the caller's tail) -/
def linkOp (w : World) (l : Link) : World × Outcome :=
  match alive w l.a, alive w l.b with
  | some e, _ => (w, .refused e)
  | none, some e => (w, .refused e)
  | none, none =>
    if member w l then ({ w with cache := { w.cache with modified := true } }, .ok)     -- new_items -= setdata
    else if w.cache.removed.contains l then                                               -- in_removed: removed.remove(item)
      ({ w with cache := { w.cache with removed := w.cache.removed.filter (· ≠ l), modified := true } }, .ok)
    else ({ w with cache := { w.cache with added := l :: w.cache.added, modified := true } }, .ok)

/-- one pair of `SetInstance.remove` on a many-to-many collection -/
def unlinkOp (w : World) (l : Link) : World × Outcome :=
  match alive w l.a, alive w l.b with
  | some e, _ => (w, .refused e)
  | none, some e => (w, .refused e)
  | none, none =>
    if w.cache.removed.contains l then (w, .ok)                                          -- items -= setdata.removed; if not items: return
    else if !member w l then ({ w with cache := { w.cache with modified := true } }, .ok)    -- items &= setdata
    else if w.cache.added.contains l then                                                -- in_added: added.remove(item)
      ({ w with cache := { w.cache with added := w.cache.added.filter (· ≠ l), modified := true } }, .ok)
    else ({ w with cache := { w.cache with removed := l :: w.cache.removed, modified := true } }, .ok)

/-- `Entity._delete_` (status, queue) -/
def deleteObj (w : World) (k : Key) : World × Outcome :=
  match w.cache.objs k with
  | none => (w, .refused .noSuchObject)
  | some o =>
    if o.status.isDel then (w, .ok)                                                      -- `if status in del_statuses: return`
    else if o.status = .created then
      ({ w with cache := (w.cache.clearSlot k).setObj k { o with status := .cancelled } }, .ok)
    else
      let c := if o.status = .modified then w.cache.clearSlot k else w.cache
      ({ w with cache := { (c.setObj k { o with status := .markedToDelete }).push k with modified := true } }, .ok)

/-- the SELECT of `_find_in_db_` / a seed being filled: the row as the connection sees it becomes a `loaded` object -/
def fetch (w : World) (k : Key) : World × Outcome :=
  match w.txn.rows k with
  | none => (w, .notFound)
  | some row => ({ w with cache := w.cache.setObj k { status := .loaded, vals := row, wbits := [] } }, .found row)

/-- `E[pk]`: `_find_in_cache_` (pk index, `marked_to_delete` → ObjectNotFound), else `_find_in_db_` whose `_exec_sql`
    flushes first when the cache is modified -/
def loadObj (w : World) (k : Key) : World × Outcome × List Write :=
  if w.cache.inIndex k then
    match w.cache.objs k with
    | some o => if o.status = .markedToDelete then (w, .notFound, []) else (w, .found o.vals, [])
    | none => (w, .notFound, [])
  else
    match flushIfModified w with
    | .error e => (abort w, .dbError e, [])
    | .ok (w', ws) => let (w'', out) := fetch w' k; (w'', out, ws)

/-- `_find_in_cache_` by primary key: `none` = the cache cannot answer and the database is asked -/
def findInCache (w : World) (k : Key) : Option Outcome :=
  if w.cache.inIndex k then
    match w.cache.objs k with
    | some o => if o.status = .markedToDelete then some .notFound else some (.found o.vals)
    | none => some .notFound
  else none

/-- the answer of `SELECT .. WHERE pk = k` on a database state -/
def queryDb (d : Db) (k : Key) : Outcome :=
  match d.rows k with
  | some r => .found r
  | none => .notFound

def commitOp (w : World) : World × Outcome × List Write :=
  match flushIfModified w with
  | .error e => (abort w, .dbError e, [])
  | .ok (w', ws) => ({ w' with committed := w'.txn }, .ok, ws)

def step (w : World) : Op → World × Outcome × List Write
  | .create k vals => let (w', o) := create w k vals; (w', o, [])
  | .set k c v => let (w', o) := setAttr w k c v; (w', o, [])
  | .link l => let (w', o) := linkOp w l; (w', o, [])
  | .unlink l => let (w', o) := unlinkOp w l; (w', o, [])
  | .delete k => let (w', o) := deleteObj w k; (w', o, [])
  | .load k => loadObj w k
  | .seed k => if w.cache.inIndex k then (w, .ok, []) else ((fetch w k).1, .ok, [])
  | .hasLink l => (w, .bool (member w l), [])
  | .flush =>
    match flushIfModified w with
    | .error e => (abort w, .dbError e, [])
    | .ok (w', ws) => (w', .ok, ws)
  | .commit => commitOp w
  | .rollback => (abort w, .ok, [])
  | .endOk =>
    match commitOp w with
    | (w', .ok, ws) => ({ w' with cache := Cache.empty }, .ok, ws)
    | r => r
  | .endErr => (abort w, .ok, [])

/-! ## 6. The reference machine: what the program has -/

structure Spec where
  committed : Db
  working : Db

def Spec.init (d : Db) : Spec := ⟨d, d⟩

/-- effect of a call that returned normally -/
def specApply (s : Spec) : Op → Spec
  | .create k vals => { s with working := s.working.setRow k (some (rowOfList vals)) }
  | .set k c v =>
    match s.working.rows k with
    | some row => { s with working := s.working.setRow k (some (row.set c v)) }
    | none => s
  | .link l => { s with working := s.working.setLink l true }
  | .unlink l => { s with working := s.working.setLink l false }
  | .delete k => { s with working := s.working.setRow k none }
  | .commit | .endOk => { s with committed := s.working }
  | .rollback | .endErr => { s with working := s.committed }
  | .load _ | .seed _ | .hasLink _ | .flush => s

/-- the reference machine is told only whether the call returned or raised -/
def specStep (s : Spec) (op : Op) : Outcome → Spec
  | .refused _ => s
  | .dbError _ => { s with working := s.committed }
  | _ => specApply s op

/-- the logical database a session state stands for: cache over transaction -/
def abs (w : World) : Db where
  rows k := match w.cache.objs k with
    | none => w.txn.rows k
    | some o => match o.status with
      | .markedToDelete | .deleted | .cancelled => none
      | _ => some o.vals
  links l := member w l

/-- both machines side by side -/
structure Both where
  w : World
  s : Spec

def stepBoth (b : Both) (op : Op) : Both :=
  let r := step b.w op
  ⟨r.1, specStep b.s op r.2.1⟩

def runBoth (b : Both) : List Op → Both
  | [] => b
  | op :: ops => runBoth (stepBoth b op) ops

/-- what a well-formed program does not do: construct an object under a primary key that is in use in its own view -/
def OpOk (s : Spec) : Op → Prop
  | .create k _ => s.working.rows k = none
  | _ => True

def ValidFrom (b : Both) : List Op → Prop
  | [] => True
  | op :: ops => OpOk b.s op ∧ ValidFrom (stepBoth b op) ops

instance (s : Spec) (op : Op) : Decidable (OpOk s op) := by
  cases op <;> simp [OpOk] <;> infer_instance

instance decValidFrom : (b : Both) → (ops : List Op) → Decidable (ValidFrom b ops)
  | _, [] => isTrue trivial
  | b, op :: ops =>
    match (inferInstance : Decidable (OpOk b.s op)), decValidFrom (stepBoth b op) ops with
    | isTrue h1, isTrue h2 => isTrue ⟨h1, h2⟩
    | isFalse h1, _ => isFalse fun h => h1 h.1
    | _, isFalse h2 => isFalse fun h => h2 h.2

end PonyVerif.Model.SessStore
